#!/bin/bash
# MANIFEST.setup_cmd: full .vo build of the static Coq development (offline, from files on disk).
# Per-property hygiene (no Admitted/admit/Axiom/... in the files a property depends on) is an
# obligation of every check; here the whole tree is scanned and reported.
cd "$(dirname "$0")/coq" || exit 1
./mkproject.sh
timeout 3000 make -k -j16 2>&1 | grep -v "WARNING conda" | grep -E "Error|error|\*\*\*" | head -20
cd ..
grep -rnE '\b(Admitted|admit|Axiom|Parameter|Conjecture)\b|Unset Guard|bypass_check|type-in-type' coq --include=*.v | grep -v '(\*' | head -20
mkdir -p evidence build
missing=0
for p in $(cat manifest.d/ENABLED); do
  [ -f "coq/Props/$p.vo" ] || { echo "setup: coq/Props/$p.vo was not built" >&2; missing=1; }
done
[ $missing -eq 0 ] || exit 1
echo "setup ok"
