#!/bin/bash
# MANIFEST.setup_cmd: full .vo build of the static Coq development + sanity greps.  Offline.
set -e
cd "$(dirname "$0")/coq"
./mkproject.sh
timeout 3000 make -j16 2>&1 | grep -v "WARNING conda" | tail -5
cd ..
if grep -rnE '\b(Admitted|admit|Axiom|Parameter|Conjecture)\b|Unset Guard|bypass_check|type-in-type' coq --include=*.v | grep -v '(\*.*\*)' ; then
  echo "setup: forbidden construct in the Coq development" >&2; exit 1
fi
mkdir -p evidence build
echo "setup ok"
