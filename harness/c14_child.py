"""C14 child: real short runs of both samplers with an exactly rounded likelihood; prints digests.

stdin : {"mode": "runs", "root": dir, "runs": [cfg, ...]}   cfg = {name, sampler: "std"|"ins", seed, n_pool, user_pool,
                                                                   chunksize, parallelise_prior, allow_vectorised, repeat}
        {"mode": "seedfn", "seeds": [...]}                   the real configure_random_seed on a namespace object
stdout: {"runs": [{name, digests: [per repeat], parts, evals, iteration, ...}]}
"""
import copy
import hashlib
import json
import os
import shutil
import sys
import types

import numpy as np


def make_model(vectorised=True):
    from nessai.model import Model

    class G(Model):
        """log L = -(a^2 + b^2)/2 with a, b the coordinates rounded to the grid 2^-10: every operation is exact in
        float64, so vectorised and pointwise evaluation agree bit for bit"""

        def __init__(self):
            self.names = ["x", "y"]
            self.bounds = {"x": [-5.0, 5.0], "y": [-5.0, 5.0]}

        def log_prior(self, x):
            return np.log(self.in_bounds(x), dtype=float) - np.log(100.0)

        def log_likelihood(self, x):
            a = np.round(x["x"] * 1024.0) / 1024.0
            b = np.round(x["y"] * 1024.0) / 1024.0
            return -0.5 * (a * a + b * b)

        def to_unit_hypercube(self, x):
            y = x.copy()
            for n in self.names:
                y[n] = (x[n] + 5.0) / 10.0
            return y

        def from_unit_hypercube(self, x):
            y = x.copy()
            for n in self.names:
                y[n] = 10.0 * x[n] - 5.0
            return y

    m = G()
    if not vectorised:
        m.allow_vectorised = False
    return m


def h(*arrays):
    d = hashlib.sha256()
    for a in arrays:
        a = np.ascontiguousarray(a)
        d.update(str(a.dtype).encode())
        d.update(str(a.shape).encode())
        d.update(a.tobytes())
    return d.hexdigest()[:24]


FLOW = dict(flow_config={"n_blocks": 2, "n_neurons": 8}, training_config={"max_epochs": 20, "patience": 5})


class Opaque:
    """a user pool that offers only map / close / join (executor- or MPI-backed pools look like this):
    nessai cannot read its size"""

    def __init__(self, pool):
        self._p = pool

    def map(self, f, it):
        return self._p.map(f, it)

    def close(self):
        self._p.close()

    def join(self):
        self._p.join()


SITES = set()
_RECORDER = {"on": False}
NP_FUNCS = ["rand", "randn", "uniform", "permutation", "choice", "multinomial", "randint", "normal", "random_sample",
            "random", "shuffle", "standard_normal", "exponential", "beta", "gamma", "chisquare"]
TORCH_FUNCS = ["rand", "randn", "randint", "randperm", "normal", "multinomial", "bernoulli", "rand_like", "randn_like"]


def install_recorder():
    """wrap the numpy / torch global-generator entry points: record which nessai function called them
    (file under nessai/, function name), then call through unchanged (no effect on the random streams)"""
    if _RECORDER["on"]:
        return
    import functools
    import torch
    import nessai
    root = os.path.dirname(os.path.abspath(nessai.__file__)) + os.sep

    def wrap(fn):
        @functools.wraps(fn)
        def inner(*a, **k):
            f = sys._getframe(1)
            fname = f.f_code.co_filename
            if fname.startswith(root):
                SITES.add(fname[len(root):] + "::" + f.f_code.co_name)
            return fn(*a, **k)
        return inner

    for n in NP_FUNCS:
        if hasattr(np.random, n):
            setattr(np.random, n, wrap(getattr(np.random, n)))
    for n in TORCH_FUNCS:
        if hasattr(torch, n):
            setattr(torch, n, wrap(getattr(torch, n)))
    try:
        from scipy.stats import rv_continuous
        real_rvs = rv_continuous.rvs

        def rvs(self, *a, **k):
            f = sys._getframe(2)
            fname = f.f_code.co_filename
            if fname.startswith(root):
                SITES.add(fname[len(root):] + "::" + f.f_code.co_name)
            return real_rvs(self, *a, **k)
        rv_continuous.rvs = rvs
    except Exception:
        pass
    _RECORDER["on"] = True


def make_angle_model():
    from nessai.model import Model

    class A(Model):
        """an angle and a linear parameter; exactly rounded likelihood"""

        def __init__(self):
            self.names = ["phi", "y"]
            self.bounds = {"phi": [0.0, 2 * np.pi], "y": [-5.0, 5.0]}

        def log_prior(self, x):
            return np.log(self.in_bounds(x), dtype=float) - np.log(20 * np.pi)

        def log_likelihood(self, x):
            a = np.round((x["phi"] - 3.0) * 1024.0) / 1024.0
            b = np.round(x["y"] * 1024.0) / 1024.0
            return -0.5 * (a * a + b * b)

    return A()


def cfg_diff(a, b, path=""):
    """differences between the caller's configuration before (a) and after (b): removed / changed / added entries"""
    out = []
    if isinstance(a, dict) and isinstance(b, dict):
        for k in sorted(set(a) | set(b), key=str):
            if k not in a:
                out.append({"kind": "added", "path": f"{path}/{k}", "after": repr(b[k])[:80]})
            elif k not in b:
                out.append({"kind": "removed", "path": f"{path}/{k}", "before": repr(a[k])[:80]})
            else:
                out += cfg_diff(a[k], b[k], f"{path}/{k}")
    elif isinstance(a, (list, tuple)) and isinstance(b, (list, tuple)) and len(a) == len(b) and type(a) is type(b):
        for i, (x, y) in enumerate(zip(a, b)):
            out += cfg_diff(x, y, f"{path}[{i}]")
    else:
        try:
            same = type(a) is type(b) and (np.array_equal(a, b) if isinstance(a, np.ndarray) else bool(a == b))
        except Exception:
            same = False
        if not same:
            out.append({"kind": "changed", "path": path, "before": repr(a)[:80], "after": repr(b)[:80]})
    return out


def user_settings(cfg):
    """the settings objects a user script would build ONCE and hand to every run"""
    if cfg.get("layout") == "deprecated":       # training keys and a model_config sub-dict inside flow_config
        user = {"flow_config": {"max_epochs": 20, "patience": 5, "model_config": {"n_blocks": 2, "n_neurons": 8}}}
    else:
        user = copy.deepcopy(FLOW)
    extra = copy.deepcopy(cfg.get("extra") or {})
    for k_ in ("flow_config", "training_config"):
        if k_ in extra:
            user[k_] = dict(user.get(k_, {}), **extra.pop(k_))
    user.update(extra)
    return user


def one_run(cfg, outdir, user=None, rep_index=0, keep_output=False):
    import torch
    torch.set_num_threads(1)
    from nessai.flowsampler import FlowSampler
    install_recorder()
    model = make_angle_model() if cfg.get("model") == "angle" else make_model(cfg.get("allow_vectorised", True))
    ck = cfg.get("checkpoint")
    ck_its = []
    if ck:
        # identical likelihood values, but this run's calls take a little longer: wall-clock scheduled checkpoints
        # fire at different iterations in the runs of the pair
        delay = ck["sleep"][min(rep_index, len(ck["sleep"]) - 1)]
        if delay:
            import time
            real_ll = model.log_likelihood

            def slow_ll(x, _f=real_ll, _d=delay):
                time.sleep(_d)
                return _f(x)
            model.log_likelihood = slow_ll
    if cfg.get("parallelise_prior"):
        model.parallelise_prior = True
    kw = dict(nlive=cfg.get("nlive", 50), plot=False, seed=cfg["seed"], signal_handling=False, output=outdir,
              resume=False, checkpointing=False)
    shared = user is not None
    if not shared:
        user = user_settings(cfg)            # a fresh copy per run (nessai adds keys to the dicts it is given)
    before = copy.deepcopy(user)
    pool = None
    if cfg.get("user_pool"):
        import multiprocessing
        from nessai.utils.multiprocessing import initialise_pool_variables
        pool = multiprocessing.get_context("fork").Pool(cfg["user_pool"], initializer=initialise_pool_variables,
                                                        initargs=(model,))
        kw["pool"] = Opaque(pool) if cfg.get("opaque") else pool
        if cfg.get("opaque") and cfg.get("n_pool"):
            kw["n_pool"] = cfg["n_pool"]
    elif cfg.get("n_pool"):
        kw["n_pool"] = cfg["n_pool"]
    if cfg.get("chunksize"):
        kw["likelihood_chunksize"] = cfg["chunksize"]
    if cfg["sampler"] == "std":
        kw.update(max_iteration=cfg.get("max_iteration", 120), maximum_uninformed=cfg.get("maximum_uninformed", 40),
                  poolsize=cfg.get("poolsize", 100))
    else:
        kw.update(importance_nested_sampler=True, max_iteration=cfg.get("max_iteration", 3), min_samples=10)
    if cfg.get("plots"):
        # every plotting option the samplers offer (the final result plots of FlowSampler.run stay off)
        kw["plot"] = True
        if cfg["sampler"] == "std":
            kw["proposal_plots"] = True          # ("all" raises KeyError: 'logL' in plot_live_points on the unchanged tree)
        else:
            kw.update(plot_pool=True, plot_training_data=True, plot_likelihood_levels=True, plotting_frequency=1)
    if ck:
        import pickle

        def record_checkpoint(sampler, _l=ck_its):
            _l.append(int(sampler.iteration))
            pickle.dumps(sampler)                       # what the default checkpoint would serialise
        kw.update(checkpointing=True, checkpoint_on_iteration=False, checkpoint_interval=ck["interval"],
                  checkpoint_callback=record_checkpoint)
    try:
        fs = FlowSampler(model, **kw, **user)          # the user's objects themselves, not copies
        fs.run(plot=False, save=False, **(cfg.get("run_kwargs") or {}))
        ns = fs.ns
        if cfg["sampler"] == "std":
            samples = np.array(ns.nested_samples)
            parts = {"nested_samples": h(samples), "weights": h(np.asarray(ns.state.log_posterior_weights)),
                     "evidence": h(np.float64(ns.state.logZ), np.float64(ns.state.log_evidence_error)),
                     "live_points": h(ns.live_points) if ns.live_points is not None else "none",
                     "posterior": h(fs.posterior_samples)}
            extra = {"training_count": int(ns._flow_proposal.training_count), "logZ": float(ns.state.logZ),
                     "proposal": type(ns.proposal).__name__}
        else:
            ts = ns.training_samples
            parts = {"nested_samples": h(ts.samples), "weights": h(np.asarray(ns.state.log_posterior_weights)),
                     "evidence": h(np.float64(ns.log_evidence), np.float64(ns.log_evidence_error)),
                     "log_q": h(ts.log_q) if ts.log_q is not None else "none",
                     "posterior": h(fs.posterior_samples)}
            extra = {"levels": int(ns.proposal.flow.n_models), "logZ": float(ns.log_evidence)}
        evals = int(ns.model.likelihood_evaluations)
        parts["counts"] = h(np.array([evals, int(ns.iteration)], dtype=np.int64))
        if cfg["sampler"] == "ins" and getattr(ns, "final_samples_unit", None) is not None:
            parts["final_samples"] = h(ns.final_samples_unit)
        return {"parts": parts, "evals": evals, "iteration": int(ns.iteration), "sites": sorted(SITES),
                "shared_settings": shared, "settings_diff": cfg_diff(before, user), "checkpoint_iterations": ck_its,
                "output_files_before": cfg.get("_files_before"),
                "stopping_criterion": list(getattr(ns, "stopping_criterion", []) or []),
                "requested_seed": cfg["seed"], "recorded_seed": None if ns.seed is None else int(ns.seed),
                "vectorised": bool(getattr(model, "_vectorised_likelihood", None)), "n_pool": getattr(model, "n_pool", None),
                **extra}
    finally:
        if pool is not None:
            pool.close()
            pool.join()
        if not keep_output:
            shutil.rmtree(outdir, ignore_errors=True)


def run_runs(job):
    import logging
    from nessai.utils.logging import setup_logger
    setup_logger(output=None, log_level="CRITICAL")
    logging.disable(logging.CRITICAL)
    import warnings
    warnings.filterwarnings("ignore")
    out = []
    for cfg in job["runs"]:
        res = {"name": cfg["name"], "cfg": cfg, "reps": []}
        user = user_settings(cfg) if cfg.get("shared") else None       # ONE set of objects for every run of the group
        n_rep = cfg.get("repeat", 1)
        for k in range(n_rep):
            reuse = bool(cfg.get("reuse_output"))
            outdir = os.path.join(job["root"], cfg["name"] + ("_shared_dir" if reuse else f"_{k}"))
            nfiles = sum(len(fs_) for _, _, fs_ in os.walk(outdir)) if os.path.isdir(outdir) else 0
            cfg["_files_before"] = nfiles               # how many files the directory already holds when the run starts
            try:
                res["reps"].append(one_run(cfg, outdir, user, rep_index=k, keep_output=reuse and k < n_rep - 1))
            except Exception as e:
                import traceback
                res["reps"].append({"error": type(e).__name__, "trace": traceback.format_exc()[-1500:]})
        out.append(res)
    return out


def seedfn(job):
    import torch
    from nessai.samplers.base import BaseNestedSampler
    out = []
    for s in job["seeds"]:
        o = types.SimpleNamespace()
        np.random.rand(3)
        torch.rand(2)                       # disturb both generators first
        BaseNestedSampler.configure_random_seed(o, s)
        out.append({"seed": s, "stored": o.seed, "np": h(np.random.rand(5), np.random.permutation(7)),
                    "torch": h(torch.rand(5).numpy(), torch.randperm(7).numpy())})
    return out


def main():
    job = json.load(sys.stdin)
    if job["mode"] == "runs":
        json.dump({"runs": run_runs(job)}, sys.stdout)
    elif job["mode"] == "seedfn":
        json.dump({"seedfn": seedfn(job)}, sys.stdout)
    else:
        raise SystemExit("unknown mode")


if __name__ == "__main__":
    main()
