"""Runs the real nessai live-point converters / registry / unstructured views on the cases given
on stdin (JSON) and prints what was observed (JSON).  Floats travel as 64-bit patterns.

The registry nessai.config.livepoints is process-global: every case starts and ends with
reset_extra_live_points_parameters(), and reports whether it started clean."""
import json
import logging
import struct
import sys

import numpy as np

NAN = 0x7FF8000000000000


def f2b(x):
    x = float(x)
    if x != x:
        return NAN
    return struct.unpack("<Q", struct.pack("<d", x))[0]


def b2f(b):
    return struct.unpack("<d", struct.pack("<Q", int(b)))[0]


def enc_scalar(v, kind):
    if kind == "i4":
        return ["i", int(v)]
    return ["f", f2b(v)]


def kind_of(dt):
    dt = np.dtype(dt)
    if dt == np.dtype("f8"):
        return "f8"
    if dt == np.dtype("i4"):
        return "i4"
    return "other:" + dt.str


def enc_struct(x):
    names = list(x.dtype.names)
    kinds = [kind_of(x.dtype[n]) for n in names]
    rows = []
    for r in range(x.size):
        rows.append([enc_scalar(x[n][r], k) for n, k in zip(names, kinds)])
    return {"t": "arr", "names": names, "kinds": kinds, "rows": rows, "shape": list(x.shape)}


def enc_mat(m):
    m = np.asarray(m)
    if m.ndim != 2 or m.dtype != np.dtype("f8"):
        return {"t": "other", "repr": f"ndim={m.ndim} dtype={m.dtype}"}
    return {"t": "mat", "m": [[["f", f2b(v)] for v in row] for row in m], "shape": list(m.shape)}


def enc_dict(d):
    out = []
    for k, v in d.items():
        v = np.asarray(v)
        kd = kind_of(v.dtype)
        out.append([k, [enc_scalar(z, kd) for z in v.reshape(-1)], kd])
    return {"t": "dict", "d": out}


def err(e):
    return {"t": "err", "e": type(e).__name__, "msg": str(e)[:200]}


def attempt(fn):
    try:
        return fn()
    except Exception as e:  # noqa: BLE001 - every rejection is an observation
        return err(e)


def pyval(v):
    """case value -> python object: {"f": bits} float, {"i": n} python int"""
    if "f" in v:
        return b2f(v["f"])
    return int(v["i"])


def do_hist(ops, lp, config, record=None, watch=None):
    for op in ops:
        if watch is not None:
            watch("before", op)
        if op["op"] == "add":
            dv = None if op["dv"] is None else [pyval(v) for v in op["dv"]]
            if op.get("as_tuple") and dv is not None:
                dv = tuple(dv)
            lp.add_extra_parameters_to_live_points(list(op["ps"]), dv)
        elif op["op"] == "reset":
            lp.reset_extra_live_points_parameters()
        elif op["op"] == "read":
            c = config.livepoints
            names = list(c.non_sampling_parameters)
            kinds = [kind_of(k) for k in c.non_sampling_dtype]
            defs = list(c.non_sampling_defaults)
            if record is not None:
                record.append({
                    "names": names, "kinds": kinds,
                    "defs": [enc_scalar(d, k) for d, k in zip(defs, kinds)] if len(defs) == len(kinds) else None,
                    "ndefs": len(defs),
                })
        if watch is not None:
            watch("after", op)


def run_conv(c, lp, config, Model):
    lp.reset_extra_live_points_parameters()
    cl = config.livepoints
    clean = (cl.extra_parameters == [] and tuple(cl.extra_parameters_defaults) == ()
             and cl.extra_parameters_dtype == [] and list(cl.non_sampling_parameters) == list(cl.core_parameters))
    names = list(c["names"])
    nsp = bool(c["nsp"])
    data = [[b2f(b) for b in row] for row in c["data"]]
    n, d = len(data), len(names)
    width = len(data[0]) if n else d
    arr = np.array(data, dtype=float).reshape(n, width) if n else np.zeros((0, d))
    only = c.get("only")
    out = {"clean_start": clean}

    # a Model whose view dtype is cached *before* the registry history is applied
    class M(Model):
        def __init__(self, nm):
            self.names = nm
            self.bounds = {k: [-1.0, 1.0] for k in nm}

        def log_prior(self, x):
            return np.zeros(x.size)

        def log_likelihood(self, x):
            return np.zeros(x.size)

    model = None
    if c.get("model"):
        def mk():
            m = M(list(names))
            m.unstructured_view(lp.empty_structured_array(1, names))
            return m
        model = attempt(mk)
    try:
        do_hist(c["hist"], lp, config)
    except Exception as e:  # noqa: BLE001
        out["hist_error"] = err(e)
    obs = {}
    # optional arguments: left at their defaults, or given explicitly with the default's value
    dflt = bool(c.get("defaults"))
    kw = {} if (nsp and dflt) else {"non_sampling_parameters": nsp}
    gkw = dict(kw) if dflt else dict(kw, array_dtype="f8")

    def put(cid, fn, enc):
        def go():
            return enc(fn())
        if only is None or cid in only:
            obs[str(cid)] = attempt(go)

    X = attempt(lambda: lp.numpy_array_to_live_points(arr, names, **kw))
    put(0, lambda: lp.numpy_array_to_live_points(arr, names, **kw), enc_struct)
    if n == 1:
        put(1, lambda: lp.numpy_array_to_live_points(arr[0], names, **kw), enc_struct)
    put(2, lambda: lp.empty_structured_array(n, names, **kw), enc_struct)
    put(3, lambda: lp.empty_structured_array(
        n, dtype=lp.get_dtype(names, **gkw), **kw), enc_struct)
    if c.get("fields") and nsp:
        put(25, lambda: lp.empty_structured_array(n, dtype=[(k, kd) for k, kd in c["fields"]]), enc_struct)
    if n <= 1:
        ps = list(data[0]) if n else []
        how = c.get("params_as", "list")
        if how == "tuple":
            ps = tuple(ps)
        elif how == "array":
            ps = np.array(ps, dtype=float)
        put(4, lambda: lp.parameters_to_live_point(ps, names, **kw), enc_struct)
    import pandas as pd
    put(5, lambda: lp.dataframe_to_live_points(pd.DataFrame(arr, columns=names), **kw),
        enc_struct)
    nodup = len(set(names)) == len(names)      # a Python dict cannot hold a duplicated key
    if nodup:
      put(6, lambda: lp.dict_to_live_points({k: [row[j] for row in data] for j, k in enumerate(names)},
                                          **kw), enc_struct)
    if nodup:
      put(7, lambda: lp.dict_to_live_points({k: arr[:, j].copy() for j, k in enumerate(names)},
                                          **kw), enc_struct)
    if n == 1 and nodup:
        put(8, lambda: lp.dict_to_live_points({k: data[0][j] for j, k in enumerate(names)},
                                              **kw), enc_struct)
    if c.get("dx") is not None:
        dx = {}
        for k, v in c["dx"]:
            dx[k] = b2f(v["s"]) if "s" in v else [b2f(b) for b in v["l"]]
        put(9, lambda: lp.dict_to_live_points(dx, **kw), enc_struct)
    if not isinstance(X, dict):
        put(10, lambda: lp.live_points_to_array(X, names), enc_mat)
        put(11, lambda: lp.live_points_to_array(X, names, copy=True), enc_mat)
        put(12, lambda: lp.live_points_to_dict(X, names), enc_dict)
        put(13, lambda: lp.live_points_to_dict(X) if dflt else lp.live_points_to_dict(X, names=None), enc_dict)
        put(26, lambda: lp.live_points_to_array(X) if dflt else lp.live_points_to_array(X, names=None, copy=False),
            enc_mat)
        put(27, lambda: lp.unstructured_view(X, dtype=lp._unstructured_view_dtype(X, names)) if dflt
            else lp.unstructured_view(X, names=None, dtype=lp._unstructured_view_dtype(X, names)), enc_mat)

        def frame():
            df = pd.DataFrame(lp.live_points_to_dict(X, names))
            vals = np.asarray(df.values, dtype=float).reshape(len(df), len(df.columns))
            e = enc_mat(vals)
            return {"t": "arr", "names": [str(k) for k in df.columns], "kinds": [], "rows": e["m"]}
        put(14, frame, lambda z: z)
        put(15, lambda: lp.dict_to_live_points(lp.live_points_to_dict(X, names), **kw),
            enc_struct)
        put(16, lambda: lp.numpy_array_to_live_points(lp.live_points_to_array(X, names), names,
                                                      **kw), enc_struct)
        put(17, lambda: lp.dataframe_to_live_points(pd.DataFrame(lp.live_points_to_dict(X, names)),
                                                    **kw), enc_struct)
        if c.get("qnames"):
            put(22, lambda: lp.live_points_to_array(X, list(c["qnames"])), enc_mat)
            put(23, lambda: lp.live_points_to_array(X, list(c["qnames"]), copy=True), enc_mat)
        if c.get("dnames"):
            put(24, lambda: lp.live_points_to_dict(X, list(c["dnames"])), enc_dict)
        put(18, lambda: lp.unstructured_view(X, names), enc_mat)
        if model is not None and not isinstance(model, dict):
            put(19, lambda: model.unstructured_view(X), enc_mat)
        if c.get("vnames") is not None:
            put(20, lambda: lp.unstructured_view(X, list(c["vnames"])), enc_mat)

        def meta():
            v = lp.unstructured_view(X, names)
            offs = [int(X.dtype.fields[k][1]) for k in X.dtype.names]
            data_off = int(v.__array_interface__["data"][0]) - int(X.__array_interface__["data"][0])
            st = list(v.strides)
            if X.size == 0:      # numpy reports stride 0 for an empty array; no element is addressed
                st[0] = int(X.dtype.itemsize)
            return {"t": "mat", "m": [[["i", int(X.dtype.itemsize)]], [["i", o] for o in offs],
                                      [["i", data_off], ["i", int(st[0])], ["i", int(st[1])]]]}
        put(21, meta, lambda z: z)

        # raw facts for the direct predicate: zero copy, write-through, per-element addresses
        def facts():
            v = lp.unstructured_view(X, names)
            base = int(X.__array_interface__["data"][0])
            fx = {"shares": bool(np.shares_memory(v, X)) if X.size else True,
                  "owns": bool(v.flags.owndata), "shape": list(v.shape)}
            addr_ok = True
            for r in range(X.size):
                for cc, k in enumerate(names):
                    a_view = int(v[r:r + 1, cc:cc + 1].__array_interface__["data"][0])
                    a_field = int(X[k][r:r + 1].__array_interface__["data"][0])
                    if a_view != a_field or a_view != base + r * X.dtype.itemsize + 8 * cc:
                        addr_ok = False
            fx["addr_ok"] = addr_ok
            if X.size:
                Y = X.copy()
                w = lp.unstructured_view(Y, names)
                w[X.size - 1, len(names) - 1] = 12345.5
                fx["write_through"] = bool(Y[names[-1]][X.size - 1] == 12345.5)
                others = [k for k in Y.dtype.names if k != names[-1]]
                fx["write_local"] = all(
                    f2b(Y[k][r]) == f2b(X[k][r]) if kind_of(Y.dtype[k]) == "f8" else Y[k][r] == X[k][r]
                    for k in others for r in range(X.size)) and all(
                    f2b(Y[names[-1]][r]) == f2b(X[names[-1]][r]) for r in range(X.size - 1))
            if model is not None and not isinstance(model, dict):
                mv = model.unstructured_view(X)
                fx["model_shares"] = bool(np.shares_memory(mv, X)) if X.size else True
            return fx
        out["view_facts"] = attempt(facts)
    out["obs"] = obs
    lp.reset_extra_live_points_parameters()
    return out


def run_hist(c, lp, config):
    """registry history with probes, plus `nothing else changes` observations"""
    lp.reset_extra_live_points_parameters()
    from dataclasses import asdict
    names = list(c.get("names") or ["x", "y"])
    rec = []
    side = {"old_arrays_unchanged": True, "other_config_unchanged": True, "core_unchanged": True}
    state = {}

    def snapshot():
        cl = config.livepoints
        return (list(cl.core_parameters), cl.logl_dtype, cl.it_dtype, cl.it_default, cl.default_float_dtype,
                f2b(cl.default_float_value))

    def watch(when, op):
        if op["op"] == "read":
            return
        if when == "before":
            try:
                a = lp.numpy_array_to_live_points(np.array([[1.5] * len(names), [-2.0] * len(names)]), names)
            except Exception:  # noqa: BLE001 - a malformed history may make the dtype invalid
                a = None
            state["arr"] = a
            state["bytes"] = None if a is None else (a.tobytes(), a.dtype.descr)
            state["other"] = (asdict(config.plotting), asdict(config.general))
            state["core"] = snapshot()
        else:
            a = state.get("arr")
            if a is not None and (a.tobytes(), a.dtype.descr) != state["bytes"]:
                side["old_arrays_unchanged"] = False
            if (asdict(config.plotting), asdict(config.general)) != state["other"]:
                side["other_config_unchanged"] = False
            if snapshot() != state["core"]:
                side["core_unchanged"] = False

    res = {}
    try:
        do_hist(c["ops"], lp, config, record=rec, watch=watch)
    except Exception as e:  # noqa: BLE001
        res["error"] = err(e)
    res["probes"] = rec
    res["side"] = side
    # what a freshly built array looks like at the end
    res["final"] = attempt(lambda: enc_struct(lp.empty_structured_array(1, names)))
    lp.reset_extra_live_points_parameters()
    cl = config.livepoints
    res["reset_clean"] = (cl.extra_parameters == [] and tuple(cl.extra_parameters_defaults) == ()
                          and cl.extra_parameters_dtype == []
                          and list(cl.non_sampling_parameters) == list(cl.core_parameters)
                          and len(cl.non_sampling_defaults) == len(cl.core_parameters)
                          and list(cl.non_sampling_dtype) == list(cl.core_parameters_dtype))
    return res


def battery(lp, names, nsp, data, dflt=False):
    """every conversion function for ONE point (the single-point converters and the vector ones)"""
    import pandas as pd
    arr = np.array(data, dtype=float).reshape(1, len(names))
    obs = {}
    kw = {} if (nsp and dflt) else {"non_sampling_parameters": nsp}

    def put(cid, fn):
        obs[str(cid)] = attempt(lambda: enc_struct(fn()))
    put(0, lambda: lp.numpy_array_to_live_points(arr, names, **kw))
    put(1, lambda: lp.numpy_array_to_live_points(arr[0], names, **kw))
    put(2, lambda: lp.empty_structured_array(1, names, **kw))
    put(4, lambda: lp.parameters_to_live_point(list(data[0]), names, **kw))
    put(5, lambda: lp.dataframe_to_live_points(pd.DataFrame(arr, columns=names), **kw))
    put(6, lambda: lp.dict_to_live_points({k: [data[0][j]] for j, k in enumerate(names)}, **kw))
    put(8, lambda: lp.dict_to_live_points({k: data[0][j] for j, k in enumerate(names)}, **kw))
    return obs


def run_staged(c, lp, config):
    """all converters again after EVERY operation of the registry history, same names, same data"""
    lp.reset_extra_live_points_parameters()
    names, nsp = list(c["names"]), bool(c["nsp"])
    data = [[b2f(b) for b in row] for row in c["data"]]
    steps = []
    for op in c["ops"]:
        e = None
        try:
            do_hist([op], lp, config)
        except Exception as ex:  # noqa: BLE001
            e = err(ex)
        steps.append({"obs": battery(lp, names, nsp, data, bool(c.get("defaults"))), "op_error": e})
    lp.reset_extra_live_points_parameters()
    return {"steps": steps}


SETTINGS = ("logl_dtype", "it_dtype", "it_default", "default_float_dtype", "default_float_value", "core_parameters")


def run_preset(c, lp, config, Model):
    """a NON-DEFAULT live-point configuration is set first; then a registry history.  After every operation:
    every non-extra setting is what it was, newly built arrays follow it, and an array built before the
    history is still readable by name and through the views."""
    cl = config.livepoints
    lp.reset_extra_live_points_parameters()
    saved = {k: getattr(cl, k) for k in SETTINGS}
    bad = []
    try:
        for k, v in c["preset"].items():
            setattr(cl, k, b2f(v["f"]) if isinstance(v, dict) else v)
        cl.reset_properties()

        def settings():
            out = {}
            for k in SETTINGS:
                v = getattr(cl, k)
                out[k] = f2b(v) if isinstance(v, float) else (list(v) if isinstance(v, list) else v)
            return out
        want = settings()
        names = list(c["names"])
        fdt, idt = np.dtype(cl.default_float_dtype), np.dtype(cl.it_dtype)
        data = np.array([[b2f(b) for b in row] for row in c["data"]], dtype=float)
        cast = data.astype(fdt)

        def same(a, b):
            a, b = np.asarray(a), np.asarray(b)
            return a.shape == b.shape and a.dtype == b.dtype and bool(np.all((a == b) | ((a != a) & (b != b))))

        class M(Model):
            def __init__(self, nm):
                self.names = nm
                self.bounds = {k: [-1.0, 1.0] for k in nm}

            def log_prior(self, x):
                return np.zeros(x.size)

            def log_likelihood(self, x):
                return np.zeros(x.size)
        A0 = lp.numpy_array_to_live_points(data, names)
        model = M(list(names))
        model.unstructured_view(A0)
        A0_bytes = A0.tobytes()

        def check(step, label):
            def no(what):
                bad.append({"step": step, "after": label, "what": what})
            got = settings()
            for k in SETTINGS:
                if got[k] != want[k]:
                    no(f"setting:{k}: {want[k]!r} became {got[k]!r}")
            # arrays built before stay readable by name and through both views
            if A0.tobytes() != A0_bytes:
                no("old-array:bytes changed")
            for nm_, fn in (("live_points_to_array", lambda: lp.live_points_to_array(A0, names)),
                            ("unstructured_view", lambda: lp.unstructured_view(A0, names)),
                            ("Model.unstructured_view", lambda: model.unstructured_view(A0))):
                try:
                    v = fn()
                    if not same(v, cast):
                        no(f"old-array:{nm_}: returned {np.asarray(v).tolist()} ({np.asarray(v).dtype}) expected {cast.tolist()} ({cast.dtype})")
                except Exception as ex:  # noqa: BLE001
                    no(f"old-array:{nm_}: raised {type(ex).__name__}: {ex}")
            # newly built arrays follow the configuration
            ex_names = list(cl.extra_parameters)
            for nm_, fn in (("numpy_array_to_live_points", lambda: lp.numpy_array_to_live_points(data, names)),
                            ("parameters_to_live_point", lambda: lp.parameters_to_live_point(list(data[0]), names)),
                            ("dict_to_live_points", lambda: lp.dict_to_live_points({k: data[0][j] for j, k in enumerate(names)})),
                            ("empty_structured_array", lambda: lp.empty_structured_array(1, names))):
                try:
                    x = fn()
                    if list(x.dtype.names) != names + list(want["core_parameters"]) + ex_names:
                        no(f"new-array:{nm_}: fields {x.dtype.names}")
                        continue
                    for k in names:
                        if x.dtype[k] != fdt:
                            no(f"new-array:{nm_}: parameter {k} stored as {x.dtype[k]} with default_float_dtype={fdt}")
                            break
                    if x.dtype["it"] != idt or x.dtype["logL"] != np.dtype(cl.logl_dtype):
                        no(f"new-array:{nm_}: it/logL stored as {x.dtype['it']}/{x.dtype['logL']}")
                    if int(x["it"][0]) != int(want["it_default"]):
                        no(f"new-array:{nm_}: it default {x['it'][0]} expected {want['it_default']}")
                    dfl = np.array(b2f(want["default_float_value"]), dtype=fdt)
                    if f2b(x["logP"][0]) != f2b(dfl):
                        no(f"new-array:{nm_}: logP default {x['logP'][0]!r} expected {dfl!r}")
                    if nm_ == "empty_structured_array" and f2b(x[names[0]][0]) != f2b(dfl):
                        no(f"new-array:{nm_}: parameter default {x[names[0]][0]!r} expected {dfl!r}")
                except Exception as ex:  # noqa: BLE001
                    no(f"new-array:{nm_}: raised {type(ex).__name__}: {ex}")
        check(-1, "preset")
        for k, op in enumerate(c["ops"]):
            try:
                do_hist([op], lp, config)
            except Exception as ex:  # noqa: BLE001
                bad.append({"step": k, "after": op["op"], "what": f"history: raised {type(ex).__name__}: {ex}"})
            check(k, op["op"])
    finally:
        for k, v in saved.items():
            setattr(cl, k, v)
        cl.reset()
    return {"bad": bad[:12]}


def main():
    logging.disable(logging.CRITICAL)
    cases = json.load(sys.stdin)
    from nessai import config
    from nessai import livepoint as lp
    from nessai.model import Model
    out = []
    for c in cases:
        if c["kind"] == "conv":
            out.append(run_conv(c, lp, config, Model))
        elif c["kind"] == "staged":
            out.append(run_staged(c, lp, config))
        elif c["kind"] == "preset":
            out.append(run_preset(c, lp, config, Model))
        else:
            out.append(run_hist(c, lp, config))
    json.dump(out, sys.stdout)


if __name__ == "__main__":
    main()
