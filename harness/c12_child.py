"""C12 child: real checkpoints of real runs, digests before pickling vs after FlowSampler(resume=True)
in a fresh (forked) process, and kill / resume chains with the kill placed at a likelihood call.

stdin : {"root": dir, "kwargs": {...}, "jobs": [job, ...]}
  job = {"id", "kind": "snapshots", "sampler": key, "select": {...}}      -> digests per selected checkpoint
      | {"id", "kind": "chain", "sampler": key, "kills": [n1, n2, ...]}   -> chain of killed processes, then finish
stdout: {"results": [...]}
"""
import datetime
import hashlib
import json
import os
import pickle
import shutil
import sys
import traceback

from c11_child import in_fork, digest_state

KILL_CODE = 78


# ---------------------------------------------------------------------------------------------
# digests
# ---------------------------------------------------------------------------------------------
def atom(v, depth=0):
    """Canonical text of a value (then hashed).  Never compares floats as decimal text."""
    import numpy as np
    import torch
    if v is None or isinstance(v, (bool, int, str)):
        return repr(v)
    if isinstance(v, float):
        return "f" + (v.hex() if v == v else "nan")
    if isinstance(v, np.generic):
        if isinstance(v, np.void):
            return "V" + str(v.dtype.descr) + v.tobytes().hex()
        if isinstance(v, np.floating):
            f = float(v)
            return "f" + (f.hex() if f == f else "nan")
        return repr(v.item())
    if isinstance(v, np.ndarray):
        return "A" + str(v.dtype.descr if v.dtype.names else v.dtype.str) + str(v.shape) + \
            hashlib.sha1(np.ascontiguousarray(v).tobytes()).hexdigest()
    if isinstance(v, np.dtype):
        return "D" + str(v.descr if v.names else v.str)
    if isinstance(v, (datetime.timedelta, datetime.datetime)):
        return repr(v)
    if isinstance(v, torch.nn.Module):
        return "M" + digest_state(v.state_dict())
    if isinstance(v, torch.Tensor):
        return "T" + hashlib.sha1(v.detach().cpu().contiguous().numpy().tobytes()).hexdigest()
    if isinstance(v, (torch.device, torch.dtype)):
        return str(v)
    if isinstance(v, dict):
        return "{" + ",".join(f"{atom(k)}:{atom(x, depth + 1)}" for k, x in sorted(v.items(), key=lambda kv: repr(kv[0]))) + "}"
    if isinstance(v, (list, tuple)) or type(v).__name__ == "deque":
        return "[" + ",".join(atom(x, depth + 1) for x in v) + "]"
    if isinstance(v, (set, frozenset)):
        return "S[" + ",".join(sorted(atom(x, depth + 1) for x in v)) + "]"
    if callable(v) and not hasattr(v, "__dict__"):
        return "<callable>"
    if type(v).__name__ in ("method", "function", "builtin_function_or_method", "partial"):
        return "<callable " + getattr(v, "__name__", "?") + ">"
    mod = type(v).__module__ or ""
    if hasattr(v, "__dict__") and depth < 6 and (mod.startswith("nessai") or mod.startswith("glasflow")):
        d = v.__dict__
        return type(v).__name__ + "{" + ",".join(f"{k}:{atom(d[k], depth + 1)}" for k in sorted(d)
                                                   if k not in ("model", "pool")) + "}"
    return "<" + type(v).__name__ + ">"


def h(v):
    return hashlib.sha1(atom(v).encode()).hexdigest()[:16]


def obj_fields(role, kind, o, skip=()):
    out = []
    for k in sorted(o.__dict__):
        if k in skip:
            continue
        try:
            out.append({"role": role, "kind": kind, "field": k, "digest": h(o.__dict__[k])})
        except Exception as e:
            out.append({"role": role, "kind": kind, "field": k, "digest": "ERR" + type(e).__name__})
    return out


def digest_tree(ns):
    """Every attribute of the sampler, its proposals, flow model(s), sample stores and state."""
    out = []
    ins = hasattr(ns, "training_samples")
    if not ins:
        sub = ("_flow_proposal", "_uninformed_proposal", "state", "proposal", "model")
        out += obj_fields("ns", "sampler", ns, skip=sub)
        out.append({"role": "ns", "kind": "sampler", "field": "proposal",
                    "digest": type(getattr(ns, "proposal", None)).__name__})
        out += obj_fields("ns.state", "plain", ns.state)
        fp = ns._flow_proposal
        out += obj_fields("ns._flow_proposal", "proposal", fp, skip=("model", "flow"))
        flow = getattr(fp, "flow", None)
        if flow is not None:
            wf = getattr(flow, "weights_file", None)
            # the weights matter only once they exist on disk (before the first training the flow is
            # a fresh random initialisation in every process)
            out.append({"role": "ns._flow_proposal.flow", "kind": "plain", "field": "weights",
                        "digest": digest_state(flow.model.state_dict()) if wf and flow.model is not None else "untrained"})
        out += obj_fields("ns._uninformed_proposal", "proposal", ns._uninformed_proposal, skip=("model",))
    else:
        sub = ("proposal", "training_samples", "iid_samples", "state", "model")
        out += obj_fields("ns", "ins_sampler", ns, skip=sub)
        out += obj_fields("ns.state", "plain", ns.state)
        out += obj_fields("ns.proposal", "ins_proposal", ns.proposal, skip=("model", "flow"))
        flow = ns.proposal.flow
        out += obj_fields("ns.proposal.flow", "flowmodel", flow)
        out.append({"role": "ns.proposal.flow", "kind": "plain", "field": "weights",
                    "digest": h([digest_state(m.state_dict()) for m in (flow.models or [])])})
        for nm in ("training_samples", "iid_samples"):
            s = getattr(ns, nm, None)
            if s is not None and hasattr(s, "__dict__"):
                out += obj_fields("ns." + nm, "samples", s, skip=("state",))
                out += obj_fields(f"ns.{nm}.state", "plain", s.state)
            else:
                out.append({"role": "ns", "kind": "ins_sampler", "field": nm, "digest": h(s)})
    return out


def probe_arrays(ns):
    """What the flow proposal DOES with fixed points: rescaling, its Jacobian, latent points and log q.  Computed by
    the writer when it checkpoints and again by the resumed sampler; a restored reparameterisation / flow that
    differs shows here even if no attribute digest is looked at."""
    import numpy as np
    out = {}
    fp = getattr(ns, "_flow_proposal", None)
    try:
        if fp is None or not getattr(fp, "rescaling_set", False) or not getattr(fp, "training_count", 0) \
                or getattr(fp, "flow", None) is None or getattr(fp.flow, "weights_file", None) is None \
                or ns.live_points is None or hasattr(fp, "augment_dims"):
            # (the augmented proposal draws its augment parameters at random inside rescale: not a function)
            return out
        pts = ns.live_points[:8].copy()
        xp, lj = fp.rescale(pts)
        names = [n for n in xp.dtype.names if n not in ("logP", "logL", "it")]
        out["probe:rescale"] = np.array([[float(r[n]) for n in names] for r in xp])
        out["probe:log_j"] = np.asarray(lj, dtype=float)
        z, lq = fp.forward_pass(pts, rescale=True, compute_radius=False)
        out["probe:z"] = np.asarray(z, dtype=float)
        out["probe:log_q"] = np.asarray(lq, dtype=float)
    except Exception as e:
        out["probe:error"] = np.array([hash(type(e).__name__) % 1000], dtype=float)
    return out


def derived_arrays(ns):
    """Arrays that resume may recompute instead of restoring (compared to float32 accuracy)."""
    out = {}
    if hasattr(ns, "training_samples"):
        for nm in ("training_samples", "iid_samples"):
            s = getattr(ns, nm, None)
            lq = getattr(s, "log_q", None)
            if lq is not None:
                out[f"ns.{nm}:log_q"] = lq
    return out


# ---------------------------------------------------------------------------------------------
# real nessai
# ---------------------------------------------------------------------------------------------
class Calls:
    n = 0            # points sent through the model's counted evaluation entry points in THIS process
    kill_at = None
    signal_at = None  # send SIGTERM to this process at that call (nessai's handler checkpoints and exits)


def _maybe_signal():
    if Calls.signal_at is not None and Calls.n >= Calls.signal_at:
        import signal
        Calls.signal_at = None
        os.kill(os.getpid(), signal.SIGTERM)      # handled by FlowSampler.safe_exit: checkpoint, then sys.exit


def make_model():
    import numpy as np
    from nessai.model import Model

    class Gauss(Model):
        names = ["x", "y"]
        bounds = {"x": [-5.0, 5.0], "y": [-5.0, 5.0]}

        def log_prior(self, x):
            return np.log(self.in_bounds(x), dtype="float") - np.log(100.0)

        def log_likelihood(self, x):
            return -0.5 * (x["x"] ** 2 + x["y"] ** 2)

        def to_unit_hypercube(self, x):
            y = x.copy()
            for n in self.names:
                y[n] = (x[n] + 5.0) / 10.0
            return y

        def from_unit_hypercube(self, x):
            y = x.copy()
            for n in self.names:
                y[n] = x[n] * 10.0 - 5.0
            return y

        # the counted entry points: count what this process really evaluates, kill at the chosen call
        def evaluate_log_likelihood(self, x):
            Calls.n += 1
            if Calls.kill_at is not None and Calls.n >= Calls.kill_at:
                os._exit(KILL_CODE)
            _maybe_signal()
            return super().evaluate_log_likelihood(x)

        def batch_evaluate_log_likelihood(self, x, **kw):
            Calls.n += int(x.size)
            if Calls.kill_at is not None and Calls.n >= Calls.kill_at:
                os._exit(KILL_CODE)
            _maybe_signal()
            return super().batch_evaluate_log_likelihood(x, **kw)

    return Gauss()


def make_sampler(root, kwargs, model=None):
    from nessai.flowsampler import FlowSampler
    return FlowSampler(model or make_model(), output=root, resume=True, **kwargs)


def meta_of(ns):
    import time as _time
    m = {"iteration": int(ns.iteration), "model_count": int(ns.model.likelihood_evaluations), "calls": Calls.n,
         "ins": hasattr(ns, "training_samples"),
         # timing accounting: what the sampler believes it has spent so far, and the wall clock since this
         # process entered run()
         "sampling_time": float(ns.sampling_time.total_seconds()),
         "wall_in_run": (_time.time() - Calls.t_run) if getattr(Calls, "t_run", None) else 0.0}
    fp = getattr(ns, "_flow_proposal", None)
    if fp is not None:
        m.update(uninformed=bool(ns.uninformed_sampling), populated=bool(fp.populated),
                 populating=bool(getattr(fp, "populating", False)),
                 pool=len(fp.indices or []), training_count=int(fp.training_count),
                 proposal=type(ns.proposal).__name__)
    else:
        m.update(levels=int(ns.proposal.flow.n_models), n_samples=int(len(ns.training_samples.samples)))
    return m


def install_hook(root, snapdir, logpath, keep_snapshots, stop_after_first=False):
    """Wrap safe_file_dump as imported by nessai.samplers.base: digest the sampler right before it
    is pickled, then let the real function write, then keep a copy of the directory."""
    import nessai.samplers.base as base
    real = base.safe_file_dump
    state = {"n": 0}

    def hooked(data, filename, module, save_existing=False):
        n = state["n"]
        state["n"] += 1
        rec = {"n": n, "meta": meta_of(data)}
        if keep_snapshots:
            rec["digest"] = digest_tree(data)
            import numpy as np
            arrs = derived_arrays(data)
            arrs.update(probe_arrays(data))
        real(data, filename, module, save_existing=save_existing)
        if keep_snapshots:
            d = os.path.join(snapdir, str(n))
            shutil.copytree(root, d)
            if arrs:
                np.savez(os.path.join(snapdir, f"{n}.npz"), **arrs)
            with open(os.path.join(snapdir, f"{n}.json"), "w") as fh:
                json.dump(rec, fh)
        with open(logpath, "a") as fh:
            fh.write(json.dumps({"n": n, "meta": rec["meta"]}) + "\n")
        if stop_after_first:
            # only the first checkpoint a RESUMED sampler writes is wanted: stop like a kill right after it
            os._exit(0)
    base.safe_file_dump = hooked


def run_phase(root, kwargs, snapdir, logpath, keep, kill_at=None, pre_evals=0, set_max=None, stop_after_first=False,
              signal_at=None):
    """Fork body: (resume or start) and run the sampler to the end (or to the kill)."""
    def body(emit):
        model = make_model()
        if pre_evals:
            # the user's process may evaluate the likelihood before resuming: these calls are counted too
            model.batch_evaluate_log_likelihood(model.new_point(pre_evals))
        m0 = Calls.n
        fs = make_sampler(root, kwargs, model)
        emit({"resumed": bool(getattr(fs.ns, "resumed", False)), "iteration": int(fs.ns.iteration),
              "m0": m0, "model_count_after_resume": int(fs.ns.model.likelihood_evaluations),
              "sampling_time": float(fs.ns.sampling_time.total_seconds())})
        install_hook(root, snapdir, logpath, keep, stop_after_first)
        Calls.kill_at = kill_at
        Calls.signal_at = signal_at
        if set_max is not None:
            fs.ns.max_iteration = set_max
        import time as _time
        Calls.t_run = _time.time()
        fs.run(plot=False, save=False)
        ns = fs.ns
        res = {"finished": True, "meta": meta_of(ns), "calls": Calls.n}
        res["invariants"] = invariants(fs)
        emit(res)
    return body


def invariants(fs):
    """Count / sortedness facts of a finished run (the same for an uninterrupted run)."""
    import numpy as np
    ns = fs.ns
    out = {}
    if hasattr(ns, "training_samples"):
        s = ns.training_samples.samples
        out["sorted"] = bool(np.all(np.diff(s["logL"]) >= 0))
        out["n_samples"] = int(len(s))
        out["log_q_shape"] = list(ns.training_samples.log_q.shape) if ns.training_samples.log_q is not None else None
        out["n_models"] = int(ns.proposal.flow.n_models)
        out["counts_total"] = int(sum(ns.sample_counts.values())) if isinstance(ns.sample_counts, dict) else None
        pts = np.stack([s[n] for n in ns.model.names], axis=1)
        out["n_distinct"] = int(len(np.unique(pts, axis=0)))
        out["state_n"] = int(ns.state._n) if hasattr(ns.state, "_n") else None
        out["finite_logZ"] = bool(np.isfinite(ns.log_evidence))
        out["iteration"] = int(ns.iteration)
        out["history_len"] = {k: len(v) for k, v in ns.history.items() if isinstance(v, list)}
    else:
        nsamp = np.array(ns.nested_samples)
        out["sorted"] = bool(np.all(np.diff(nsamp["logL"]) >= 0)) if len(nsamp) > 1 else True
        out["iteration"] = int(ns.iteration)
        out["finalised"] = bool(ns.finalised)
        out["n_nested"] = int(len(nsamp))
        # every accepted point was drawn once: nested samples and live points are pairwise distinct
        allp = [nsamp] + ([ns.live_points] if ns.live_points is not None else [])
        pts = np.concatenate([np.stack([a[n] for n in ns.model.names], axis=1) for a in allp if len(a)], axis=0)
        out["n_points"] = int(len(pts))
        out["n_distinct"] = int(len(np.unique(pts, axis=0)))
        out["strictly_increasing"] = bool(np.all(np.diff(nsamp["logL"]) > 0)) if len(nsamp) > 1 else True
        out["n_insertion"] = int(len(ns.insertion_indices))
        out["n_logLs"] = int(len(ns.state.logLs))
        out["n_live"] = int(len(ns.live_points)) if ns.live_points is not None else 0
        out["live_sorted"] = bool(np.all(np.diff(ns.live_points["logL"]) >= 0)) if ns.live_points is not None else True
        out["live_above"] = bool(ns.live_points is None or len(nsamp) == 0
                                 or ns.live_points["logL"].min() >= nsamp["logL"].max())
        out["finite_logZ"] = bool(np.isfinite(ns.state.logZ))
        out["history_iterations"] = len(ns.history.get("iterations", []))
    out["total_evals"] = int(ns.model.likelihood_evaluations)
    return out


def resume_digest_phase(root, kwargs, snapdir, n):
    def body(emit):
        import numpy as np
        try:
            fs = make_sampler(root, kwargs)
        except BaseException as e:
            emit({"resume_error": type(e).__name__, "msg": str(e)[:300], "tb": traceback.format_exc()[-800:]})
            return
        ns = fs.ns
        if not getattr(ns, "resumed", False):
            emit({"resume_error": "NotResumed", "msg": "FlowSampler(resume=True) built a new sampler"})
            return
        first = digest_tree(ns)
        if hasattr(ns, "_flow_proposal"):
            # what FlowSampler.run does before the first new iteration
            try:
                ns.initialise()
                ns.check_resume()
            except BaseException as e:
                emit({"resume_error": type(e).__name__, "msg": "initialise/check_resume: " + str(e)[:300]})
                return
        ready = digest_tree(ns)
        close = {}
        p = os.path.join(snapdir, f"{n}.npz")
        if os.path.exists(p):
            ref = np.load(p)
            now = derived_arrays(ns)
            now.update(probe_arrays(ns))
            for k in ref.files:
                a, b = ref[k], now.get(k)
                ok = b is not None and a.shape == b.shape and bool(
                    np.allclose(np.where(np.isfinite(a), a, 0), np.where(np.isfinite(b), b, 0), rtol=1e-4, atol=1e-4)
                    and np.array_equal(np.isfinite(a), np.isfinite(b)))
                close[k] = {"close": ok, "max_abs": float(np.nanmax(np.abs(np.where(np.isfinite(a) & np.isfinite(b), a - b, 0))))
                            if b is not None and a.shape == b.shape and a.size else None, "rows": int(a.shape[0])}
                if b is not None and a.shape == b.shape and not ok:
                    cl = np.isclose(np.where(np.isfinite(a), a, 0), np.where(np.isfinite(b), b, 0), rtol=1e-4, atol=1e-4)
                    rows = np.where(~(cl.all(axis=1) if cl.ndim > 1 else cl))[0]
                    close[k]["bad_rows"] = [int(rows.min()), int(rows.max()), int(rows.size)] if rows.size else None
            # an independent evaluation of the density table: flow by flow, in chunks of 3001 rows, through
            # log_prob_ith (not the code path resume uses)
            if hasattr(ns, "training_samples"):
                for nm in ("training_samples", "iid_samples"):
                    st = getattr(ns, nm, None)
                    if st is None or getattr(st, "log_q", None) is None or not len(st.samples):
                        continue
                    try:
                        x, log_j = ns.proposal.rescale(st.samples)
                        flow = ns.proposal.flow
                        ind = np.zeros((x.shape[0], flow.n_models + 1))
                        for i in range(flow.n_models):
                            for a0 in range(0, x.shape[0], 3001):
                                ind[a0:a0 + 3001, i + 1] = flow.log_prob_ith(x[a0:a0 + 3001], i) + log_j[a0:a0 + 3001]
                        b = st.log_q
                        okk = b.shape == ind.shape and bool(
                            np.allclose(np.where(np.isfinite(ind), ind, 0), np.where(np.isfinite(b), b, 0), rtol=1e-4, atol=1e-4))
                        close.setdefault(f"ns.{nm}:log_q", {})["independent_close"] = okk
                    except Exception as e:
                        close.setdefault(f"ns.{nm}:log_q", {})["independent_error"] = f"{type(e).__name__}: {e}"[:200]
        emit({"after_construct": first, "ready": ready, "derived": close, "meta": meta_of(ns)})
    return body


def first(msgs, key):
    for m in msgs:
        if key in m:
            return m
    return None


def restore(root, snap):
    shutil.rmtree(root, ignore_errors=True)
    shutil.copytree(snap, root)


def choose(metas, select):
    """Indices of the checkpoints to resume from: one per category, plus every `stride`-th."""
    if select.get("only") is not None:
        return [n for n in select["only"] if n < len(metas)]
    chosen = []
    def add(pred):
        for m in metas:
            if pred(m["meta"]) and m["n"] not in chosen:
                chosen.append(m["n"])
                return
    if metas and not metas[0]["meta"]["ins"]:
        add(lambda m: m["uninformed"])                                        # first checkpoint, uninformed
        add(lambda m: m["uninformed"] and m["iteration"] >= 20)
        add(lambda m: not m["uninformed"] and m["training_count"] >= 1)       # first flow-phase checkpoint
        add(lambda m: not m["uninformed"] and m["populated"] and m["pool"] > 0)   # populated pool
        add(lambda m: not m["uninformed"] and m["training_count"] >= 1 and not m["populated"])   # empty pool
        add(lambda m: not m["uninformed"] and m["training_count"] >= 2)       # after a later training
        add(lambda m: not m["uninformed"] and m["training_count"] >= 2 and m["populated"] and m["pool"] > 0)
    else:
        for m in metas[: select.get("first", 2)]:
            chosen.append(m["n"])
    if metas and metas[-1]["n"] not in chosen:
        chosen.append(metas[-1]["n"])
    stride = select.get("stride")
    if stride:
        for m in metas[::stride]:
            if m["n"] not in chosen:
                chosen.append(m["n"])
    return sorted(chosen[: select.get("max", 1000)])


def job_snapshots(work, kwargs, job, timeout):
    root = os.path.join(work, "run")
    snapdir = os.path.join(work, "snaps")
    shutil.rmtree(root, ignore_errors=True)
    shutil.rmtree(snapdir, ignore_errors=True)
    os.makedirs(snapdir)
    logpath = os.path.join(work, "log.jsonl")
    open(logpath, "w").close()
    st, msgs = in_fork(run_phase(root, kwargs, snapdir, logpath, True, signal_at=job.get("signal_at")), timeout)
    fin = first(msgs, "finished")
    metas = [json.loads(l) for l in open(logpath)]
    if fin is None and not (job.get("signal_at") and metas):
        return {"id": job["id"], "error": f"base run failed (status {st}): " + json.dumps(msgs)[-1500:]}
    out = {"id": job["id"], "kind": "snapshots", "n_checkpoints": len(metas), "final": fin, "cases": [],
           "signal_at": job.get("signal_at"), "exit_status": st}
    picks = [metas[-1]["n"]] if job.get("signal_at") else choose(metas, job.get("select", {}))
    if job.get("select", {}).get("only") is not None:
        picks = choose(metas, job["select"])
    for n in picks:
        rec = json.load(open(os.path.join(snapdir, f"{n}.json")))
        restore(root, os.path.join(snapdir, str(n)))
        st2, m2 = in_fork(resume_digest_phase(root, kwargs, snapdir, n), timeout)
        r = first(m2, "ready") or first(m2, "resume_error") or {"resume_error": "HarnessTimeoutOrCrash", "msg": json.dumps(m2)[-300:]}
        out["cases"].append({"n": n, "meta": rec["meta"], "before": rec["digest"], "after": r})
    return out


def job_regen(work, kwargs, job, timeout):
    """Second-generation checkpoints: run, pick checkpoints C1 (flow phase, populated pool), resume from C1 in
    a fresh process R2 and let it run until it has written its first checkpoint C2 (at loop entry when the
    periodic condition is met there), then resume from C2 in a third process R3."""
    root = os.path.join(work, "run")
    snapdir = os.path.join(work, "snaps")
    snap2 = os.path.join(work, "snaps2")
    for d in (root, snapdir, snap2):
        shutil.rmtree(d, ignore_errors=True)
    os.makedirs(snapdir)
    logpath = os.path.join(work, "log.jsonl")
    open(logpath, "w").close()
    st, msgs = in_fork(run_phase(root, kwargs, snapdir, logpath, True), timeout)
    if first(msgs, "finished") is None:
        return {"id": job["id"], "error": f"base run failed (status {st}): " + json.dumps(msgs)[-1500:]}
    metas = [json.loads(l) for l in open(logpath)]
    sel = job.get("select", {})
    if sel.get("only") is not None:
        picks = [n for n in sel["only"] if n < len(metas)]
    else:
        mod = sel.get("not_multiple_of", 5)
        flow = [m["n"] for m in metas if not m["meta"]["uninformed"] and m["meta"]["populated"] and m["meta"]["pool"] > 0
                and m["meta"]["iteration"] % mod]
        uninf = [m["n"] for m in metas if m["meta"]["uninformed"] and m["meta"]["iteration"] % mod and m["meta"]["iteration"] > 10]
        k = sel.get("max", 2)
        step = max(1, len(flow) // max(1, k))
        picks = flow[::step][:k] + uninf[:1]
    out = {"id": job["id"], "kind": "regen", "n_checkpoints": len(metas), "cases": []}
    for n in picks:
        rec1 = json.load(open(os.path.join(snapdir, f"{n}.json")))
        restore(root, os.path.join(snapdir, str(n)))
        shutil.rmtree(snap2, ignore_errors=True)
        os.makedirs(snap2)
        log2 = os.path.join(work, "log2.jsonl")
        open(log2, "w").close()
        st2, m2 = in_fork(run_phase(root, kwargs, snap2, log2, True, stop_after_first=True), timeout)
        case = {"n": n, "meta1": rec1["meta"], "gen1": rec1["digest"], "start2": first(m2, "resumed")}
        err = first(m2, "harness_error")
        p2 = os.path.join(snap2, "0.json")
        if not os.path.exists(p2):
            case["gen2_error"] = (err or {}).get("harness_error", f"the resumed process wrote no checkpoint (status {st2})")[-600:]
            out["cases"].append(case)
            continue
        rec2 = json.load(open(p2))
        case.update(meta2=rec2["meta"], gen2=rec2["digest"])
        restore(root, os.path.join(snap2, "0"))
        st3, m3 = in_fork(resume_digest_phase(root, kwargs, snap2, 0), timeout)
        case["after2"] = first(m3, "ready") or first(m3, "resume_error") or {"resume_error": "HarnessTimeoutOrCrash",
                                                                             "msg": json.dumps(m3)[-300:]}
        out["cases"].append(case)
    return out


def job_chain(work, kwargs, job, timeout):
    root = os.path.join(work, "run")
    snapdir = os.path.join(work, "snaps")
    shutil.rmtree(root, ignore_errors=True)
    shutil.rmtree(snapdir, ignore_errors=True)
    os.makedirs(snapdir)
    out = {"id": job["id"], "kind": "chain", "job": job, "procs": []}
    kills = list(job["kills"]) + [None]
    for i, k in enumerate(kills):
        logpath = os.path.join(work, f"log_{i}.jsonl")
        open(logpath, "w").close()
        st, msgs = in_fork(run_phase(root, kwargs, snapdir, logpath, False, kill_at=k,
                                     pre_evals=job.get("pre_evals", 0) if i else 0,
                                     set_max=job.get("set_max")), timeout)
        proc = {"status": st, "kill_at": k, "start": first(msgs, "resumed"), "end": first(msgs, "finished"),
                "checkpoints": [json.loads(l) for l in open(logpath)]}
        err = first(msgs, "harness_error")
        if err:
            proc["error"] = err["harness_error"]
        out["procs"].append(proc)
        if st not in (KILL_CODE, 0) or (k is None and proc["end"] is None):
            break
    return out


def main():
    job = json.load(sys.stdin)
    import logging
    logging.disable(logging.CRITICAL)
    import numpy as np  # noqa: F401
    import torch
    torch.set_num_threads(1)
    import nessai.flowsampler  # noqa: F401
    import nessai.samplers.importancesampler  # noqa: F401
    work = job["root"]
    os.makedirs(work, exist_ok=True)
    results = []
    for j in job["jobs"]:
        kw = job["kwargs"][j["sampler"]]
        try:
            if j["kind"] == "snapshots":
                results.append(job_snapshots(work, kw, j, job.get("timeout", 300)))
            elif j["kind"] == "regen":
                results.append(job_regen(work, kw, j, job.get("timeout", 300)))
            else:
                results.append(job_chain(work, kw, j, job.get("timeout", 300)))
        except Exception:
            results.append({"id": j["id"], "error": traceback.format_exc()[-2000:]})
    shutil.rmtree(work, ignore_errors=True)
    json.dump({"results": results}, sys.stdout)


if __name__ == "__main__":
    main()
