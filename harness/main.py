"""Entry point: ./check <ID> [--tier quick|thorough] [--replay file]"""
import argparse
import importlib
import json
import os
import sys

import common


def main():
    ap = argparse.ArgumentParser()
    ap.add_argument("pid")
    ap.add_argument("--tier", default=os.environ.get("VERIF_TIER", "quick"), choices=["quick", "thorough"])
    ap.add_argument("--replay", default=None)
    a = ap.parse_args()
    seed = int(os.environ.get("VERIF_SEED", "0") or 0)
    mod = importlib.import_module(a.pid.lower())
    if a.replay:
        data = json.load(open(a.replay))
        rc = mod.replay(data)
        sys.exit(rc)
    chk = common.Check(a.pid, a.tier, seed)
    try:
        mod.run(chk)
    except Exception as e:  # a crash of the harness is reported, never silently passed
        import traceback
        chk.oblige("harness ran to completion", "harness", False, traceback.format_exc())
    sys.exit(chk.finish())


if __name__ == "__main__":
    main()
