"""C19: saved results (JSON / HDF5) and config.json read back equal to the in-memory values."""
import json
import os
import struct
import subprocess
import sys
from concurrent.futures import ThreadPoolExecutor

import common
from common import cL, cStr

sys.path.insert(0, common.VERIF + "/translator")

PID = "C19"
NAN = 0x7FF8000000000000
KEYS = ["log_evidence", "log_evidence_error", "history", "nested_samples", "seed", "logZ", "x", "a_b", "k2",
        "stopping_criteria", "été", "β", "posterior_samples", "truth", "n", "time", "UPPER", "with space", "a.b",
        "very_long_key_name_0123456789_abcdefghijklmnopqrstuvwxyz"]
STRS = ["", "hello", "0.1.dev1+gb3af0f19a", "μ-σ", "line1\nline2", 'quote"d', "None", "nan", "a/b", " "]


def fbits(x):
    x = float(x)
    if x != x:
        return NAN
    return struct.unpack("<Q", struct.pack("<d", x))[0]


SPECIAL = [float("nan"), float("inf"), float("-inf"), 0.0, -0.0, 1.7976931348623157e308, -1.7976931348623157e308,
           2.2250738585072014e-308, 5e-324, 1.0, -1.0, 9007199254740993.0, 1e-300, 0.1, 3.141592653589793, 2.5]


def g_fbits(rng):
    r = rng.random()
    if r < 0.5:
        return fbits(rng.choice(SPECIAL))
    if r < 0.8:
        return fbits(rng.gauss(0, 1))
    return fbits(rng.uniform(-1, 1) * 10.0 ** rng.randint(-300, 300))


def g_int(rng):
    return rng.choice([0, 1, -1, 7, 2 ** 31, -2 ** 31 - 1, 2 ** 53, 2 ** 53 + 1, 2 ** 62, -2 ** 63, rng.randint(-1000, 1000)])


def g_scalar(rng, kinds=None):
    k = rng.choice(kinds or ["none", "bool", "int", "float", "npfloat64", "str", "npint", "npfloat"])
    if k == "none":
        return {"t": "none"}
    if k == "bool":
        return {"t": "bool", "v": rng.random() < 0.5}
    if k == "int":
        return {"t": "int", "v": str(g_int(rng))}
    if k == "float":
        return {"t": "float", "b": g_fbits(rng)}
    if k == "npfloat64":
        return {"t": "npfloat64", "b": g_fbits(rng)}
    if k == "str":
        return {"t": "str", "v": rng.choice(STRS)}
    if k == "npint":
        w = rng.choice(["int64", "int32", "uint8", "int16"])
        lo, hi = {"int64": (-2 ** 63, 2 ** 63 - 1), "int32": (-2 ** 31, 2 ** 31 - 1), "uint8": (0, 255),
                  "int16": (-2 ** 15, 2 ** 15 - 1)}[w]
        return {"t": "np", "k": "i", "w": w, "b": str(rng.choice([lo, hi, 0, 1, rng.randint(max(lo, -99), min(hi, 99))]))}
    if k == "npfloat":
        return {"t": "np", "k": "f", "w": rng.choice(["float32", "longdouble", "float16"]), "b": g_fbits(rng)}
    if k == "npbool":
        return {"t": "np", "k": "b", "w": "bool", "b": int(rng.random() < 0.5)}
    raise ValueError(k)


def g_arr(rng):
    shape = rng.choice([[0], [1], [2], [3], [5], [2, 3], [3, 1], [0, 2], [], [2, 2, 2]])
    n = 1
    for s in shape:
        n *= s
    k = rng.choice(["f", "f", "f", "i", "b"])
    if k == "f":
        return {"t": "arr", "shape": shape, "k": "f", "dt": rng.choice(["float64", "float64", "float32"]),
                "data": [fbits(rng.choice([0.5, -2.0, 1.0, float("nan"), float("inf"), -0.0, 0.25])) for _ in range(n)]}
    if k == "i":
        dt = rng.choice(["int64", "int32", "uint8"])
        return {"t": "arr", "shape": shape, "k": "i", "dt": dt,
                "data": [str(rng.randint(0, 200)) for _ in range(n)]}
    return {"t": "arr", "shape": shape, "k": "b", "dt": "bool", "data": [int(rng.random() < 0.5) for _ in range(n)]}


def g_struct(rng):
    names = rng.sample(["x", "y", "mass_1", "α"], rng.randint(1, 3)) + ["logP", "logL", "it"]
    fields = [[n, "i" if n == "it" else "f"] for n in names]
    if rng.random() < 0.4:
        fields += [["logW", "f"], ["logQ", "f"]]
    n = rng.choice([0, 1, 2, 4])
    rows = [[(str(rng.randint(-3, 50)) if k == "i" else g_fbits(rng)) for _, k in fields] for _ in range(n)]
    return {"t": "struct", "fields": fields, "rows": rows}


def g_same_kind_list(rng):
    n = rng.choice([0, 1, 2, 3, 6])
    kind = rng.choice(["float", "npfloat64", "floatmix", "int", "npint64", "bool", "longdouble"])
    out = []
    for _ in range(n):
        if kind == "float":
            out.append({"t": "float", "b": g_fbits(rng)})
        elif kind == "npfloat64":
            out.append({"t": "npfloat64", "b": g_fbits(rng)})
        elif kind == "floatmix":
            out.append({"t": rng.choice(["float", "npfloat64"]), "b": g_fbits(rng)})
        elif kind == "int":
            out.append({"t": "int", "v": str(rng.randint(-100, 10 ** 6))})
        elif kind == "npint64":
            out.append({"t": "np", "k": "i", "w": "int64", "b": str(rng.randint(-100, 10 ** 6))})
        elif kind == "longdouble":
            out.append({"t": "np", "k": "f", "w": "longdouble", "b": g_fbits(rng)})
        else:
            out.append({"t": "bool", "v": rng.random() < 0.5})
    return {"t": rng.choice(["list", "list", "tuple"]), "v": out}


def g_result_value(rng, depth):
    r = rng.random()
    if r < 0.35:
        return g_scalar(rng)
    if r < 0.5:
        return g_arr(rng)
    if r < 0.6:
        return g_struct(rng)
    if r < 0.8:
        return g_same_kind_list(rng)
    if r < 0.85:   # list of equal-shape float arrays / lists -> 2-d
        m = rng.choice([1, 2, 3])
        if rng.random() < 0.5:
            return {"t": "list", "v": [{"t": "arr", "shape": [m], "k": "f", "dt": "float64",
                                         "data": [g_fbits(rng) for _ in range(m)]} for _ in range(rng.choice([1, 2]))]}
        return {"t": "list", "v": [{"t": "list", "v": [{"t": "float", "b": g_fbits(rng)} for _ in range(m)]}
                                   for _ in range(rng.choice([1, 2, 3]))]}
    if depth > 0:
        return g_result_dict(rng, depth - 1)
    return g_scalar(rng)


def g_result_dict(rng, depth, lo=1, hi=5):
    keys = [k for k in rng.sample(KEYS, rng.randint(lo, hi)) if "/" not in k]
    return {"t": "dict", "v": [[k, g_result_value(rng, depth)] for k in keys]}


OPAQUE_KINDS = ["class", "nessai_class", "function", "lambda", "pool", "timedelta", "set", "complex", "bytes", "dtype",
                "module"]


def g_json_value(rng, depth):
    """anything JSON has to cope with, including what HDF5 cannot hold"""
    r = rng.random()
    if r < 0.25:
        return g_result_value(rng, 0)
    if r < 0.4:   # h5py can store complex numbers and bytes: they are opaque for JSON only (config stream)
        return {"t": "opaque", "kind": rng.choice([k for k in OPAQUE_KINDS if k not in ("complex", "bytes")])}
    if r < 0.5:
        return {"t": "dict", "v": []}
    if r < 0.6:
        return {"t": "int", "v": str(rng.choice([2 ** 70, -2 ** 64, 10 ** 30]))}
    if r < 0.7:
        return {"t": "str", "v": "__none__"}
    if depth > 0:
        n = rng.randint(0, 3)
        kind = rng.choice(["list", "tuple", "dict"])
        if kind == "dict":
            return {"t": "dict", "v": [[k, g_json_value(rng, depth - 1)] for k in rng.sample(KEYS, n)]}
        return {"t": kind, "v": [g_json_value(rng, depth - 1) for _ in range(n)]}
    return g_scalar(rng, ["none", "bool", "int", "float", "str", "npint", "npfloat", "npfloat64"])


def has_np_bool(t):
    if t["t"] == "np" and t["k"] == "b":
        return True
    if t["t"] in ("list", "tuple"):
        return any(has_np_bool(x) for x in t["v"])
    if t["t"] == "dict":
        return any(has_np_bool(x) for _, x in t["v"])
    return False


def gen_cases(chk):
    rng = chk.rng
    quick = chk.tier == "quick"
    cases = []
    import glob
    for path in sorted(glob.glob(os.path.join(common.VERIF, "corpus", PID, "*.json"))):
        cases.append(json.load(open(path))["replay"]["case"])
    # hand-written boundary trees
    f = lambda x: {"t": "float", "b": fbits(x)}  # noqa: E731
    hand = [
        {"t": "dict", "v": [["log_evidence", {"t": "npfloat64", "b": fbits(float("nan"))}], ["bootstrap", {"t": "none"}],
                            ["history", {"t": "dict", "v": [["empty", {"t": "list", "v": []}],
                                                            ["deep", {"t": "dict", "v": [["deeper", {"t": "dict", "v": [["x", f(-0.0)]]}]]}]]}]]},
        {"t": "dict", "v": [["ld", {"t": "list", "v": [{"t": "np", "k": "f", "w": "longdouble", "b": fbits(1 / 3)}]}],
                            ["f32", {"t": "np", "k": "f", "w": "float32", "b": fbits(0.1)}],
                            ["inf", f(float("inf"))], ["ninf", f(float("-inf"))]]},
    ]
    for t in hand:
        cases.append({"tree": t, "fmt": ["json", "h5"], "expect": {"json": "same", "h5": "same"}, "stream": "hand"})
    n_res, n_json, n_cfg, n_mixed = (70, 50, 25, 15) if quick else (700, 400, 150, 100)
    for _ in range(n_res):
        t = g_result_dict(rng, rng.choice([0, 1, 2, 3]))
        cases.append({"tree": t, "fmt": ["json", "h5"], "expect": {"json": "same", "h5": "same"}, "stream": "result-like"})
    for _ in range(n_mixed):   # lists mixing bool / int / float: HDF5 stores them under numpy's promotion
        n = rng.randint(1, 4)
        xs = [g_scalar(rng, ["bool", "int", "float", "npint", "npfloat64"]) for _ in range(n)]
        for x in xs:   # keep integers exactly representable as float64
            if x["t"] == "int":
                x["v"] = str(rng.randint(-2 ** 20, 2 ** 20))
            if x["t"] == "np" and x["k"] == "i":
                x["w"], x["b"] = "int64", str(rng.randint(-2 ** 20, 2 ** 20))
        cases.append({"tree": {"t": "dict", "v": [["mixed", {"t": "list", "v": xs}]]}, "fmt": ["json", "h5"],
                      "expect": {"json": "same", "h5": "same"}, "stream": "mixed-numeric-list"})
    for _ in range(n_json):
        t = {"t": "dict", "v": [[k, g_json_value(rng, 3)] for k in rng.sample(KEYS, rng.randint(1, 4))]}
        cases.append({"tree": t, "fmt": ["json", "h5"], "expect": {"json": "same", "h5": None}, "stream": "json-general"})
    for _ in range(n_cfg):      # keyword-argument dictionaries with non-serialisable values
        vals = []
        for k in rng.sample(KEYS, rng.randint(1, 5)):
            r = rng.random()
            if r < 0.5:
                v = {"t": "opaque", "kind": rng.choice(OPAQUE_KINDS)}
            elif r < 0.6:
                v = g_scalar(rng, ["npbool"])
            elif r < 0.8:
                v = g_json_value(rng, 2)
            else:
                v = {"t": rng.choice(["list", "tuple"]), "v": [{"t": "opaque", "kind": rng.choice(OPAQUE_KINDS)},
                                                               g_scalar(rng, ["npbool", "none", "npfloat"])]}
            vals.append([k, v])
        t = {"t": "dict", "v": vals}
        cases.append({"tree": t, "fmt": ["json"], "expect": {"json": "loads" if has_np_bool(t) else "same"},
                      "stream": "config-kwargs"})
    # observed only: what HDF5 does with values outside the result shapes
    for t in ([["a", {"t": "list", "v": [{"t": "none"}, {"t": "float", "b": 0}]}]],
              [["a", {"t": "list", "v": [{"t": "str", "v": "p"}, {"t": "str", "v": "q"}]}]],
              [["a", {"t": "list", "v": [{"t": "list", "v": [{"t": "int", "v": "1"}]}, {"t": "list", "v": []}]}]],
              [["a", {"t": "dict", "v": []}], ["b", {"t": "int", "v": "1"}]],
              [["a", {"t": "str", "v": "__none__"}]],
              [["a", {"t": "np", "k": "b", "w": "bool", "b": 1}]]):
        cases.append({"tree": {"t": "dict", "v": t}, "fmt": ["json", "h5"], "expect": {"json": None, "h5": None},
                      "stream": "observed-only"})
    # save_results(<dir>/<stem>[.<ext>], extension=<arg>): every spelling x argument, and directories that are
    # empty, plain, relative ("./x"), hidden, nested and / or contain dots ("run_v1.2", "a.b/c")
    ext = []
    for stem in ("result", "a.b"):
        for e in ("", "json", "hdf5", "h5", "txt", "JSON", "pkl"):
            for arg in (None, "json", "hdf5", "h5", "txt", ""):
                if stem == "a.b" and e == "":
                    continue      # "a.b" without extension is not a decomposition os.path.splitext produces
                if stem == "a.b" and not quick or stem == "result":
                    ext.append({"dir": "", "stem": stem, "ext": e, "arg": arg})
    dirs = ["plain", "./x", "run_v1.2", "a.b/c", ".hidden", "./up.down/v0.1", "x.json", "deep/er.h5/z"]
    for d in dirs:
        for e, arg in (("", "json"), ("", "hdf5"), ("", "h5"), ("json", None), ("hdf5", None), ("h5", None),
                       ("", None), ("h5", "json"), ("", "txt")):
            if quick and d in ("plain", "deep/er.h5/z") and (e, arg) not in (("", "h5"), ("json", None)):
                continue
            ext.append({"dir": d, "stem": "result", "ext": e, "arg": arg})
    # FlowSampler(...) constructed for real with keyword arguments that can neither be serialised nor copied
    ops = ["class", "nessai_class", "function", "lambda", "timedelta", "dtype", "module", "bound_method_with_lock",
           "callable_object_with_lock", "lock", "file", "generator", "set", "complex", "bytes"]
    construct = []
    for which in ("std", "ins"):
        base = [{"pool": "mp_pool", "callback": "bound_method_with_lock", "proposal_class": True},
                {"pool": None, "callback": "lambda", "proposal_class": False},
                {"pool": "pool", "callback": "callable_object_with_lock", "proposal_class": True}]
        for _ in range(1 if quick else 8):
            base.append({"pool": rng.choice([None, "mp_pool", "pool"]),
                         "callback": rng.choice([None, "function", "lambda", "bound_method_with_lock",
                                                 "callable_object_with_lock", "class"]),
                         "proposal_class": rng.random() < 0.5})
        for b in base:
            b = dict(b, sampler=which,
                     aux=[[rng.choice(KEYS[:8]) + str(j), rng.choice(ops)] for j in range(rng.randint(0, 4))],
                     aux_list=[rng.choice(ops) for _ in range(rng.randint(0, 3))])
            construct.append(b)
    return cases, ext, construct


# ------------------------------------------------------------------------------------------------
# Coq literals
def cZ(v):
    v = int(v)
    return f"({v})" if v < 0 else str(v)


KIND = {"f": "KFloat", "i": "KInt", "b": "KBool"}


def cTree(t):
    k = t["t"]
    if k == "none":
        return "TNone"
    if k == "bool":
        return "TBool " + ("true" if t["v"] else "false")
    if k == "int":
        return f"TInt {cZ(t['v'])}"
    if k == "float":
        return f"TFloat {cZ(t['b'])}"
    if k == "str":
        return f"TStr {cStr(t['v'])}"
    if k == "np":
        return f"TNp {KIND[t['k']]} {cZ(t['b'])}"
    if k == "arr":
        return (f"TArr {cL(str(int(s)) + '%nat' for s in t['shape'])} {KIND[t['k']]} "
                f"{cL(cZ(v) for v in t['data'])}")
    if k == "struct":
        return (f"TStruct {cL(f'({cStr(n)}, {KIND[kk]})' for n, kk in t['fields'])} "
                f"{cL(cL(cZ(v) for v in r) for r in t['rows'])}")
    if k == "list":
        return f"TList {cL(cTree(x) for x in t['v'])}"
    if k == "tuple":
        return f"TTuple {cL(cTree(x) for x in t['v'])}"
    if k == "dict":
        return f"TDict {cDict(t['v'])}"
    if k == "opaque":
        return f"TOpaque {cStr(t['repr'])}"
    raise ValueError(k)


def cDict(items):
    return cL(f"({cStr(k)}, {cTree(x)})" for k, x in items)


def cJ(j):
    k = j["j"]
    if k == "null":
        return "JNull"
    if k == "bool":
        return "JBool " + ("true" if j["v"] else "false")
    if k == "int":
        return f"JInt {cZ(j['v'])}"
    if k == "float":
        return f"JFloat {cZ(j['b'])}"
    if k == "str":
        return f"JStr {cStr(j['v'])}"
    if k == "list":
        return f"JList {cL(cJ(x) for x in j['v'])}"
    if k == "dict":
        return "JDict " + cL(f"({cStr(kk)}, {cJ(x)})" for kk, x in j["v"])
    raise ValueError(k)


def cH(h):
    k = h["h"]
    if k == "str":
        return f"HStr {cStr(h['v'])}"
    if k == "num":
        return f"HNum {KIND[h['k']]} {cZ(h['z'])}"
    if k == "arr":
        return (f"HArr {cL(str(int(s)) + '%nat' for s in h['shape'])} {KIND[h['k']]} "
                f"{cL(cZ(v) for v in h['data'])}")
    if k == "struct":
        return (f"HStruct {cL(f'({cStr(n)}, {KIND[kk]})' for n, kk in h['fields'])} "
                f"{cL(cL(cZ(v) for v in r) for r in h['rows'])}")
    if k == "strs":
        return f"HStrs {cL(cStr(s) for s in h['v'])}"
    return None


def cHfile(obs):
    items = []
    for path, h in obs:
        t = cH(h)
        if t is None:
            return None
        items.append(f"({cL(cStr(p) for p in path)}, {t})")
    return cL(items)


CASE_HEADER = (common.COQ_HEADER + "From Coq Require Import Ascii.\n"
               "From NessaiV Require Import Model.C19_Results Run.C19_run.\n"
               "Open Scope string_scope.\nOpen Scope Z_scope.\n")


# ------------------------------------------------------------------------------------------------
def translate(chk):
    import c19_io
    from pyast import Declined
    status, lad, h5 = {}, None, None
    try:
        lad = c19_io.ladder()
        status["NessaiJSONEncoder.default"] = "translated: " + lad
    except Declined as e:
        status["NessaiJSONEncoder.default"] = f"declined: {e}"
    try:
        h5 = c19_io.h5_skeleton()
        status["hdf5 writers"] = "translated: " + h5
    except Declined as e:
        status["hdf5 writers"] = f"declined: {e}"
    try:
        status["save_results"] = c19_io.save_results_info()
    except Declined as e:
        status["save_results"] = f"declined: {e}"
    chk.translator = status
    return lad, h5


def today(chk, lad, h5):
    hdr = common.COQ_HEADER + ("From Coq Require Import Ascii.\n"
                               "From NessaiV Require Import Model.C19_Results Proofs.C19_Results_proofs.\n"
                               "Open Scope string_scope.\n")
    if lad is not None:
        txt = hdr + f"Definition ladder_now : ladder := {lad}.\n"
        txt += "Lemma today : ladder_ok ladder_now = true.\nProof. vm_compute. reflexivity. Qed.\n"
        txt += ("Lemma today_property : forall t, no_npbool t = true -> enc_json ladder_now t = Ok (jview t).\n"
                "Proof. exact (json_roundtrip ladder_now today). Qed.\n")
        ok, _, err = chk.coq_run("today_ladder", txt)
        chk.oblige("today: ladder_ok ladder_now = true (isinstance ladder of NessaiJSONEncoder.default regenerated "
                   "from the source, order respected) + instantiated C19_json_roundtrip", "today", ok, err)
        txt = hdr + f"Definition ladder_now : ladder := {lad}.\n"
        txt += "Lemma today : ladder_total ladder_now = true.\nProof. vm_compute. reflexivity. Qed.\n"
        txt += ("Lemma today_property : forall t, exists j, enc_json ladder_now t = Ok j.\n"
                "Proof. exact (json_always_loads ladder_now today). Qed.\n")
        ok, _, err = chk.coq_run("today_ladder_total", txt)
        chk.oblige("today: ladder_total ladder_now = true (no branch of the encoder raises) + instantiated "
                   "C19_config_always_loads", "today", ok, err)
    if h5 is not None:
        txt = hdr + f"Definition h5_now : h5_sk := {h5}.\n"
        txt += "Lemma today : h5_ok h5_now = true.\nProof. vm_compute. reflexivity. Qed.\n"
        txt += ("Lemma today_property : forall d f, top_ok d = true -> no_marker (TDict d) = true -> "
                "enc_h5 h5_now d = Ok f -> Forall2 faithful f (top_leaves d) /\\ NoDup (map fst f).\n"
                "Proof. exact (h5_roundtrip h5_now today). Qed.\n")
        ok, _, err = chk.coq_run("today_h5", txt)
        chk.oblige("today: h5_ok h5_now = true (encode_for_hdf5 / add_dict_to_hdf5_file / save_dict_to_hdf5 "
                   "regenerated from the source) + instantiated C19_h5_roundtrip", "today", ok, err)


def fail_key(fmt, msg):
    what = msg.split(": ", 1)[1] if ": " in msg else msg
    return f"C19:{fmt}:{what.split(' ')[0]}"


def judge_gen(c, r):
    """direct predicate on one generated case -> list of (key, what)"""
    bad = []
    for fmt in ("json", "h5"):
        want = c["expect"].get(fmt)
        res = r.get(fmt)
        if want is None or res is None:
            continue
        if "err" in res:
            bad.append((f"C19:{fmt}:raised:{res['err']}", f"{fmt} writer raised {res['err']}: {res.get('msg', '')}"))
        elif want == "same" and res["bad"]:
            bad.append((fail_key(fmt, res["bad"][0]), f"{fmt}: " + "; ".join(res["bad"][:3])))
    return bad


def ext_expected(c):
    """-> (rejected?, file that must exist relative to the working directory, writer)"""
    eff = c["arg"] if c["arg"] is not None else c["ext"]
    if eff not in ("json", "hdf5", "h5"):
        return True, None, None
    d = c.get("dir", "")
    fname = os.path.normpath((d + "/" if d else "") + c["stem"] + "." + (c["ext"] or c["arg"]))
    return False, fname, "json" if eff == "json" else "hdf5"


def judge_ext(c, r):
    """direct predicate: the file named <dir>/<stem>.<requested extension> exists, is the only file written,
    is in the requested format and holds the results"""
    rejected, fname, writer = ext_expected(c)
    where = "dotted-dir" if "." in c.get("dir", "") else "plain-dir"
    if rejected != ("err" in r):
        return [(f"C19:extension:{where}:accept-reject", f"save_results({r.get('passed')!r}, extension={c['arg']!r}) -> {r}")]
    if rejected:
        return [] if not r.get("files") else [(f"C19:extension:{where}:file-left-behind", f"{c} -> {r}")]
    if r.get("files") != [fname]:
        return [(f"C19:extension:{where}:result-file-missing",
                 f"save_results({r.get('passed')!r}, extension={c['arg']!r}): expected file {fname!r} does not exist; "
                 f"written: {r.get('files')}")]
    if r.get("writer") != writer or not r.get("content_ok"):
        return [(f"C19:extension:{where}:wrong-format-or-content", f"{c} -> {r}, expected a {writer} file")]
    return []


def judge_construct(c, r):
    """direct predicate: FlowSampler(**kwargs) with non-serialisable, non-copyable values is constructed,
    config.json exists, parses with json.load and holds every keyword argument"""
    tag = f"C19:config:construct:{c['sampler']}"
    if "raised" in r:
        return [(f"{tag}:raised:{r['raised'].split(':')[0]}",
                 f"FlowSampler(**{r['kwargs']}) raised {r['raised']} (config.json exists: {r.get('config_exists')}) {r.get('where', '')[-200:]}")]
    if not r.get("config_exists"):
        return [(f"{tag}:config-missing", f"config.json was not written for kwargs {r['kwargs']}")]
    if "load_error" in r:
        return [(f"{tag}:does-not-load", f"config.json does not parse: {r['load_error']}")]
    if r.get("missing"):
        return [(f"{tag}:kwarg-missing", f"keyword arguments {r['missing']} are not in config.json")]
    if r.get("bad"):
        return [(f"{tag}:kwarg-differs", "; ".join(r["bad"][:3]))]
    return []


def judge_run(which, r):
    bad = []
    if not r.get("config_loads"):
        bad.append((f"C19:config:{which}:does-not-load", f"config.json of the {which} run does not parse: {r.get('config_error')}"))
    if not r.get("kwargs_loads"):
        bad.append((f"C19:config:{which}:kwargs-raise", f"save_kwargs with non-serialisable values: {r.get('kwargs_error')}"))
    elif r.get("kwargs_bad"):
        bad.append((f"C19:config:{which}:kwargs-differ", "; ".join(r["kwargs_bad"][:3])))
    for label, s in r.get("saves", {}).items():
        if "err" in s:
            bad.append((f"C19:result:{which}:{label}:raised:{s['err']}", f"save_results({label}) raised {s['err']}: {s.get('msg')}"))
        elif s["bad"]:
            bad.append((f"C19:result:{which}:{label}:" + fail_key("", s["bad"][0]).split(":")[-1],
                        f"{which} result.{label}: " + "; ".join(s["bad"][:3])))
    return bad


def run_children(chk, cases, ext, construct=()):
    wd = os.path.join(chk.build, "io")
    jobs = {"gen": {"gen": cases, "ext": ext, "construct": list(construct), "workdir": wd},
            "std": {"sampler": "std", "workdir": os.path.join(chk.build, "runs"), "cap": 400},
            "ins": {"sampler": "ins", "workdir": os.path.join(chk.build, "runs"), "cap": 400}}

    def go(name):
        rc, out, err = chk.child("c19_child.py", timeout=600, inp=json.dumps(jobs[name]))
        return name, rc, out, err
    res = {}
    with ThreadPoolExecutor(3) as ex:
        for name, rc, out, err in ex.map(go, list(jobs)):
            if rc != 0:
                chk.oblige(f"implementation child ran ({name})", "harness", False, (err or "")[-1500:])
                res[name] = None
            else:
                res[name] = json.loads(out)
    return res


def run(chk):
    chk.rule = ("generated value trees: result-like nested dictionaries (depth 0-3) over every constructor (None, bool, "
                "int, float incl. NaN / +-inf / -0.0 / extremes, str incl. unicode, np.int64/32/16/uint8, np.float64/32/16/"
                "longdouble, float/int/bool arrays of rank 0-3 incl. empty, structured arrays incl. 0 rows, same-kind "
                "lists / tuples, lists of arrays, nested dicts); mixed bool/int/float lists; general JSON trees with "
                "opaque objects, empty dicts, ragged and heterogeneous lists, huge ints; keyword-argument dictionaries "
                "with classes / functions / lambdas / pool-like objects / timedeltas / np.bool_; an observed-only stream "
                "for what HDF5 cannot hold; every extension spelling x argument; the real result dictionaries of one "
                "short run of the standard and of the importance nested sampler, saved as json / hdf5 / h5. "
                "non-trivial = the tree contains a non-finite float, a None, a numpy scalar or a nested dict; distinct "
                "by full tree")
    chk.assumptions += [
        "oracle: json.load(json.dump(x)) = x for JSON-native x (NaN / Infinity tokens, tuples as lists) - validated on every case",
        "oracle: an h5py dataset reads back the numpy array it was created from; np.asarray promotion of nested lists as "
        "modelled by flat / promote in Model/C19_Results.v - validated on every case",
        "float64 values are identified by bit pattern with all NaNs identified; np.float32 / float16 / longdouble scalars "
        "are carried by the float64 they round to (the direct comparison in c19_child.py uses the native dtype)",
        "dictionary keys are str (json stringifies int / float / bool / None keys and rejects others; h5 needs str)",
    ]
    chk.static_props(["C19"], ["C19_run"])
    lad, h5 = translate(chk)
    today(chk, lad, h5)
    lad_term = "ladder_now" if lad is not None else "ladder_today"
    h5_term = "h5_now" if h5 is not None else "h5_today"
    defs = (f"Definition ladder_now : ladder := {lad}.\n" if lad is not None else "") + \
           (f"Definition h5_now : h5_sk := {h5}.\n" if h5 is not None else "")
    cases, ext, construct = gen_cases(chk)
    res = run_children(chk, cases, ext, construct)
    if res.get("gen") is None:
        return
    rgen, rext, rcon = res["gen"]["gen"], res["gen"]["ext"], res["gen"].get("construct", [])
    # ---- direct predicate -----------------------------------------------------------------------
    for c, r in zip(cases, rgen):
        chk.count("stream:" + c["stream"])
        chk.evaluations += len(c["fmt"])
        d = json.dumps(r["desc"])
        if any(s in d for s in ('"none"', str(NAN), str(fbits(float("inf"))), '"np"')) or d.count('"dict"') > 1:
            chk.nontriv(r["desc"])
        for key, what in judge_gen(c, r):
            chk.fail(key, what, {"kind": "gen", "case": c, "observed": {k: r.get(k) for k in ("json", "h5")}})
    for c, r in zip(ext, rext):
        chk.evaluations += 1
        chk.count("ext:" + ("error" if "err" in r else r.get("writer", "?")))
        chk.count("ext:dir:" + ("none" if not c.get("dir") else "dotted" if "." in c["dir"].replace("./", "").replace("../", "") or c["dir"].startswith(".h") else "relative-or-plain"))
        if c.get("dir") and "." in c["dir"]:
            chk.nontriv(("ext", json.dumps(c)))
        for key, what in judge_ext(c, r):
            chk.fail(key, what, {"kind": "ext", "case": c, "observed": r})
    for c, r in zip(construct, rcon):
        chk.evaluations += 1
        chk.count("construct:" + c["sampler"] + (":user-pool" if c.get("pool") == "mp_pool" else ""))
        chk.nontriv(("construct", json.dumps(c)))
        for key, what in judge_construct(c, r):
            chk.fail(key, what, {"kind": "construct", "case": c, "observed": {k: v for k, v in r.items() if k not in ("desc", "obs")}})
    runs = {}
    for which in ("std", "ins"):
        r = res.get(which)
        if r is None:
            continue
        r = r["sampler"]
        runs[which] = r
        chk.evaluations += 5 + 2
        chk.notes.append(f"{which} run output directory: {r.get('output')}")
        chk.count("run:" + which)
        chk.nontriv(("run", which))
        if not r.get("stable", True):
            chk.notes.append(f"{which}: the result dictionary changed between two calls of get_result_dictionary")
        for key, what in judge_run(which, r):
            chk.fail(key, what, {"kind": "run", "sampler": which, "failure": what})
    # ---- correspondence inside Coq ---------------------------------------------------------------
    jl, hl, unenc = [], [], 0
    for c, r in zip(cases, rgen):
        tree = r["desc"]
        if "json" in r:
            obs = "None" if "err" in r["json"] else f"(Some ({cJ(r['json']['obs'])}))"
            jl.append(f"({cTree(tree)}, {obs})")
        if "h5" in r:
            if "err" in r["h5"]:
                obs = "None"
            else:
                t = cHfile(r["h5"]["obs"])
                if t is None:
                    unenc += 1
                    continue
                obs = f"(Some {t})"
            hl.append(f"({cDict(tree['v'])}, {obs})")

    for c, r in zip(construct, rcon):
        if "desc" in r:
            jl.append(f"({cTree(r['desc'])}, (Some ({cJ(r['obs'])})))")

    def shard(items, name, typ, chkfun, size):
        bad, okall, errs = [], True, ""
        for s in range(0, len(items), size):
            txt = CASE_HEADER + defs + f"Definition cases : list ({typ}) := [\n" + ";\n".join(items[s:s + size]) + "].\n"
            txt += f"Eval vm_compute in (mism ({chkfun}) cases).\n"
            ok, evals, err = chk.coq_run(f"{name}_{s // size}", txt)
            if not ok or len(evals) != 1:
                okall, errs = False, err
                break
            bad += [s + v for v in common.parse_nat_list(evals[0])]
        return okall, bad, errs
    ok, bad, err = shard(jl, "json", "tree * option jval", f"chk_json {lad_term}", 80)
    chk.oblige(f"correspondence: json.load(save_to_json(v)) = enc_json on generated trees ({len(jl)} cases)",
               "correspondence", ok and not bad, err + "; ".join(jl[k][:700] for k in bad[:2]))
    ok, bad, err = shard(hl, "h5", "list (string * tree) * option hfile", f"chk_h5 {h5_term}", 80)
    chk.oblige(f"correspondence: datasets read back from save_dict_to_hdf5(d) = enc_h5 on generated trees ({len(hl)} cases)",
               "correspondence", ok and not bad and not unenc,
               err + "; ".join(hl[k][:700] for k in bad[:2]) + (f"; {unenc} files with datasets outside the model" if unenc else ""))
    el = []
    for c, r in zip(ext, rext):
        if "err" in r:
            o = "None"
        elif len(r.get("files", [])) == 1 and r.get("writer") in ("json", "hdf5"):
            o = f"(Some ({'WJson' if r['writer'] == 'json' else 'WHdf5'}, {cStr(r['files'][0])}))"
        else:
            o = f"(Some (WJson, {cStr('<' + str(r.get('files')) + '>')}))"
        arg = "None" if c["arg"] is None else f"(Some {cStr(c['arg'])})"
        # the model gets the normalised path ("./x/result" -> "x/result"); the real code got the raw one
        el.append(f"({cStr(os.path.normpath(r['passed']))}, {arg}, {o})")
    ok, bad, err = shard(el, "ext", "string * option string * option (writer * string)", "chk_ext_p", 500)
    chk.oblige(f"correspondence: writer and file chosen by FlowSampler.save_results = choose_writer_p, for plain, "
               f"relative, hidden, nested and dotted directories ({len(el)} cases)",
               "correspondence", ok and not bad, err + "; ".join(el[k] for k in bad[:3]))
    # the real runs: one literal per (run, file); identical read-backs (hdf5 / h5) are evaluated once; in parallel
    jobs, seen = [], {}
    for which, r in runs.items():
        tree = r["tree"]
        for label, s in r.get("saves", {}).items():
            if "err" in s:
                obs = "None"
            elif label.startswith("json"):
                obs = f"(Some ({cJ(s['obs'])}))"
            else:
                t = cHfile(s["obs"])
                obs = "None" if t is None else f"(Some {t})"
            item = f"({cDict(tree['v'])}, {obs})"
            label = label.replace("()", "").replace("-", "_")
            if (which, item) in seen:
                jobs.append((which, label, item, seen[(which, item)]))
                continue
            seen[(which, item)] = label
            jobs.append((which, label, item, None))

    def evaluate(job):
        which, label, item, same_as = job
        if same_as is not None:
            return None
        if label.startswith("json"):
            return shard([item], f"run_{which}_{label}", "list (string * tree) * option jval",
                         f"chk_result_json {lad_term}", 1)
        return shard([item], f"run_{which}_{label}", "list (string * tree) * option hfile", f"chk_h5 {h5_term}", 1)
    with ThreadPoolExecutor(6) as ex:
        outs = list(ex.map(evaluate, jobs))
    done = {}
    for job, out in zip(jobs, outs):
        which, label, item, same_as = job
        if out is None:
            ok, bad, err = done[(which, same_as)]
            note = f" (same read-back as result.{same_as})"
        else:
            ok, bad, err = out
            done[(which, label)] = out
            note = ""
        chk.oblige(f"correspondence: result file ({label}) of the real {which} run read back = model "
                   f"({len(item) // 1024} kB literal){note}", "correspondence", ok and not bad,
                   err + ("model and file differ" if bad else ""))
        chk.traces += 1
    chk.traces += len(jl) + len(hl) + len(el)
    chk.oracle_validations = len(jl) + len(hl)
    for c, r in list(zip(cases, rgen))[:: max(1, len(cases) // 5)]:
        chk.sample({"stream": c["stream"], "tree": json.dumps(r["desc"])[:300]})


def replay(data):
    rp = data["replay"]
    env = common.child_env()
    wd = os.path.join(common.BUILD_ROOT, "C19_replay")
    if rp["kind"] == "run":
        job = {"sampler": rp["sampler"], "workdir": wd, "cap": 400}
    elif rp["kind"] == "ext":
        job = {"gen": [], "ext": [rp["case"]], "workdir": wd}
    elif rp["kind"] == "construct":
        job = {"gen": [], "ext": [], "construct": [rp["case"]], "workdir": wd}
    else:
        job = {"gen": [rp["case"]], "ext": [], "workdir": wd}
    r = subprocess.run(["timeout", "600", common.PY, os.path.join(common.VERIF, "harness", "c19_child.py")],
                       input=json.dumps(job), capture_output=True, text=True, env=env)
    out = json.loads(r.stdout)
    if rp["kind"] == "run":
        bad = judge_run(rp["sampler"], out["sampler"])
    elif rp["kind"] == "ext":
        bad = judge_ext(rp["case"], out["ext"][0])
    elif rp["kind"] == "construct":
        bad = judge_construct(rp["case"], out["construct"][0])
    else:
        bad = judge_gen(rp["case"], out["gen"][0])
    print(json.dumps({"failures": bad}, indent=1)[:3000])
    if bad:
        print(f"VIOLATION property={PID} replay=(replayed) {bad[0][1][:300]}")
        return 1
    return 0
