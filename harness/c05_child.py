"""One real run of either sampler to completion; dumps what FlowSampler, the sampler object and the
result dictionary report, plus the returned samples.  Config JSON on argv[1]; result JSON on stdout."""
import json
import sys

import numpy as np


def main():
    cfg = json.loads(sys.argv[1])
    import faulthandler
    faulthandler.dump_traceback_later(cfg.get("hang_after", 800), exit=True)
    import torch
    torch.set_num_threads(1)
    from nessai.flowsampler import FlowSampler
    from nessai.model import Model
    from nessai.utils.logging import setup_logger
    setup_logger(output=None, log_level="CRITICAL")

    class G(Model):
        def __init__(self):
            self.names = ["x", "y"]
            self.bounds = {"x": [-4.0, 4.0], "y": [-4.0, 4.0]}

        def log_prior(self, x):
            if cfg.get("prior") == "gauss":
                # a prior that varies inside the bounds (the unit-cube map stays linear, so the unit-cube density is not flat)
                return np.log(self.in_bounds(x), dtype=float) - 0.125 * (x["x"] ** 2 + x["y"] ** 2) - 3.0
            return np.log(self.in_bounds(x), dtype=float) - np.log(64.0)

        def log_likelihood(self, x):
            ll = -0.5 * (x["x"] ** 2 + (x["y"] - 0.5) ** 2) * cfg.get("sharp", 1.0) + cfg.get("offset", 0.0)
            if cfg.get("cut"):
                # a likelihood that is exactly zero on part of the prior (hard edge): such samples are returned and counted
                with np.errstate(divide="ignore"):
                    ll = ll + np.log((x["x"] ** 2 + x["y"] ** 2 <= cfg["cut"] ** 2).astype(float))
            return ll

        def to_unit_hypercube(self, x):
            y = x.copy()
            for n in self.names:
                y[n] = (x[n] + 4.0) / 8.0
            return y

        def from_unit_hypercube(self, x):
            y = x.copy()
            for n in self.names:
                y[n] = 8.0 * x[n] - 4.0
            return y

    if cfg.get("prior") == "gauss":
        G.log_prior_unit_hypercube = lambda self, x: self.log_prior(self.from_unit_hypercube(x)) + np.log(64.0)
    model = G()
    kw = dict(cfg["kwargs"])
    ins = bool(cfg.get("ins"))
    run_kw = dict(cfg.get("run_kwargs", {}))
    common_kw = dict(output=cfg["output"], importance_nested_sampler=ins, plot=False, seed=cfg["seed"], signal_handling=False,
                     flow_config={"n_blocks": 2, "n_neurons": 8}, training_config={"max_epochs": 15, "patience": 5})
    stops = list(cfg.get("resume_after", []))    # the process "dies" right after the checkpoint of these iterations
    resumed_at = []
    if not stops:
        fs = FlowSampler(model, resume=False, checkpointing=False, **common_kw, **kw)
        fs.run(plot=False, save=bool(cfg.get("save", True)), **run_kw)
    else:
        import os
        from nessai.samplers.base import BaseNestedSampler

        class StopHere(BaseException):
            pass

        state = {"stop": None}
        classes = [c for c in BaseNestedSampler.__subclasses__()] + [BaseNestedSampler]
        from nessai.samplers.nestedsampler import NestedSampler
        from nessai.samplers.importancesampler import ImportanceNestedSampler
        cls = ImportanceNestedSampler if ins else NestedSampler
        real_ckpt = cls.checkpoint

        def checkpoint(self, *a, **k):
            r = real_ckpt(self, *a, **k)
            if (state["stop"] is not None and self.iteration >= state["stop"] and not self.finalised
                    and os.path.exists(self.resume_file)):
                raise StopHere()
            return r

        cls.checkpoint = checkpoint
        first = True
        for stop in stops + [None]:
            state["stop"] = stop
            fs = FlowSampler(model, resume=not first, checkpointing=True, checkpoint_on_iteration=True,
                             checkpoint_interval=cfg.get("checkpoint_interval", 1), **common_kw, **kw)
            if not first:
                resumed_at.append(int(fs.ns.iteration))
            first = False
            try:
                fs.run(plot=False, save=bool(cfg.get("save", True)), **run_kw)
            except StopHere:
                continue
        if cfg.get("resume_finished"):
            # the run is complete: start once more from its final checkpoint, as a user re-running the script would
            state["stop"] = None
            del fs
            fs = FlowSampler(model, resume=True, checkpointing=True, checkpoint_on_iteration=True,
                             checkpoint_interval=cfg.get("checkpoint_interval", 1), **common_kw, **kw)
            resumed_at.append(int(fs.ns.iteration))
            fs.run(plot=False, save=bool(cfg.get("save", True)), **run_kw)
        cls.checkpoint = real_ckpt
    ns = fs.ns
    flt = lambda a: [float(v) for v in np.asarray(a, dtype=float).ravel()]
    first = collect(cfg, fs, ns, model, ins, run_kw, flt)
    # Reading is not writing: touch every public property of the sampler, its evidence state(s) and the FlowSampler,
    # then collect everything again.  The second collection is the one that is checked; `unstable` lists the fields
    # whose reported value changed merely because something was read.
    touched = 0
    objs = [ns, fs, getattr(ns, "state", None), getattr(getattr(ns, "training_samples", None), "state", None),
            getattr(getattr(ns, "iid_samples", None), "state", None)]
    for _ in range(2):
        for o in objs:
            if o is None:
                continue
            for name in dir(type(o)):
                if name.startswith("_") or not isinstance(getattr(type(o), name, None), property):
                    continue
                try:
                    getattr(o, name)
                    touched += 1
                except Exception:
                    pass
    out = collect(cfg, fs, ns, model, ins, run_kw, flt)
    out["unstable"] = sorted(diff_keys(first, out))
    out["resumed_at"] = resumed_at
    out["touched"] = touched
    json.dump(out, sys.stdout)


def diff_keys(a, b, prefix=""):
    ks = set()
    for k in set(a) | set(b):
        va, vb = a.get(k), b.get(k)
        if isinstance(va, dict) and isinstance(vb, dict):
            ks |= diff_keys(va, vb, prefix + str(k) + ".")
        elif repr(va) != repr(vb):
            ks.add(prefix + str(k))
    return ks


def collect(cfg, fs, ns, model, ins, run_kw, flt):
    out = {"ins": ins}
    out["fs"] = {"logZ": float(fs.logZ), "logZ_error": float(fs.logZ_error),
                 "n_nested": int(len(fs.nested_samples)), "nested_logL": flt(fs.nested_samples["logL"])}
    try:
        d = ns.get_result_dictionary()
        out["dict_error"] = None
    except Exception as e:
        import traceback
        d = None
        out["dict_error"] = type(e).__name__ + ": " + traceback.format_exc()[-600:]
    out["iterations"] = int(ns.iteration)
    out["likelihood_evaluations"] = int(model.likelihood_evaluations)
    if not ins:
        s = np.array(ns.nested_samples)
        out["nlive"] = int(ns.nlive)
        out["finalised"] = bool(ns.finalised)
        out["mode"] = ns.state.expectation
        out["samples"] = {"logL": flt(s["logL"]), "logP": flt(s["logP"]), "it": [int(v) for v in s["it"]],
                          "x": flt(s["x"]), "y": flt(s["y"])}
        out["logL_re"] = flt(model.log_likelihood(s))
        out["logP_re"] = flt(model.log_prior(s))
        out["state"] = {"logZ": float(ns.state.logZ), "error": float(ns.state.log_evidence_error),
                        "lpw": flt(ns.state.log_posterior_weights), "nlive_schedule": [int(v) for v in ns.state.nlive],
                        "logLs": flt(ns.state.logLs), "log_vols": flt(ns.state.log_vols), "info": float(ns.state.info[-1])}
        out["birth"] = flt(ns.birth_log_likelihoods)
        out["insertion_indices"] = int(len(ns.insertion_indices))
        if d is not None:
            out["dict"] = {"log_evidence": float(d["log_evidence"]), "log_evidence_error": float(d["log_evidence_error"]),
                           "lpw": flt(d["log_posterior_weights"]), "n": int(len(d["nested_samples"])),
                           "nested_logL": flt(d["nested_samples"]["logL"]), "birth": flt(d["logL_birth"])}
    else:
        su = ns.samples_unit
        out["counts"] = {int(k): int(v) for k, v in ns.sample_counts.items()}
        out["draw_iid_live"] = bool(ns.draw_iid_live)
        out["samples"] = {"logL": flt(su["logL"]), "logW": flt(su["logW"]), "x": flt(su["x"]), "y": flt(su["y"])}
        phys = model.from_unit_hypercube(su)
        out["logL_re"] = flt(model.log_likelihood(phys))
        out["samples"]["logP"] = flt(su["logP"])
        out["logP_re"] = flt(model.log_prior(phys))
        out["state"] = {"logZ": float(ns.log_evidence), "error": float(ns.log_evidence_error),
                        "lpw": flt(ns.log_posterior_weights)}
        out["n_train"] = int(len(ns.training_samples.samples))
        out["redraw"] = bool(run_kw.get("redraw_samples"))
        if d is not None:
            out["dict"] = {
                "log_evidence": None if d["log_evidence"] is None else float(d["log_evidence"]),
                "log_evidence_error": None if d["log_evidence_error"] is None else float(d["log_evidence_error"]),
                "lpw": None if d["log_posterior_weights"] is None else flt(d["log_posterior_weights"]),
                "n": None if d["samples"] is None else int(len(d["samples"])),
                "logL": None if d["samples"] is None else flt(d["samples"]["logL"]),
                "logW": None if d["samples"] is None else flt(d["samples"]["logW"]),
            }
    return out


if __name__ == "__main__":
    try:
        main()
    except Exception as e:
        import traceback
        json.dump({"error": type(e).__name__, "trace": traceback.format_exc()[-2500:]}, sys.stdout)
