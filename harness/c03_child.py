"""One real importance-nested-sampler run with snapshots of both sample stores after every
update_evidence and after finalise.  Config as JSON on argv[1]; result JSON on stdout."""
import json
import sys

import numpy as np


SNAPS = []


def main():
    cfg = json.loads(sys.argv[1])
    import faulthandler
    faulthandler.dump_traceback_later(cfg.get("hang_after", 500), exit=True)
    import torch
    torch.set_num_threads(1)
    from nessai.flowsampler import FlowSampler
    from nessai.model import Model
    from nessai.samplers.importancesampler import ImportanceNestedSampler as INS
    from nessai.utils.logging import setup_logger
    setup_logger(output=None, log_level="CRITICAL")

    class G(Model):
        """2-d Gaussian likelihood with exactly representable scale, uniform prior on [-4, 4]^2"""

        def __init__(self):
            self.names = ["x", "y"]
            self.bounds = {"x": [-4.0, 4.0], "y": [-4.0, 4.0]}

        def log_prior(self, x):
            return np.log(self.in_bounds(x), dtype=float) - np.log(64.0)

        def log_likelihood(self, x):
            return -0.5 * (x["x"] ** 2 + (x["y"] - 0.5) ** 2)

        def to_unit_hypercube(self, x):
            y = x.copy()
            for n in self.names:
                y[n] = (x[n] + 4.0) / 8.0
            return y

        def from_unit_hypercube(self, x):
            y = x.copy()
            for n in self.names:
                y[n] = 8.0 * x[n] - 4.0
            return y

    class Constrained(G):
        """prior with a hole inside its own bounding box: zero density where x > y"""

        def log_prior(self, x):
            lp = np.log(self.in_bounds(x), dtype=float) - np.log(32.0)
            with np.errstate(divide="ignore"):
                return lp + np.log(np.atleast_1d(x["x"] <= x["y"]).astype(float)).reshape(np.shape(lp))

    class GaussPrior(G):
        """non-uniform prior with a linear unit-cube map: the unit-cube prior density is not constant"""

        def log_prior(self, x):
            return np.log(self.in_bounds(x), dtype=float) - 0.125 * (x["x"] ** 2 + x["y"] ** 2) - 3.0

        def log_prior_unit_hypercube(self, x):
            return self.log_prior(self.from_unit_hypercube(x)) + np.log(64.0)

    class Floor(G):
        """a likelihood with a floor: every sample outside a disc has exactly the same value (ties in the ordering)"""

        def log_likelihood(self, x):
            return np.maximum(-0.5 * (x["x"] ** 2 + (x["y"] - 0.5) ** 2), -2.0)

    class Cut(G):
        """a likelihood that is exactly zero outside a disc (stored logL must be -inf there, and such samples tie)"""

        def log_likelihood(self, x):
            ll = -0.5 * (x["x"] ** 2 + (x["y"] - 0.5) ** 2)
            with np.errstate(divide="ignore"):
                return ll + np.log((x["x"] ** 2 + x["y"] ** 2 <= 6.25).astype(float))

    class NoCheck(G):
        """the constant density of the uniform prior, NOT -inf outside the bounds: nothing downstream hides a sample that
        left the unit hypercube (verify_model accepts such a prior)"""

        def log_prior(self, x):
            return np.zeros(x.size) - np.log(64.0)

    model = {"uniform": G, "constrained": Constrained, "gaussprior": GaussPrior, "nocheck": NoCheck, "floor": Floor, "cut": Cut}[cfg.get("model", "uniform")]()
    snaps = SNAPS

    def reeval(ns, s):
        """Every saved proposal re-evaluated at every stored sample WITHOUT the library's own batching: the torch flows
        are called directly on 512-row chunks (the logit / identity rescaling is the proposal's elementwise map)."""
        x, log_j = ns.proposal.rescale(s)
        flows = list(ns.proposal.flow.models) if ns.proposal.flow is not None and ns.proposal.flow.models is not None else []
        out = np.zeros((len(s), 1 + len(flows)))
        with torch.inference_mode():
            for j, m in enumerate(flows):
                m.eval()
                for a in range(0, len(s), 512):
                    xt = torch.from_numpy(x[a:a + 512]).type(torch.get_default_dtype())
                    out[a:a + 512, j + 1] = m.log_prob(xt).cpu().numpy().astype(np.float64) + log_j[a:a + 512]
        return out

    def store_snap(ns, st, name):
        s = st.samples
        lq_re = reeval(ns, s)
        phys = model.from_unit_hypercube(s)
        logl_re = model.log_likelihood(phys)
        rows = []
        keep = range(len(s))
        vec = None
        if len(s) > cfg.get("max_rows", 4000):
            # large stores: the whole-array comparisons are done here (same tolerances as the harness applies per row),
            # and only every k-th row, the last 300 rows and the first offending rows go through the per-row pipeline
            lq = np.asarray(st.log_q, dtype=float)
            w = np.array([ns.proposal.weights[k] for k in sorted(ns.proposal.weights)], dtype=float)
            bad = np.zeros(len(s), dtype=bool)
            if lq.shape == lq_re.shape:
                with np.errstate(invalid="ignore"):
                    bad |= np.any((lq != lq_re) & ~(np.abs(lq - lq_re) <= 1e-3 + 1e-4 * np.abs(lq_re)), axis=1)
                from scipy.special import logsumexp as _lse
                with np.errstate(divide="ignore"):
                    mix = _lse(lq, b=w[np.newaxis, :], axis=1)
                # same tolerances as harness/c03.py: float32 accuracy between a resume that re-evaluates the flows and the
                # next iteration, 1e-9 otherwise
                bad |= ~(np.abs(mix - s["logQ"]) <= (2e-5 if flags["recomputed"] else 1e-9) * np.maximum(1.0, np.abs(mix)))
            else:
                bad[:] = True
            bad |= ~(np.abs(s["logW"] - (s["logU"] - s["logQ"])) <= 1e-12 * np.maximum(1.0, np.abs(s["logW"])))
            bad |= ~((s["logL"] == logl_re) | (np.abs(s["logL"] - logl_re) <= 1e-12 * np.maximum(1.0, np.abs(s["logL"]))))
            for n in model.names:
                bad |= ~((s[n] >= 0.0) & (s[n] < 1.0))
            step = max(1, len(s) // 1500)
            keep = sorted(set(range(0, len(s), step)) | set(range(max(0, len(s) - 300), len(s))) | set(np.flatnonzero(bad)[:20].tolist()))
            vec = {"n": int(len(s)), "n_bad": int(bad.sum()), "first_bad": [int(v) for v in np.flatnonzero(bad)[:5]]}
        for i in keep:
            rows.append({
                "x": [float(s["x"][i]), float(s["y"][i])],
                "logU": float(s["logU"][i]), "logQ": float(s["logQ"][i]), "logW": float(s["logW"][i]),
                "logL": float(s["logL"][i]), "logL_re": float(logl_re[i]), "it": int(s["it"][i]),
                "lq": [float(v) for v in st.log_q[i]], "lq_re": [float(v) for v in lq_re[i]],
            })
        its, cnt = np.unique(np.asarray(s["it"]), return_counts=True)
        return {"store": name, "rows": rows, "n": int(len(s)), "vec": vec, "n_flows": int(lq_re.shape[1]),
                "by_it": {int(k): int(v) for k, v in zip(its, cnt)},
                "live": None if st.live_points_indices is None else int(len(st.live_points_indices))}

    flags = {"recomputed": False}

    def snapshot(ns, where):
        if where == "resumed":
            flags["recomputed"] = not cfg["kwargs"].get("save_log_q", False)
        elif where == "update_evidence":
            flags["recomputed"] = False
        snap = {"where": where, "iteration": int(ns.iteration),
                "counts": {int(k): int(v) for k, v in ns.sample_counts.items()},
                "weights": {int(k): float(v) for k, v in ns.proposal.weights.items()},
                "stores": [store_snap(ns, ns.training_samples, "train")]}
        if ns.draw_iid_live and ns.iid_samples is not None and ns.iid_samples.samples is not None:
            snap["stores"].append(store_snap(ns, ns.iid_samples, "iid"))
        snaps.append(snap)

    real_ue = INS.update_evidence
    real_fin = INS.finalise

    def update_evidence(self):
        r = real_ue(self)
        snapshot(self, "update_evidence")
        return r

    def finalise(self):
        was = self.finalised
        r = real_fin(self)
        if not was:
            snapshot(self, "finalise")
        return r

    INS.update_evidence = update_evidence
    INS.finalise = finalise
    kw = dict(cfg["kwargs"])
    common_kw = dict(output=cfg["output"], importance_nested_sampler=True, plot=False, seed=cfg["seed"], signal_handling=False,
                     flow_config={"n_blocks": 2, "n_neurons": 8}, training_config={"max_epochs": 15, "patience": 5})
    stops = list(cfg.get("resume_after", []))      # the process "dies" right after the checkpoint of these iterations
    if not stops:
        fs = FlowSampler(model, resume=False, checkpointing=False, **common_kw, **kw)
        fs.run(plot=False, save=False)
    else:
        class StopHere(BaseException):
            pass

        real_ckpt = INS.checkpoint
        state = {"stop": None}

        def checkpoint(self, *a, **k):
            r = real_ckpt(self, *a, **k)
            if state["stop"] is not None and self.iteration >= state["stop"] and not self.finalised:
                raise StopHere()
            return r

        INS.checkpoint = checkpoint
        first = True
        for stop in stops + [None]:
            state["stop"] = stop
            fs = FlowSampler(model, resume=not first, checkpointing=True, checkpoint_on_iteration=True, checkpoint_interval=1,
                             **common_kw, **kw)
            if not first:
                snapshot(fs.ns, "resumed")          # what the restored sampler holds before it does anything
            first = False
            try:
                fs.run(plot=False, save=False)
            except StopHere:
                del fs
                continue
    json.dump({"snaps": snaps, "iterations": int(fs.ns.iteration),
               "likelihood_evaluations": int(model.likelihood_evaluations)}, sys.stdout)


if __name__ == "__main__":
    try:
        main()
    except Exception as e:
        import traceback
        json.dump({"error": type(e).__name__, "trace": traceback.format_exc()[-2500:], "snaps": SNAPS}, sys.stdout)
