"""One real importance-nested-sampler run with snapshots of both sample stores after every
update_evidence and after finalise.  Config as JSON on argv[1]; result JSON on stdout."""
import json
import sys

import numpy as np


def main():
    cfg = json.loads(sys.argv[1])
    import faulthandler
    faulthandler.dump_traceback_later(cfg.get("hang_after", 500), exit=True)
    import torch
    torch.set_num_threads(1)
    from nessai.flowsampler import FlowSampler
    from nessai.model import Model
    from nessai.samplers.importancesampler import ImportanceNestedSampler as INS
    from nessai.utils.logging import setup_logger
    setup_logger(output=None, log_level="CRITICAL")

    class G(Model):
        """2-d Gaussian likelihood with exactly representable scale, uniform prior on [-4, 4]^2"""

        def __init__(self):
            self.names = ["x", "y"]
            self.bounds = {"x": [-4.0, 4.0], "y": [-4.0, 4.0]}

        def log_prior(self, x):
            return np.log(self.in_bounds(x), dtype=float) - np.log(64.0)

        def log_likelihood(self, x):
            return -0.5 * (x["x"] ** 2 + (x["y"] - 0.5) ** 2)

        def to_unit_hypercube(self, x):
            y = x.copy()
            for n in self.names:
                y[n] = (x[n] + 4.0) / 8.0
            return y

        def from_unit_hypercube(self, x):
            y = x.copy()
            for n in self.names:
                y[n] = 8.0 * x[n] - 4.0
            return y

    class Constrained(G):
        """prior with a hole inside its own bounding box: zero density where x > y"""

        def log_prior(self, x):
            lp = np.log(self.in_bounds(x), dtype=float) - np.log(32.0)
            with np.errstate(divide="ignore"):
                return lp + np.log(np.atleast_1d(x["x"] <= x["y"]).astype(float)).reshape(np.shape(lp))

    class GaussPrior(G):
        """non-uniform prior with a linear unit-cube map: the unit-cube prior density is not constant"""

        def log_prior(self, x):
            return np.log(self.in_bounds(x), dtype=float) - 0.125 * (x["x"] ** 2 + x["y"] ** 2) - 3.0

        def log_prior_unit_hypercube(self, x):
            return self.log_prior(self.from_unit_hypercube(x)) + np.log(64.0)

    model = {"uniform": G, "constrained": Constrained, "gaussprior": GaussPrior}[cfg.get("model", "uniform")]()
    snaps = []

    def store_snap(ns, st, name):
        s = st.samples
        # re-evaluate every saved proposal at every stored sample (oracle validation)
        with torch.inference_mode():
            _, lq_re = ns.proposal.compute_meta_proposal_samples(s)
        phys = model.from_unit_hypercube(s)
        logl_re = model.log_likelihood(phys)
        rows = []
        for i in range(len(s)):
            rows.append({
                "x": [float(s["x"][i]), float(s["y"][i])],
                "logU": float(s["logU"][i]), "logQ": float(s["logQ"][i]), "logW": float(s["logW"][i]),
                "logL": float(s["logL"][i]), "logL_re": float(logl_re[i]), "it": int(s["it"][i]),
                "lq": [float(v) for v in st.log_q[i]], "lq_re": [float(v) for v in lq_re[i]],
            })
        return {"store": name, "rows": rows,
                "live": None if st.live_points_indices is None else int(len(st.live_points_indices))}

    def snapshot(ns, where):
        snap = {"where": where, "iteration": int(ns.iteration),
                "counts": {int(k): int(v) for k, v in ns.sample_counts.items()},
                "weights": {int(k): float(v) for k, v in ns.proposal.weights.items()},
                "stores": [store_snap(ns, ns.training_samples, "train")]}
        if ns.draw_iid_live and ns.iid_samples is not None and ns.iid_samples.samples is not None:
            snap["stores"].append(store_snap(ns, ns.iid_samples, "iid"))
        snaps.append(snap)

    real_ue = INS.update_evidence
    real_fin = INS.finalise

    def update_evidence(self):
        r = real_ue(self)
        snapshot(self, "update_evidence")
        return r

    def finalise(self):
        was = self.finalised
        r = real_fin(self)
        if not was:
            snapshot(self, "finalise")
        return r

    INS.update_evidence = update_evidence
    INS.finalise = finalise
    kw = dict(cfg["kwargs"])
    fs = FlowSampler(model, output=cfg["output"], importance_nested_sampler=True, plot=False, resume=False,
                     seed=cfg["seed"], checkpointing=False, signal_handling=False,
                     flow_config={"n_blocks": 2, "n_neurons": 8}, training_config={"max_epochs": 15, "patience": 5},
                     **kw)
    fs.run(plot=False, save=False)
    json.dump({"snaps": snaps, "iterations": int(fs.ns.iteration),
               "likelihood_evaluations": int(model.likelihood_evaluations)}, sys.stdout)


if __name__ == "__main__":
    try:
        main()
    except Exception as e:
        import traceback
        json.dump({"error": type(e).__name__, "trace": traceback.format_exc()[-2500:]}, sys.stdout)
