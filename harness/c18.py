"""C18: live-point conversions preserve names, order, values and defaults; registry; zero-copy view."""
import json
import os
import struct
import subprocess
import sys

import common
from common import cB, cL, cN, cStr

sys.path.insert(0, common.VERIF + "/translator")

PID = "C18"
NAN = 0x7FF8000000000000
CORE = ["logP", "logL", "it"]
CORE_KINDS = ["f8", "f8", "i4"]
CORE_DEFS = [["f", NAN], ["f", NAN], ["i", 0]]

CONV = {0: "numpy_array_to_live_points", 1: "numpy_array_to_live_points(1-d)", 2: "empty_structured_array",
        3: "empty_structured_array(dtype=)", 4: "parameters_to_live_point", 5: "dataframe_to_live_points",
        6: "dict_to_live_points(lists)", 7: "dict_to_live_points(arrays)", 8: "dict_to_live_points(scalars)",
        9: "dict_to_live_points(extra dict)", 10: "live_points_to_array", 11: "live_points_to_array(copy)",
        12: "live_points_to_dict", 13: "live_points_to_dict(all fields)", 14: "DataFrame(live_points_to_dict)",
        15: "dict_roundtrip", 16: "array_roundtrip", 17: "frame_roundtrip", 18: "unstructured_view",
        19: "Model.unstructured_view", 20: "unstructured_view(other names)", 21: "view_layout",
        22: "live_points_to_array(names in any order)", 23: "live_points_to_array(names in any order, copy)",
        24: "live_points_to_dict(names in any order)", 25: "empty_structured_array(dtype in any order)",
        26: "live_points_to_array(default names)", 27: "unstructured_view(dtype=)"}

NAME_POOL = ["x", "y", "z", "x_0", "x_1", "mass_1", "mass_2", "theta_jn", "_p", "a1", "X", "Y", "lambda_", "logl",
             "logp", "It", "iT", "logLL", "ra", "dec", "psi", "phase", "chirp_mass", "mass_ratio", "dL", "t_c",
             "a_very_long_parameter_name_0123456789_abcdefghijklmnopqrstuvwxyz", "α", "Ωm", "été",
             "q", "w", "u", "v", "k2", "__dunder__", "x__y", "Z9", "n", "m"]
EXTRA_POOL = ["logQ", "logW", "logU", "qID", "e_1", "e_2", "aux", "logG", "β", "flag"]


def fbits(x):
    x = float(x)
    if x != x:
        return NAN
    return struct.unpack("<Q", struct.pack("<d", x))[0]


SPECIAL = [float("nan"), float("inf"), float("-inf"), 0.0, -0.0, 1.7976931348623157e308, -1.7976931348623157e308,
           2.2250738585072014e-308, 5e-324, -5e-324, 1.0, -1.0, 9007199254740993.0, 1e-300, 0.1, 3.141592653589793]
# a NaN with a payload and a negative NaN: the comparison is payload-insensitive
NAN_PAYLOADS = [0x7FF8000000000001, 0xFFF8000000000000, 0x7FF4000000000000]


def gen_value_bits(rng):
    r = rng.random()
    if r < 0.45:
        return fbits(rng.choice(SPECIAL))
    if r < 0.50:
        return rng.choice(NAN_PAYLOADS)
    if r < 0.75:
        return fbits(rng.gauss(0.0, 1.0))
    if r < 0.9:
        return fbits(rng.uniform(-1, 1) * 10.0 ** rng.randint(-300, 300))
    return fbits(float(rng.randint(-5, 5)))


def canon(bits):
    """bit pattern as the child reports it after a copy (NaN payloads are not part of the property)"""
    x = struct.unpack("<d", struct.pack("<Q", bits))[0]
    return NAN if x != x else bits


def gen_names(rng, lo=1, hi=20):
    r = rng.random()
    d = 1 if r < 0.12 else (2 if r < 0.3 else (rng.randint(3, 6) if r < 0.8 else rng.randint(min(7, hi), hi)))
    d = max(lo, min(hi, d))
    return rng.sample(NAME_POOL, d)


def gen_default(rng):
    r = rng.random()
    if r < 0.5:
        return {"f": fbits(rng.choice(SPECIAL + [2.5, -7.25]))}
    if r < 0.8:
        return {"i": rng.randint(-3, 9)}          # python int default: stored as float in the f8 field
    return {"f": fbits(rng.gauss(0, 1))}


def dv_bits(v):
    return fbits(float(v["i"])) if "i" in v else canon(v["f"])


def gen_hist(rng, maxops=6, pool=None, reads=True):
    pool = pool or EXTRA_POOL
    ops = []
    for _ in range(rng.randint(0, maxops)):
        r = rng.random()
        if r < 0.6:
            k = rng.choice([0, 1, 1, 2, 2, 3])
            ps = [rng.choice(pool) for _ in range(k)]          # duplicates inside one call are likely
            if rng.random() < 0.4:
                dv = None
            else:
                dv = [gen_default(rng) for _ in ps]
            ops.append({"op": "add", "ps": ps, "dv": dv, "as_tuple": rng.random() < 0.5})
        elif r < 0.75:
            ops.append({"op": "reset"})
        elif reads:
            ops.append({"op": "read"})
    return ops


def ref_extras(ops):
    """independent statement of what the history should leave registered: first registration wins,
    order of registration, reset empties"""
    ex = []
    for op in ops:
        if op["op"] == "reset":
            ex = []
        elif op["op"] == "add":
            dvs = op["dv"] if op["dv"] is not None else [{"f": NAN}] * len(op["ps"])
            for p, dv in zip(op["ps"], dvs):
                if p not in [e[0] for e in ex]:
                    ex.append((p, dv_bits(dv)))
    return ex


def hist_valid(ops):
    return all(op["op"] != "add" or op["dv"] is None or len(op["dv"]) == len(op["ps"]) for op in ops)


# ---------------------------------------------------------------------------------------------
def gen_cases(chk):
    rng = chk.rng
    quick = chk.tier == "quick"
    conv, hist = [], []
    import glob
    for path in sorted(glob.glob(os.path.join(common.VERIF, "corpus", PID, "*.json"))):   # the corpus runs first
        c = json.load(open(path))["replay"]["case"]
        (conv if c["kind"] == "conv" else hist).append(c)
    shapes = [0, 1, 1, 2, 3, 5] if quick else [0, 1, 1, 2, 3, 5, 8, 17]
    reps = 12 if quick else 40
    for rep in range(reps):
        for n in shapes:
            for nsp in (True, True, False):
                names = gen_names(rng)
                if not quick and rep % 10 == 0:
                    names = gen_names(rng, lo=18, hi=20)
                if n >= 8 and len(names) > 8:
                    names = names[:8]
                h = gen_hist(rng, maxops=4) if rng.random() < 0.7 else []
                data = [[gen_value_bits(rng) for _ in names] for _ in range(n)]
                c = {"kind": "conv", "valid": True, "hist": h, "names": names, "nsp": nsp, "data": data,
                     "model": True, "params_as": rng.choice(["list", "tuple", "array"]),
                     # optional arguments left at their defaults (names=None, copy, non_sampling_parameters,
                     # array_dtype, dtype) or given explicitly with the default's value
                     "defaults": rng.random() < 0.5}
                # generic view on other name lists: prefixes (fine), permuted prefixes and gaps (numpy rejects
                # or returns memory order) - correspondence only, the property is about the model's names
                r = rng.random()
                if r < 0.3:
                    c["vnames"] = names[: rng.randint(1, len(names))]
                elif r < 0.5:
                    k = rng.randint(1, len(names))
                    c["vnames"] = rng.sample(names[:k], k)
                elif r < 0.6:
                    c["vnames"] = rng.sample(names, rng.randint(1, len(names)))
                elif r < 0.65:
                    c["vnames"] = names + (["logP"] if nsp else [])
                # `names` arguments that are permutations / subsets of the stored fields, and a caller-supplied
                # dtype with the fields in another order (non-sampling fields not trailing, `it` anywhere,
                # extras not in registration order)
                exn = [e[0] for e in ref_extras(h)] if nsp else []
                f8 = list(names) + (["logP", "logL"] + exn if nsp else [])
                allf = f8 + (["it"] if nsp else [])
                r = rng.random()
                if r < 0.4 and len(names) >= 2:
                    k = rng.randint(2, len(names))
                    q = rng.sample(names[:k], k)
                    if q == names[:k]:
                        q = q[::-1]
                    c["qnames"] = q
                elif r < 0.7:
                    c["qnames"] = rng.sample(f8, rng.randint(1, len(f8)))
                elif r < 0.85:
                    c["qnames"] = list(names)[::-1]
                else:
                    c["qnames"] = list(names)
                c["dnames"] = rng.sample(allf, rng.randint(1, len(allf)))
                if nsp:
                    kinds = {k: "f8" for k in f8}
                    kinds["it"] = "i4"
                    r = rng.random()
                    if r < 0.4:
                        order = rng.sample(allf, len(allf))
                    elif r < 0.6:
                        order = ["logP", "logL", "it"] + exn[::-1] + list(names)
                    elif r < 0.8:
                        order = list(names) + exn[::-1] + ["it", "logL", "logP"]
                    else:
                        order = list(names)[::-1] + ["logL", "it", "logP"] + exn
                    c["fields"] = [[k, kinds[k]] for k in order]
                # an extra dictionary exercising numpy broadcasting / length mismatches
                if rng.random() < 0.35:
                    N = rng.choice([0, 1, 2, 3])
                    dx = []
                    for j, k in enumerate(names[: rng.randint(1, min(4, len(names)))]):
                        r2 = rng.random()
                        if r2 < 0.6 or j == 0 and r2 < 0.8:
                            dx.append([k, {"l": [gen_value_bits(rng) for _ in range(N)]}])
                        elif r2 < 0.8:
                            dx.append([k, {"s": gen_value_bits(rng)}])
                        elif r2 < 0.9:
                            dx.append([k, {"l": [gen_value_bits(rng)]}])
                        else:
                            dx.append([k, {"l": [gen_value_bits(rng) for _ in range(N + 1)]}])
                    c["dx"] = dx
                conv.append(c)
    # malformed stream: duplicate names, names colliding with core / registered extra fields,
    # extras colliding with core fields or parameter names, rows of the wrong width
    for _ in range(8 if quick else 60):
        names = gen_names(rng, lo=2, hi=6)
        kind = rng.choice(["dup", "core", "extra", "xcore", "narrow", "wide"])
        h = []
        n = rng.choice([1, 2])
        width = len(names)
        if kind == "dup":
            names[rng.randrange(1, len(names))] = names[0]
        elif kind == "core":
            names[rng.randrange(len(names))] = rng.choice(CORE)
        elif kind == "extra":
            h = [{"op": "add", "ps": [names[-1]], "dv": None}]
        elif kind == "xcore":
            h = [{"op": "add", "ps": [rng.choice(CORE)], "dv": None}]
        elif kind == "narrow":
            width = len(names) - 1
        else:
            width = len(names) + 1
        data = [[gen_value_bits(rng) for _ in range(width)] for _ in range(n)]
        conv.append({"kind": "conv", "valid": False, "why": kind, "hist": h, "names": names,
                     "only": [0, 1, 4] if kind in ("narrow", "wide") else None,
                     "nsp": True if kind in ("core", "extra", "xcore") else rng.random() < 0.7, "data": data,
                     "model": False})
    # registry histories with probes
    for j in range(120 if quick else 600):
        pool = EXTRA_POOL[: rng.choice([2, 3, 5, 10])]
        ops = gen_hist(rng, maxops=rng.choice([3, 6, 10]), pool=pool)
        ops.append({"op": "read"})
        hist.append({"kind": "hist", "valid": True, "ops": ops, "names": gen_names(rng, hi=5)})
    for j in range(10 if quick else 60):
        # malformed: fewer / more defaults than parameters (zip truncates) - correspondence only
        ops = gen_hist(rng, maxops=4)
        k = rng.randint(1, 3)
        ps = rng.sample(EXTRA_POOL, k)
        ndv = rng.choice([x for x in range(0, k + 2) if x != k])
        ops.insert(rng.randint(0, len(ops)), {"op": "add", "ps": ps, "dv": [gen_default(rng) for _ in range(ndv)]})
        ops.append({"op": "read"})
        hist.append({"kind": "hist", "valid": False, "ops": ops, "names": ["x", "y"]})
    # staged cases: every converter is called again after EVERY operation, for the same names and the same
    # point; the histories re-register the SAME extra name with a DIFFERENT default after a reset
    staged, preset = [], []
    for j in range(40 if quick else 300):
        names = gen_names(rng, hi=6)
        pool = EXTRA_POOL[: rng.choice([1, 2, 3])]
        ops = []
        for _ in range(rng.randint(2, 7)):
            r = rng.random()
            if r < 0.35 and ops and ops[-1]["op"] != "reset":
                ops.append({"op": "reset"})
            else:
                ps = rng.sample(pool, rng.randint(1, len(pool)))
                ops.append({"op": "add", "ps": ps, "dv": [gen_default(rng) for _ in ps] if rng.random() < 0.85 else None,
                            "as_tuple": rng.random() < 0.5})
        if j % 3 == 0:   # the shortest such history: add(A) ; reset ; add(B)
            q = rng.choice(pool)
            ops = [{"op": "add", "ps": [q], "dv": [gen_default(rng)], "as_tuple": False}, {"op": "reset"},
                   {"op": "add", "ps": [q], "dv": [gen_default(rng)], "as_tuple": False}] + ops[:2]
        staged.append({"kind": "staged", "valid": True, "defaults": rng.random() < 0.5, "names": names, "nsp": rng.random() < 0.85, "ops": ops,
                       "data": [[gen_value_bits(rng) for _ in names]]})
    # a NON-DEFAULT configuration is set first (what a user of nessai.config may do), then a history
    f4vals = [0.5, -2.0, 1.25, float("nan"), float("inf"), -0.0, 3.0]
    presets = [{"default_float_dtype": "f4"}, {"it_default": 7}, {"default_float_value": {"f": fbits(0.0)}},
               {"logl_dtype": "f4"}, {"it_dtype": "i8"},
               {"default_float_dtype": "f4", "it_default": -1, "default_float_value": {"f": fbits(-1.5)}}]
    for j in range(12 if quick else 60):
        names = gen_names(rng, lo=2, hi=4)
        ops = [o for o in gen_hist(rng, maxops=5, pool=EXTRA_POOL[:3], reads=False) if hist_valid([o])]
        if not any(o["op"] == "reset" for o in ops):
            ops.insert(rng.randint(0, len(ops)), {"op": "reset"})
        if j % 2 == 0:
            ops = [{"op": "add", "ps": ["logQ"], "dv": None}] + ops
        preset.append({"kind": "preset", "valid": True, "preset": presets[j % len(presets)], "names": names, "ops": ops,
                       "data": [[fbits(rng.choice(f4vals)) for _ in names] for _ in range(rng.choice([1, 2, 3]))]})
    return conv, hist, staged, preset


# ---------------------------------------------------------------------------------------------
# direct predicate: the property stated on the implementation's observations alone
def expected_layout(c):
    ex = ref_extras(c["hist"]) if c["nsp"] else []
    names = list(c["names"]) + (CORE + [e[0] for e in ex] if c["nsp"] else [])
    kinds = ["f8"] * len(c["names"]) + (CORE_KINDS + ["f8"] * len(ex) if c["nsp"] else [])
    tail = (CORE_DEFS + [["f", e[1]] for e in ex]) if c["nsp"] else []
    return names, kinds, tail


def direct_conv(c, r):
    """list of (key, what) failures of a valid-stream conversion case"""
    bad = []
    if not r.get("clean_start", False):
        bad.append(("registry:not-clean-after-reset", "registry not clean at case start (previous reset failed)"))
    if "hist_error" in r:
        bad.append(("registry:history-raised", f"registry history raised {r['hist_error']}"))
    names, kinds, tail = expected_layout(c)
    data = [[["f", canon(b)] for b in row] for row in c["data"]]
    n, d = len(data), len(c["names"])
    fresh = [[["f", NAN]] * d + tail for _ in range(n)]
    full = [row + tail for row in data]
    cols = [[row[j] for row in data] for j in range(d)]
    obs = r.get("obs", {})

    def need_arr(cid, rows, special=None):
        o = obs.get(str(cid))
        if o is None:
            return
        nm = CONV[cid]
        if o["t"] == "err":
            bad.append((special or f"{nm}:raised", f"{nm} raised {o['e']}: {o.get('msg', '')}"))
            return
        if o["t"] != "arr":
            bad.append((f"{nm}:type", f"{nm} returned {o}"))
            return
        if o["names"] != names:
            bad.append((f"{nm}:names", f"{nm}: field names {o['names']} expected {names}"))
        elif o["kinds"] != kinds:
            bad.append((f"{nm}:dtype", f"{nm}: field dtypes {o['kinds']} expected {kinds}"))
        elif len(o["rows"]) != len(rows):
            bad.append((f"{nm}:shape", f"{nm}: {len(o['rows'])} rows expected {len(rows)}"))
        elif [row[:d] for row in o["rows"]] != [row[:d] for row in rows]:
            bad.append((f"{nm}:values", f"{nm}: parameter values differ: {o['rows']} expected {rows}"))
        elif o["rows"] != rows:
            bad.append((f"{nm}:defaults", f"{nm}: non-sampling fields {[row[d:] for row in o['rows']]} expected {tail}"))

    for cid in (0, 1, 5, 8, 16, 17):
        need_arr(cid, full)
    for cid in (6, 7, 15):
        need_arr(cid, full, special="dict_to_live_points:one-point-sequence-values-rejected" if n == 1 else None)
    need_arr(2, fresh)
    need_arr(3, fresh)
    need_arr(4, full)
    o = obs.get("26")
    if o is not None:     # default names=None: ALL fields in storage order, `it` converted to float
        want = [[v if v[0] == "f" else ["f", fbits(float(v[1]))] for v in row] for row in full]
        if o["t"] != "mat":
            bad.append(("live_points_to_array(default names):raised-or-type", f"live_points_to_array(x): {o}"))
        elif o["m"] != want or o.get("shape") != [n, len(names)]:
            bad.append(("live_points_to_array(default names):values-or-shape",
                        f"live_points_to_array(x) with names=None: {o['m']} shape {o.get('shape')} expected all fields "
                        f"{names} in storage order: {want} shape {[n, len(names)]}"))
    for cid in (10, 11, 18, 19, 27):
        o = obs.get(str(cid))
        if o is None:
            continue
        nm = CONV[cid]
        if o["t"] != "mat":
            bad.append((f"{nm}:raised-or-type", f"{nm}: {o}"))
        elif o["m"] != data or (n == 0 and o.get("shape") != [0, d]):
            bad.append((f"{nm}:values", f"{nm}: {o['m']} shape {o.get('shape')} expected {data}"))
    o = obs.get("12")
    if o is not None:
        if o["t"] != "dict":
            bad.append(("live_points_to_dict:raised-or-type", f"{o}"))
        elif [[k, v] for k, v, _ in o["d"]] != [[k, col] for k, col in zip(c["names"], cols)]:
            bad.append(("live_points_to_dict:values", f"{o['d']} expected {list(zip(c['names'], cols))}"))
    o = obs.get("13")
    if o is not None:
        allcols = [[row[j] for row in full] for j in range(len(names))]
        if o["t"] != "dict":
            bad.append(("live_points_to_dict(all fields):raised-or-type", f"{o}"))
        elif [[k, v] for k, v, _ in o["d"]] != [[k, col] for k, col in zip(names, allcols)]:
            bad.append(("live_points_to_dict(all fields):values", f"{o['d']}"))
    o = obs.get("14")
    if o is not None:
        if o["t"] != "arr" or o["names"] != list(c["names"]) or o["rows"] != data:
            bad.append(("DataFrame(live_points_to_dict):values", f"{o} expected columns {c['names']} rows {data}"))
    byname = [dict(zip(names, row)) for row in full]
    for cid in (22, 23):
        o = obs.get(str(cid))
        if o is not None:
            want = [[rowd[k] for k in c["qnames"]] for rowd in byname]
            if o["t"] != "mat":
                bad.append((f"{CONV[cid]}:raised-or-type", f"{CONV[cid]} names={c['qnames']}: {o}"))
            elif o["m"] != want:
                bad.append((f"{CONV[cid]}:values-under-wrong-names",
                            f"{CONV[cid]} names={c['qnames']} on fields {names}: {o['m']} expected {want}"))
    o = obs.get("24")
    if o is not None:
        want = [[k, [rowd[k] for rowd in byname]] for k in c["dnames"]]
        if o["t"] != "dict" or [[k, v] for k, v, _ in o["d"]] != want:
            bad.append(("live_points_to_dict(names in any order):values-under-wrong-names",
                        f"names={c['dnames']}: {o} expected {want}"))
    o = obs.get("25")
    if o is not None:
        dflt = dict(zip(names, [["f", NAN]] * d + tail))
        wantn = [k for k, _ in c["fields"]]
        wantrow = [dflt[k] for k in wantn]
        if o["t"] != "arr":
            bad.append(("empty_structured_array(dtype in any order):raised", f"dtype={c['fields']}: {o}"))
        elif o["names"] != wantn or o["kinds"] != [kd for _, kd in c["fields"]]:
            bad.append(("empty_structured_array(dtype in any order):dtype", f"dtype={c['fields']}: {o['names']} {o['kinds']}"))
        elif o["rows"] != [wantrow] * n:
            bad.append(("empty_structured_array(dtype in any order):defaults-under-wrong-names",
                        f"dtype={c['fields']}: rows {o['rows'][:2]} expected {wantrow}"))
    o = obs.get("21")
    if o is not None:
        item = 8 * d + (8 + 8 + 4 + 8 * (len(names) - d - 3) if c["nsp"] else 0)
        offs, acc = [], 0
        for k in kinds:
            offs.append(acc)
            acc += 8 if k == "f8" else 4
        want = [[["i", item]], [["i", x] for x in offs], [["i", 0], ["i", item], ["i", 8]]]
        if o["t"] != "mat" or o["m"] != want:
            bad.append(("view_layout:itemsize-offsets-strides", f"{o} expected {want}"))
    vf = r.get("view_facts")
    if vf is not None:
        if vf.get("t") == "err":
            bad.append(("unstructured_view:raised", f"{vf}"))
        else:
            for k in ("shares", "addr_ok", "write_through", "write_local", "model_shares"):
                if k in vf and not vf[k]:
                    bad.append((f"unstructured_view:{k}", f"view fact {k} is false: {vf}"))
            if vf.get("owns"):
                bad.append(("unstructured_view:copy", f"the view owns its data: {vf}"))
    return bad


def direct_hist(c, r):
    bad = []
    for k, v in r["side"].items():
        if not v:
            bad.append((f"registry:{k}", f"registry operation had a side effect: {k} is false"))
    if not r["reset_clean"]:
        bad.append(("registry:reset-incomplete", "reset_extra_live_points_parameters left something registered"))
    if not c["valid"]:
        return bad
    if "error" in r:
        bad.append(("registry:history-raised", f"{r['error']}"))
        return bad
    k = 0
    for idx, op in enumerate(c["ops"]):
        if op["op"] != "read":
            continue
        ex = ref_extras(c["ops"][:idx])
        want = {"names": CORE + [e[0] for e in ex], "kinds": CORE_KINDS + ["f8"] * len(ex),
                "defs": CORE_DEFS + [["f", e[1]] for e in ex]}
        got = r["probes"][k] if k < len(r["probes"]) else None
        k += 1
        if got is None:
            bad.append(("registry:probe-missing", "probe missing"))
            break
        for key in ("names", "kinds", "defs"):
            if got[key] != want[key]:
                bad.append((f"registry:{key}", f"after {c['ops'][:idx]}: non-sampling {key} = {got[key]} expected {want[key]}"))
    ex = ref_extras(c["ops"])
    fin = r["final"]
    want_names = list(c["names"]) + CORE + [e[0] for e in ex]
    want_row = [["f", NAN]] * len(c["names"]) + CORE_DEFS + [["f", e[1]] for e in ex]
    if fin["t"] != "arr" or fin["names"] != want_names or fin["rows"] != [want_row]:
        bad.append(("registry:new-array", f"array built after the history: {fin} expected {want_names} {want_row}"))
    return bad


def direct_staged(c, r):
    """after every operation every converter agrees, by name, with what the registry holds NOW"""
    bad = []
    for k, st in enumerate(r["steps"]):
        if st.get("op_error"):
            bad.append(("registry:history-raised", f"operation {k} {c['ops'][k]} raised {st['op_error']}"))
            continue
        sub = {"names": c["names"], "nsp": c["nsp"], "data": c["data"], "hist": c["ops"][: k + 1]}
        for key, what in direct_conv(sub, {"clean_start": True, "obs": st["obs"]}):
            bad.append((key + ":after-history", f"after {c['ops'][: k + 1]}: {what}"))
    return bad


def direct_preset(c, r):
    out = []
    for b in r["bad"]:
        cat = b["what"].split(":")[0] + ":" + b["what"].split(":")[1].strip().split(" ")[0]
        out.append((f"registry:non-default-config:{cat}",
                    f"configuration {c['preset']} then {c['ops'][: b['step'] + 1]} (after {b['after']}): {b['what']}"))
    return out


# ---------------------------------------------------------------------------------------------
# Coq literals
def cV(v):
    t, x = v
    x = int(x)
    if t == "f":
        return f"f {x}"
    return f"i {x}" if x >= 0 else f"i ({x})"


def cRow(row):
    return cL(cV(v) for v in row)


def cKind(k):
    return {"f8": "F8", "i4": "I4"}.get(k)


def cObs(o):
    if o is None or o["t"] in ("err",):
        return "OErr"
    if o["t"] == "arr":
        ks = [cKind(k) for k in o["kinds"]]
        if any(k is None for k in ks):
            return None
        return f"OArr {cL(map(cStr, o['names']))} {cL(ks)} {cL(cRow(r) for r in o['rows'])}"
    if o["t"] == "mat":
        return f"OMat {cL(cRow(r) for r in o['m'])}"
    if o["t"] == "dict":
        return "ODict " + cL(f"({cStr(k)}, {cRow(v)})" for k, v, _ in o["d"])
    return None


def cOp(op):
    if op["op"] == "reset":
        return "RReset"
    if op["op"] == "read":
        return "RRead"
    dv = "None" if op["dv"] is None else "(Some " + cL(cV(["f", dv_bits(v)]) for v in op["dv"]) + ")"
    return f"RAdd {cL(map(cStr, op['ps']))} {dv}"


def cCase(c, r):
    uniq, refs, unencodable = [], [], []
    for cid, o in sorted(((int(k), v) for k, v in r["obs"].items())):
        t = cObs(o)
        if t is None:
            unencodable.append(cid)
            continue
        if t not in uniq:
            uniq.append(t)
        refs.append(f"({cid}%nat, {uniq.index(t)}%nat)")
    dx = []
    for k, v in c.get("dx") or []:
        dx.append(f"({cStr(k)}, " + (f"DScalar ({cV(['f', canon(v['s'])])})" if "s" in v
                                      else f"DSeq {cRow([['f', canon(b)] for b in v['l']])}") + ")")
    data = cL(cRow([["f", canon(b)] for b in row]) for row in c["data"])
    txt = ("{| c_hist := " + cL(cOp(o) for o in c["hist"]) + "; c_names := " + cL(map(cStr, c["names"]))
           + "; c_nsp := " + cB(c["nsp"]) + "; c_data := " + data + "; c_dx := " + cL(dx)
           + "; c_vnames := " + cL(map(cStr, c.get("vnames") or []))
           + "; c_qnames := " + cL(map(cStr, c.get("qnames") or []))
           + "; c_dnames := " + cL(map(cStr, c.get("dnames") or []))
           + "; c_fields := " + cL(f"({cStr(k)}, {cKind(kd)})" for k, kd in (c.get("fields") or []))
           + ";\n   c_uniq := " + cL(uniq)
           + "; c_refs := " + cL(refs) + " |}")
    return txt, unencodable


def cStaged(c, r):
    base = {"hist": [], "names": c["names"], "nsp": c["nsp"], "data": c["data"]}
    txt, _ = cCase(base, {"obs": {}})
    steps = []
    for op, st in zip(c["ops"], r["steps"]):
        uniq, refs = [], []
        for cid, o in sorted(((int(k), v) for k, v in st["obs"].items())):
            t = cObs(o)
            if t is None:
                return None
            if t not in uniq:
                uniq.append(t)
            refs.append(f"({cid}%nat, {uniq.index(t)}%nat)")
        steps.append(f"({cOp(op)}, {cL(uniq)}, {cL(refs)})")
    return f"({txt}, {cL(steps)})"


def cHist(c, r):
    pr = []
    for p in r["probes"]:
        ks = [cKind(k) for k in p["kinds"]]
        if p["defs"] is None or any(k is None for k in ks):
            return None
        pr.append(f"({cL(map(cStr, p['names']))}, {cRow(p['defs'])}, {cL(ks)})")
    return f"({cL(cOp(o) for o in c['ops'])}, {cL(pr)})"


CASE_HEADER = (common.COQ_HEADER + "From NessaiV Require Import Model.C18_Livepoint Run.C18_run.\n"
               "Open Scope string_scope.\nOpen Scope Z_scope.\n")


# ---------------------------------------------------------------------------------------------
def translate(chk):
    try:
        import c18_config
        from pyast import Declined
    except ImportError as e:
        chk.translator = {"LivepointsConfig": f"translator missing: {e}"}
        return None
    try:
        sk, info = c18_config.skeleton()
        chk.translator = dict(info, LivepointsConfig="translated")
        return sk
    except Declined as e:
        chk.translator = {"LivepointsConfig": f"declined: {e}"}
        return None


def today(chk, sk):
    txt = common.COQ_HEADER + ("From NessaiV Require Import Model.C18_Livepoint Proofs.C18_Livepoint_proofs.\n"
                               "Open Scope string_scope.\nOpen Scope Z_scope.\n")
    txt += f"Definition sk_now : cfg_sk := {sk}.\n"
    txt += "Lemma today : cfg_ok sk_now = true.\nProof. vm_compute. reflexivity. Qed.\n"
    txt += ("Lemma today_property : forall ops, registry_spec sk_now ops.\n"
            "Proof. exact (cfg_ok_sound sk_now today). Qed.\n"
            "Lemma today_any_config : forall ops, registry_spec_gen sk_now ops.\n"
            "Proof. exact (registry_gen sk_now (cfg_ok_struct sk_now today)). Qed.\n")
    ok, _, err = chk.coq_run("today_config", txt)
    chk.oblige("today: cfg_ok sk_now = true (LivepointsConfig fields, cached properties, reset, "
               "add_extra_parameters_to_live_points regenerated from the source) + instantiated soundness",
               "today", ok, err)


def run_impl(chk, cases, timeout=600):
    rc, out, err = chk.child("c18_child.py", timeout=timeout, inp=json.dumps(cases))
    if rc != 0:
        chk.oblige("implementation child ran", "harness", False, (err or "")[-1500:])
        return None
    return json.loads(out)


def run(chk):
    chk.rule = ("conversion cases: 1..20 distinct identifiers (ASCII, unicode, near-collisions with core fields), "
                "n in {0,1,2,3,5[,8,17]} points, values from a 16-element special alphabet (NaN, NaN payloads, +-inf, "
                "+-0, extremes, subnormals) mixed with random floats, with and without non-sampling fields, after a "
                "random registry history (add with/without defaults, duplicates, reset, reads); all converters, both "
                "directions, generic and Model unstructured views; registry histories with probes after every "
                "operation; a malformed stream (duplicate names, collisions, wrong widths, default lists of the "
                "wrong length); non-trivial = at least one point and (a registered extra field or a non-finite / "
                "signed-zero value); distinct by full case description")
    chk.assumptions += [
        "numpy structured dtypes are packed in field order (offsets validated against x.dtype.fields every run)",
        "numpy semantics of np.array(list of tuples, dtype=structured), field assignment broadcasting, "
        "structured_to_unstructured and ndarray(buffer=, strides=).view((f8, k)) as modelled in "
        "Model/C18_Livepoint.v (validated by the correspondence each run)",
        "float64 values are identified by their bit pattern with all NaNs identified (harness/c18.py canon, c18_child.py f2b)",
        "pandas.DataFrame(dict of columns).values returns the columns in dictionary order",
    ]
    chk.static_props(["C18"], ["C18_run"])
    sk = translate(chk)
    if sk is not None:
        today(chk, sk)
    sk_term = "sk_now" if sk is not None else "cfg_today"
    conv, hist, staged, preset = gen_cases(chk)
    res = run_impl(chk, conv + hist + staged + preset)
    if res is None:
        return
    rconv, rhist = res[: len(conv)], res[len(conv): len(conv) + len(hist)]
    rstaged = res[len(conv) + len(hist): len(conv) + len(hist) + len(staged)]
    rpreset = res[len(conv) + len(hist) + len(staged):]
    chk.evaluations = sum(len(r.get("obs", {})) for r in rconv) + sum(len(r["probes"]) for r in rhist)
    # ---- direct predicate ---------------------------------------------------------------------
    for c, r in zip(conv, rconv):
        chk.count(f"conv:n={len(c['data'])}")
        chk.count(f"conv:d={'1' if len(c['names']) == 1 else '2-6' if len(c['names']) <= 6 else '7-20'}")
        chk.count("conv:nsp" if c["nsp"] else "conv:params-only")
        chk.count("conv:optional-arguments-" + ("at-defaults" if c.get("defaults") else "explicit"))
        chk.count("conv:valid" if c["valid"] else "conv:malformed:" + c["why"])
        ex = ref_extras(c["hist"])
        chk.count(f"conv:extras={min(len(ex), 3)}{'+' if len(ex) >= 3 else ''}")
        special = any(canon(b) in (NAN, fbits(float('inf')), fbits(float('-inf')), fbits(-0.0))
                      for row in c["data"] for b in row)
        if c["valid"] and c["data"] and (ex or special):
            chk.nontriv(c)
        if c["valid"]:
            for key, what in direct_conv(c, r):
                chk.fail(f"C18:{key}", what, {"case": c, "observed": r, "failure": what})
    for c, r in zip(hist, rhist):
        chk.count("hist:valid" if c["valid"] else "hist:malformed")
        chk.count(f"hist:ops={min(len(c['ops']), 8)}")
        if len(ref_extras(c["ops"])) >= 1 and any(o["op"] == "reset" for o in c["ops"]):
            chk.nontriv(c)
        for key, what in direct_hist(c, r):
            chk.fail(f"C18:{key}", what, {"case": c, "observed": r, "failure": what})
    for c, r in zip(staged, rstaged):
        chk.count("staged:ops=" + str(len(c["ops"])))
        chk.evaluations += sum(len(st["obs"]) for st in r["steps"])
        ex_seen = {}
        for k in range(len(c["ops"])):
            for nm, d in ref_extras(c["ops"][: k + 1]):
                ex_seen.setdefault(nm, set()).add(d)
        if any(len(v) > 1 for v in ex_seen.values()):
            chk.count("staged:same-extra-name-re-registered-with-another-default")
            chk.nontriv(c)
        for key, what in direct_staged(c, r):
            chk.fail(f"C18:{key}", what, {"case": c, "observed": r, "failure": what})
    for c, r in zip(preset, rpreset):
        chk.count("preset:" + "+".join(sorted(c["preset"])))
        chk.evaluations += 1 + len(c["ops"])
        chk.nontriv(c)
        for key, what in direct_preset(c, r):
            chk.fail(f"C18:{key}", what, {"case": c, "observed": r, "failure": what})
    # ---- correspondence inside Coq -------------------------------------------------------------
    hdr = CASE_HEADER + (f"Definition sk_now : cfg_sk := {sk}.\n" if sk is not None else "")
    lits, unenc = [], 0
    for c, r in zip(conv, rconv):
        t, u = cCase(c, r)
        unenc += len(u)
        lits.append(t)
    shard = 60
    bad_conv, ok_all, errs = [], True, ""
    for s in range(0, len(lits), shard):
        txt = hdr + "Definition cases : list ccase := [\n" + ";\n".join(lits[s:s + shard]) + "].\n"
        txt += f"Eval vm_compute in (mism_conv {sk_term} 0 cases).\n"
        ok, evals, err = chk.coq_run(f"conv_{s // shard}", txt)
        if not ok or len(evals) != 1:
            ok_all, errs = False, err
            break
        bad_conv += [(s + v // 64, v % 64) for v in common.parse_nat_list(evals[0])]
    detail = errs
    if bad_conv:
        k, cid = bad_conv[0]
        from collections import Counter
        chk.notes.append("disagreements by converter: " + str(Counter(CONV.get(cid, cid) for _, cid in bad_conv)))
        detail = (f"{len(bad_conv)} disagreements; first: case {k} converter {CONV.get(cid, cid)} "
                  f"observed {json.dumps(rconv[k]['obs'].get(str(cid)))[:600]} case {json.dumps(conv[k])[:900]}")
    chk.oblige(f"correspondence: every converter / round trip / view of the real code = model "
               f"({len(conv)} cases, {sum(len(r.get('obs', {})) for r in rconv)} observations)",
               "correspondence", ok_all and not bad_conv and unenc == 0,
               detail + (f"; {unenc} observations with a dtype outside f8/i4" if unenc else ""))
    sl = [cStaged(c, r) for c, r in zip(staged, rstaged)]
    txt = hdr + ("Definition staged : list (ccase * list (rop * list obs * list (nat * nat))) := [\n"
                 + ";\n".join(t for t in sl if t is not None) + "].\n")
    txt += f"Eval vm_compute in (mism (chk_staged {sk_term}) staged).\n"
    ok, evals, err = chk.coq_run("staged", txt)
    bad = common.parse_nat_list(evals[0]) if ok and len(evals) == 1 else []
    kept = [k for k, t in enumerate(sl) if t is not None]
    chk.oblige(f"correspondence: every converter after EVERY operation of a registry history = model "
               f"({len(staged)} staged cases)", "correspondence", ok and not bad and len(kept) == len(sl),
               err + "; ".join(json.dumps(staged[kept[k]])[:700] for k in bad[:2]))
    hl = [cHist(c, r) for c, r in zip(hist, rhist)]
    none = [k for k, t in enumerate(hl) if t is None]
    txt = hdr + "Definition hists : list (list rop * list (list string * list val * list kind)) := [\n" + ";\n".join(t for t in hl if t is not None) + "].\n"
    txt += f"Eval vm_compute in (mism (chk_hist {sk_term}) hists).\n"
    ok, evals, err = chk.coq_run("hist", txt)
    bad = common.parse_nat_list(evals[0]) if ok and len(evals) == 1 else []
    kept = [k for k, t in enumerate(hl) if t is not None]
    chk.oblige(f"correspondence: registry lists visible after every operation of a history = model ({len(hist)} histories)",
               "correspondence", ok and not bad and not none,
               err + "; ".join(json.dumps(hist[kept[k]])[:500] + " -> " + json.dumps(rhist[kept[k]]["probes"])[:500]
                               for k in bad[:3]) + (f"; unencodable: {none[:5]}" if none else ""))
    chk.traces = len(conv) + len(hist)
    chk.oracle_validations = sum(1 for r in rconv if "21" in r.get("obs", {}))
    for c, r in list(zip(conv, rconv))[:: max(1, len(conv) // 4)]:
        chk.sample({"case": {k: v for k, v in c.items() if k != "data"}, "n": len(c["data"]),
                    "observed_converters": sorted(int(k) for k in r.get("obs", {}))})


def replay(data):
    rp = data["replay"]
    c = rp["case"]
    r = subprocess.run(["timeout", "120", common.PY, os.path.join(common.VERIF, "harness", "c18_child.py")],
                       input=json.dumps([c]), capture_output=True, text=True, env=common.child_env())
    res = json.loads(r.stdout)[0]
    bad = {"conv": direct_conv, "staged": direct_staged, "preset": direct_preset}.get(c["kind"], direct_hist)(c, res)
    print(json.dumps({"case": c, "failures": bad}, indent=1)[:4000])
    if bad:
        print(f"VIOLATION property={PID} replay=(replayed) {bad[0][1][:300]}")
        return 1
    return 0
