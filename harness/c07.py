"""C07: reparameterisations are exact bijections with consistent Jacobians and priors.

Static part: Props/C07.v (certified maps over R, composition, update, polar / spherical determinants,
prime priors, enclosure theorems of the interval twin).
Tie A: translator/c07_registry.py regenerates the registry (name -> class, kwargs) and the constructor option
matrix from the source; every registered name / keyword must have a model instance here (else: unclassified).
Tie B: the real objects (through FlowProposal.rescale / inverse_rescale) on ladders of points approaching
every bound; the four outputs are decided INSIDE Coq against interval enclosures of the model.
Direct predicate: round trip, log_j + log_j_inv = 0, non-sampling fields, prime prior support."""
import json
import math
import os
import subprocess
import sys

import common
from common import cB, cL, cN, cZ

sys.path.insert(0, common.VERIF + "/translator")

PID = "C07"
KN = 8            # neighbour distance (ulps of the box scale) used to bound the conditioning of log_j
KRT = 2.0 ** 14   # round-trip tolerance in ulps of the box scale
TA, TR = 1e-12, 1e-12
PI = math.pi
NONSAMPLING = ("logP", "logL", "it")


# --------------------------------------------------------------------------- Coq literals
def dy(x):
    m, e = common.float_dyadic(x)
    return f"({cZ(m)}, {cZ(e)})"


def flc(x):
    x = float(x)
    return "None" if (x != x or x in (math.inf, -math.inf)) else f"(Some {dy(x)})"


def Kd(x):
    m, e = common.float_dyadic(x)
    return f"(K {cZ(m)} {cZ(e)})"


class Unclassified(Exception):
    pass


# --------------------------------------------------------------------------- the model instance of a block
PRE = {None: "PreNone", "log": "PreLog", "exp": "PreExp", "logit": "PreLogit"}
POST = {None: "PostNone", "logit": "PostLogit", "log": "PostLog", "exp": "PostExp"}
RTB_KEYS = {"prior", "rescale_bounds", "boundary_inversion", "detect_edges", "inversion_type",
            "detect_edges_kwargs", "offset", "update_bounds", "pre_rescaling", "post_rescaling"}
DIST_KEYS = RTB_KEYS | {"allowed_bounds", "allow_both", "converter_kwargs"}


def rtb_inversion_for(kw, p):
    bi = kw.get("boundary_inversion")
    if bi is None or bi is False:
        return None
    if bi is True:
        return kw.get("inversion_type", "split")
    if isinstance(bi, list):
        return kw.get("inversion_type", "split") if p in bi else None
    if isinstance(bi, dict):
        return bi.get(p)
    raise Unclassified(f"boundary_inversion={bi!r}")


def rtb_updates(kw):
    return True if kw.get("detect_edges", False) else bool(kw.get("update_bounds", True))


def rtb_block(kw, p, bounds, edge, upd, pre_power=None):
    """Coq term of type block for one RescaleToBounds parameter.  edge: None (no inversion for p), False, 'lower', 'upper'."""
    unknown = set(kw) - DIST_KEYS
    if unknown:
        raise Unclassified(f"RescaleToBounds keyword(s) {sorted(unknown)}")
    pre, post = kw.get("pre_rescaling"), kw.get("post_rescaling")
    if pre_power is not None:
        pre_t = f"(PrePower {dy(pre_power[0])} {dy(pre_power[1])})"
    elif pre in PRE:
        pre_t = PRE[pre]
    else:
        raise Unclassified(f"pre_rescaling={pre!r}")
    if post not in POST:
        raise Unclassified(f"post_rescaling={post!r}")
    inv = rtb_inversion_for(kw, p)
    rb = kw.get("rescale_bounds")
    if isinstance(rb, dict):
        rb = rb[p]
    if rb is None:
        rb = [-1, 1]
    if post in ("logit", "log") or inv:
        rb = [0, 1]
    if inv is None:
        inv_t = "InvOff"
    else:
        inv_t = {False: "InvNoEdge", None: "InvNoEdge", "lower": "InvLower", "upper": "InvUpper"}[edge]
    upd_t = "None"
    if upd is not None and rtb_updates(kw):
        upd_t = f"(Some ({dy(upd[0])}, {dy(upd[1])}))"
    rec = (f"{{| r_pre := {pre_t}; r_post := {POST[post]}; r_inv := {inv_t}; r_offset := {cB(bool(kw.get('offset', False)))}; "
           f"r_a := {dy(bounds[0])}; r_b := {dy(bounds[1])}; r_lo := {dy(rb[0])}; r_hi := {dy(rb[1])}; r_upd := {upd_t} |}}")
    return rec


def mean_std_exprs(data):
    """np.mean / np.std of the update data as model expressions (reals; roundings marked)."""
    n = len(data)
    s = Kd(data[0])
    for v in data[1:]:
        s = f"(Rnd (Add {s} {Kd(v)}))"
    mean = f"(Rnd (Div {s} {Kd(float(n))}))"
    sq = None
    for v in data:
        d = f"(Rnd (Sub {Kd(v)} {mean}))"
        t = f"(Rnd (Mul {d} {d}))"
        sq = t if sq is None else f"(Rnd (Add {sq} {t}))"
    std = f"(Rnd (Sqrt (Rnd (Div {sq} {Kd(float(n))}))))"
    return mean, std


# --------------------------------------------------------------------------- point ladders
def nextafter(x, y):
    return math.nextafter(x, y)


def ladder(a, b, tier, rng):
    """interior points approaching each bound on a log-spaced ladder down to 1 ulp, the bounds, interior."""
    w = b - a
    ks = (1, 4, 8, 12, 16) if tier == "quick" else tuple(range(1, 18))
    pts = [a, b, a + w / 2, a + w * 0.3183098861837907, a + w * 0.7071067811865476]
    for k in ks:
        pts.append(a + w * 10.0 ** (-k))
        pts.append(b - w * 10.0 ** (-k))
    x, y = a, b
    for i in range(1, 6):
        x, y = nextafter(x, b), nextafter(y, a)
        if i in (1, 2, 5):
            pts += [x, y]
    for _ in range(2 if tier == "quick" else 8):
        pts.append(a + w * rng.random())
    out, seen = [], set()
    for p in pts:
        p = min(max(p, a), b)
        if p not in seen:
            seen.add(p)
            out.append(p)
    return out


def box_u(a, b):
    return 2.0 ** -52 * max(abs(a), abs(b))


# --------------------------------------------------------------------------- configurations
BOUNDS = [(0.0, 1.0), (-3.7, 12.9), (1e-3, 250.0), (1e5, 100001.0), (-2.0e-9, 3.5e-9)]


def data_for(a, b, rng, n=7):
    lo = a + (b - a) * (0.05 + 0.25 * rng.random())
    hi = b - (b - a) * (0.05 + 0.25 * rng.random())
    pts = [lo, hi] + [lo + (hi - lo) * rng.random() for _ in range(n - 2)]
    rng.shuffle(pts)
    return pts


def make_cfg(names, bounds, reps, points, gw=False, **kw):
    c = {"names": names, "bounds": {n: list(b) for n, b in bounds.items()}, "reparameterisations": reps,
         "points": points, "gw": gw}
    c.update(kw)
    return c


def one_param_configs(name, extra, bounds, chk, gw=False, tests=(None,), with_update=True, tag=""):
    """Configs with parameter 'x' under registered name `name` (+ overrides), 'y' left to the Null fallback."""
    rng = chk.rng
    out = []
    a, b = bounds
    xs = ladder(a, b, chk.tier, rng)
    ys = [0.1 + 0.8 * rng.random() for _ in xs]
    pts = [[x, y] for x, y in zip(xs, ys)]
    rep = {"x": dict({"reparameterisation": name}, **extra)} if (name is not None or extra) else {"x": None}
    upd_opts = [None]
    if with_update:
        d = data_for(a, b, rng)
        upd_opts.append([[v, 0.2 + 0.6 * rng.random()] for v in d])
    for upd in upd_opts:
        for t in tests:
            c = make_cfg(["x", "y"], {"x": bounds, "y": (0.0, 1.0)}, rep, pts, gw=gw, update=upd)
            if t != "detect":
                c["test"] = t
                c["neighbours"] = neighbours(c)
            w = b - a
            outs = []
            if t != "lower":
                outs += [[a - 1e-3 * w, 0.5], [a - 0.37 * w, 0.5]]
            if t != "upper":
                outs += [[b + 1e-3 * w, 0.5], [b + 0.37 * w, 0.5]]
            if a > 0:
                outs = [o for o in outs if o[0] > 0] + ([[a * 0.5, 0.5]] if t != "lower" else [])
            if len(outs) == 1:
                outs = outs * 2
            if t != "detect":
                c["outside"] = outs
                if extra.get("prior") == "uniform":
                    c["prime_probe_auto"] = True
            c["label"] = f"{'gw:' if gw else ''}{name}{tag}|{json.dumps(extra, sort_keys=True)}|b={bounds}|upd={'y' if upd else 'n'}|test={t}"
            out.append(c)
    return out


def neighbours(c):
    """points shifted by -KN u and +KN u in every sampling coordinate (clipped to the box)."""
    lo, hi = [], []
    for row in c["points"]:
        l, h = [], []
        for n, v in zip(c["names"], row):
            a, b = c["bounds"][n]
            d = KN * box_u(a, b)
            l.append(max(a, v - d))
            h.append(min(b, v + d))
        lo.append(l)
        hi.append(h)
    return [lo, hi]


RTB_VARIATIONS = [
    {}, {"prior": "uniform"}, {"rescale_bounds": [0.0, 1.0]}, {"rescale_bounds": [-2.5, 4.0]}, {"offset": True},
    {"update_bounds": False}, {"offset": True, "prior": "uniform"}, {"post_rescaling": "exp"},
    {"post_rescaling": "logit", "update_bounds": False}, {"post_rescaling": "log", "update_bounds": False},
    {"post_rescaling": "logit", "update_bounds": False, "offset": True},
    {"boundary_inversion": True}, {"boundary_inversion": True, "inversion_type": "duplicate"},
    {"boundary_inversion": ["x"], "offset": True}, {"boundary_inversion": {"x": "duplicate"}, "prior": "uniform"},
    {"boundary_inversion": True, "detect_edges": True, "prior": "uniform"},
    {"boundary_inversion": True, "detect_edges": True, "detect_edges_kwargs": {"cutoff": 0.3}},
    {"boundary_inversion": False, "prior": "uniform", "rescale_bounds": [-2.5, 4.0]},
]
RTB_REJECT = [
    {"post_rescaling": "logit"}, {"post_rescaling": "log", "update_bounds": True}, {"detect_edges": True},
    {"post_rescaling": "nope"}, {"pre_rescaling": "nope"}, {"rescale_bounds": 3}, {"boundary_inversion": "yes"},
    {"rescale_bounds": {"z": [0, 1]}},
]


def predicted_reject(cls, kw):
    """Which option combinations the constructors must refuse (model of the guards)."""
    if cls in ("RescaleToBounds", "DistanceReparameterisation"):
        upd = rtb_updates(kw)
        if kw.get("post_rescaling") in ("logit", "log") and upd:
            return True
        if kw.get("detect_edges") and not kw.get("boundary_inversion"):
            return True
        if kw.get("post_rescaling") not in POST or kw.get("pre_rescaling") not in PRE:
            return True
        rb = kw.get("rescale_bounds")
        if rb is not None and not isinstance(rb, (list, dict)):
            return True
        if isinstance(rb, dict) and "x" not in rb:
            return True
        bi = kw.get("boundary_inversion")
        if bi is not None and not isinstance(bi, (list, dict, bool)):
            return True
    if cls in ("ScaleAndShift", "Rescale"):
        if kw.get("scale") is None and not kw.get("estimate_scale"):
            return True
    if cls == "ToCartesian" and kw.get("mode", "split") not in ("duplicate", "split", "half"):
        return True
    return False


def gen_configs(chk, reg):
    """All configurations of this run: list of child configs (with 'label', 'expect')."""
    rng = chk.rng
    quick = chk.tier == "quick"
    cfgs = []
    general = reg["default_reparameterisations"]
    gwreg = reg["default_gw"]
    unclassified = []

    def add(cs, cls, kw):
        for c in cs:
            c["expect_reject"] = predicted_reject(cls, kw) or bool(c.get("force_reject"))
            c["cls"] = cls
            cfgs.append(c)

    for gw, table in ((False, general), (True, gwreg)):
        for name, (cls, kw0) in table.items():
            rname = None if name == "None" else name
            if cls == "RescaleToBounds":
                variations = RTB_VARIATIONS if (name in ("default", "mass") or not quick) else [{}]
                if quick and name == "default":
                    variations = RTB_VARIATIONS
                for var in variations:
                    kw = dict(kw0, **var)
                    inv = rtb_inversion_for(kw, "x") if not predicted_reject(cls, kw) else None
                    tests = ("lower", "upper", False, "detect") if inv else (None,)
                    if quick and inv and var:
                        tests = ("lower", "upper", False) if var == {"boundary_inversion": True} else (("lower", "detect") if "detect_edges" in var else ("upper", False))
                    bsets = BOUNDS if (not var or (not quick and name == "default")) else [BOUNDS[rng.randrange(3)] if not quick else BOUNDS[1]]
                    if quick and not var:
                        if name in ("default", "logit"):
                            bsets = BOUNDS
                        elif name == "inversion":
                            bsets = BOUNDS[:2] + [BOUNDS[3]]
                        elif name in ("offset", "log-rescale", "inversion-duplicate", "time", "mass_ratio"):
                            bsets = [BOUNDS[1], BOUNDS[[0, 2, 3, 4][rng.randrange(4)]]]
                        else:
                            bsets = [BOUNDS[rng.randrange(len(BOUNDS))]]
                    for b in bsets:
                        add(one_param_configs(rname, var, b, chk, gw=gw, tests=tests, with_update=rtb_updates(kw)), cls, kw)
                if name == "default":
                    for var in RTB_REJECT:
                        add(one_param_configs(rname, var, BOUNDS[1], chk, gw=gw, with_update=False), cls, dict(kw0, **var))
                    for pre, b in (("log", (1e-3, 250.0)), ("exp", (-3.7, 2.9)), ("logit", (0.1, 0.9))):
                        for var in (({}, {"boundary_inversion": True}, {"post_rescaling": "logit", "update_bounds": False}) if quick else
                                    ({}, {"offset": True}, {"boundary_inversion": True}, {"post_rescaling": "logit", "update_bounds": False})):
                            v = dict(var, pre_rescaling=pre)
                            kw = dict(kw0, **v)
                            tests = ("lower", "upper", False) if rtb_inversion_for(kw, "x") else (None,)
                            add(one_param_configs(rname, v, b, chk, gw=gw, tests=tests, with_update=rtb_updates(kw)), cls, kw)
            elif cls in ("ScaleAndShift", "Rescale"):
                vars_ = [{"scale": 2.5}, {"scale": 2.5, "shift": 1.5}, {"scale": -0.75, "shift": -2.0}, {"scale": [4.0]},
                         {"scale": {"x": 0.125}, "shift": {"x": 3.0}}, {"estimate_scale": True}, {"estimate_shift": True, "scale": 3.0},
                         {"estimate_scale": True, "estimate_shift": True}, {"estimate_scale": True, "shift": 0.5}, {}]
                if quick and name not in ("scale", "zscore", "scaleandshift"):
                    vars_ = [{"scale": 2.5, "shift": 1.5}, {}]
                for var in vars_:
                    kw = dict(kw0, **var)
                    for b in ([BOUNDS[1]] if quick else BOUNDS[:3]):
                        add(one_param_configs(rname, var, b, chk, gw=gw,
                                              with_update=bool(kw.get("estimate_scale") or kw.get("estimate_shift"))), cls, kw)
            elif cls == "NullReparameterisation":
                add(one_param_configs(rname, {}, BOUNDS[1], chk, gw=gw, with_update=not quick), cls, kw0)
            elif cls in ("Angle", "ToCartesian", "AnglePair", "DistanceReparameterisation", "DeltaPhaseReparameterisation"):
                cs = special_configs(name, rname, cls, kw0, chk, gw)
                if cs is None:
                    unclassified.append(f"{name} -> {cls}")
                else:
                    for c, kw in cs:
                        add([c], cls, kw)
            else:
                unclassified.append(f"{name} -> {cls}")
    for c, kw in multi_rtb_configs(chk):
        c["expect_reject"] = predicted_reject("RescaleToBounds", kw)
        c["cls"] = "RescaleToBounds"
        cfgs.append(c)
    for c, cls in combined_configs(chk) + regression_configs(chk):
        c["expect_reject"] = False
        c["cls"] = cls
        cfgs.append(c)
    return cfgs, unclassified


def multi_rtb_configs(chk):
    """ONE RescaleToBounds over two parameters: boundary inversion on all / some / none of them (bool, list, dict)
    x rescale bounds (default, list, per-parameter dict) x prior='uniform' x offset, before and after update(),
    every edge.  The prime-prior bounds of EVERY parameter are decided against the model and the prime prior is
    probed in prime space (non-zero exactly when the pre-image lies in the prior box)."""
    rng = chk.rng
    quick = chk.tier == "quick"
    names = ["x", "z", "y"]
    out = []
    bis = [["x"], {"z": "duplicate"}, {"x": "split"}, None, True]
    rbs = [None, [0.0, 1.0], [-2.0, 5.0], {"x": [0.0, 1.0], "z": [-2.5, 4.0]}]
    combos = []
    for bi in bis:
        for rb in rbs:
            for off in (False, True):
                for prior in ("uniform", None):
                    combos.append((bi, rb, off, prior))
    if quick:
        keep = [c for c in combos if c[3] == "uniform" and isinstance(c[0], (list, dict)) and c[1] is not None and not c[2]]
        keep += [(["x"], None, True, "uniform"), (None, [0.0, 1.0], False, "uniform"), (True, [-2.0, 5.0], False, "uniform"),
                 (["x"], [0.0, 1.0], True, None)]
        combos = keep
    for k, (bi, rb, off, prior) in enumerate(combos):
        for name in (("default",) if quick else ("default", "offset")):
            extra = {}
            if bi is not None:
                extra["boundary_inversion"] = bi
            if rb is not None:
                extra["rescale_bounds"] = rb
            if off:
                extra["offset"] = True
            if prior:
                extra["prior"] = prior
            bounds = {"x": (-3.7, 12.9), "z": [(1e-3, 250.0), (0.0, 1.0), (1e5, 100001.0)][k % 3], "y": (0.0, 1.0)}
            reps = {name: dict({"parameters": ["x", "z"]}, **extra)}
            any_inv = bool(bi)
            tests = ("lower", "upper", False) if any_inv else (None,)
            if quick and any_inv:
                tests = (("lower", "upper", False)[k % 3],)
            for upd in (False, True):
                for t in tests:
                    pts = _pts_for(names, bounds, chk, per_axis=("x", "z"))
                    c = make_cfg(names, bounds, reps, pts, test=t)
                    if upd:
                        c["update"] = [[bounds[n][0] + (bounds[n][1] - bounds[n][0]) * (0.08 + 0.84 * rng.random()) for n in names]
                                       for _ in range(7)]
                    c["neighbours"] = neighbours(c)
                    outs = []
                    for n in ("x", "z"):
                        a, b = bounds[n]
                        w = b - a
                        inv_n = (bi is True) or (isinstance(bi, (list, dict)) and n in bi)
                        mid = {m: bounds[m][0] + 0.41 * (bounds[m][1] - bounds[m][0]) for m in names}
                        if not (inv_n and t == "lower"):
                            outs += [dict(mid, **{n: a - 1e-3 * w}), dict(mid, **{n: a - 0.37 * w})]
                        if not (inv_n and t == "upper"):
                            outs += [dict(mid, **{n: b + 1e-3 * w}), dict(mid, **{n: b + 0.37 * w})]
                    c["outside"] = [[o[m] for m in names] for o in outs]
                    if prior:
                        c["prime_probe_auto"] = True
                    c["label"] = f"multi:{name}|{json.dumps(extra, sort_keys=True)}|z={bounds['z']}|upd={'y' if upd else 'n'}|test={t}"
                    out.append((c, dict(extra)))
    return out


def regression_configs(chk):
    """Small deterministic configurations that pin the inputs of the known findings and the single-point batch."""
    out = []
    # a batch of ONE point (length-1 array), with and without a duplicating inversion
    for name, t in (("default", None), ("logit", None), ("inversion", "lower"), ("inversion-duplicate", "upper"), ("angle", None)):
        b = (0.0, 2 * PI) if name == "angle" else (-3.7, 12.9)
        c = make_cfg(["x", "y"], {"x": b, "y": (0.0, 1.0)}, {"x": {"reparameterisation": name}}, [[b[0] + 0.3 * (b[1] - b[0]), 0.5]])
        if t is not None:
            c["test"] = t
        c["radii"] = [1.3]
        c["label"] = f"single-point batch|{name}|test={t}"
        out.append((c, "SinglePoint"))
    # explicit multi-character parameter name with estimate_scale / estimate_shift, used before any update()
    pts = [[-3.0 + k, 0.1 * k + 0.05] for k in range(6)]
    c = make_cfg(["x3", "y"], {"x3": (-3.7, 12.9), "y": (0.0, 1.0)}, {"x3": {"reparameterisation": "zscore"}}, pts)
    c["label"] = "zscore on parameter 'x3' given as a string, no update"
    out.append((c, "ScaleAndShift"))
    c = make_cfg(["x3", "y"], {"x3": (-3.7, 12.9), "y": (0.0, 1.0)}, {"x3": {"reparameterisation": "zscore"}}, pts,
                 update=[[0.5 * k, 0.5] for k in range(7)])
    c["label"] = "zscore on parameter 'x3' given as a string, after update"
    out.append((c, "ScaleAndShift"))
    # log / logit post-rescaling together with boundary inversion (accepted at construction)
    for t in ("lower", False):
        c = make_cfg(["x", "y"], {"x": (0.0, 1.0), "y": (0.0, 1.0)},
                     {"x": {"reparameterisation": "logit", "boundary_inversion": True}}, [[0.1 * k + 0.05, 0.5] for k in range(8)], test=t)
        c["label"] = f"logit + boundary_inversion|test={t}"
        out.append((c, "RescaleToBounds"))
    return out


def combined_configs(chk):
    """CombinedReparameterisation over several different blocks (log_j threaded through), forward and reversed
    order, and a GW proposal configured by its parameter-name aliases alone."""
    rng = chk.rng
    out = []
    menu = [
        ("logit", {}, (0.0, 1.0)), ("default", {"offset": True}, (-3.7, 12.9)), ("scale", {"scale": 2.5}, (-3.7, 12.9)),
        ("angle-2pi", {}, (0.0, 2 * PI)), ("log-rescale", {}, (1e-3, 250.0)), ("default", {"rescale_bounds": [0.0, 1.0]}, (1e5, 100001.0)),
        ("zscore", {}, (-3.7, 12.9)), ("to-cartesian", {"mode": "half"}, (0.0, 1.0)), ("offset", {"update_bounds": False}, (-2.0e-9, 3.5e-9)),
        (None, {}, (-3.7, 12.9)),
    ]
    n_cfg = 2 if chk.tier == "quick" else 24
    for k in range(n_cfg):
        picks = rng.sample(menu, 4)
        names = [f"x{j}" for j in range(4)]
        bounds = {n: b for n, (_, _, b) in zip(names, picks)}
        reps = {}
        for n, (nm, extra, _) in zip(names, picks):
            reps[n] = dict({"reparameterisation": nm}, **extra) if (nm is not None or extra) else None
        pts = _pts_for(names, bounds, chk)
        c = make_cfg(names, bounds, reps, pts, gw=False, reverse=bool(k % 2))
        c["radii"] = [0.05 + 3.0 * rng.random() for _ in pts]
        upd = []
        for _ in range(7):
            upd.append([bounds[n][0] + (bounds[n][1] - bounds[n][0]) * (0.1 + 0.8 * rng.random()) for n in names])
        if k % 3 != 2:
            c["update"] = upd
        c["periodic"] = {n: 2 * PI for n, (nm, _, _) in zip(names, picks) if nm == "angle-2pi"}
        c["label"] = f"combined#{k}|" + ",".join(str(nm) for nm, _, _ in picks) + f"|reverse={bool(k % 2)}|upd={'y' if k % 3 != 2 else 'n'}"
        out.append((c, "Combined"))
    # GW proposal, no explicit configuration: every block comes from GWFlowProposal.aliases
    names = ["chirp_mass", "mass_ratio", "ra", "dec", "psi", "theta_jn", "phase", "luminosity_distance", "geocent_time", "a_1", "zz"]
    bounds = {"chirp_mass": (25.0, 35.0), "mass_ratio": (0.125, 1.0), "ra": (0.0, 2 * PI), "dec": (-PI / 2, PI / 2),
              "psi": (0.0, PI), "theta_jn": (0.0, PI), "phase": (0.0, 2 * PI), "luminosity_distance": (100.0, 5000.0),
              "geocent_time": (1126259462.3, 1126259462.5), "a_1": (0.0, 0.99), "zz": (-1.0, 1.0)}
    for t in (("upper",) if chk.tier == "quick" else ("upper", "lower", False)):
        pts = _pts_for(names, bounds, chk)
        c = make_cfg(names, bounds, None, pts, gw=True, test=t)
        c["radii"] = [0.05 + 3.0 * rng.random() for _ in pts]
        c["update"] = [[bounds[n][0] + (bounds[n][1] - bounds[n][0]) * (0.1 + 0.8 * rng.random()) for n in names] for _ in range(7)]
        c["periodic"] = {"ra": 2 * PI, "phase": 2 * PI, "psi": PI}
        mark_singular(c, poles="dec")
        c["label"] = f"gw:aliases|test={t}"
        out.append((c, "GWaliases"))
    return out


def _pts_for(names, bounds, chk, per_axis=None):
    """points for several parameters: every axis walks its own ladder (shuffled independently)."""
    rng = chk.rng
    cols = []
    for n in names:
        a, b = bounds[n]
        col = ladder(a, b, chk.tier, rng) if (per_axis is None or n in per_axis) else None
        cols.append(col)
    L = max(len(c) for c in cols if c is not None)
    out = []
    for k, n in enumerate(names):
        a, b = bounds[n]
        if cols[k] is None:
            cols[k] = [a + (b - a) * (0.05 + 0.9 * rng.random()) for _ in range(L)]
        else:
            col = cols[k]
            while len(col) < L:
                col.append(a + (b - a) * rng.random())
            if k:
                rng.shuffle(col)
    return [[cols[k][i] for k in range(len(names))] for i in range(L)]


ANGLE_BOUNDS = {
    "angle": [(0.0, 2 * PI), (-PI, PI), (0.0, PI), (-1.0, 2.0), (1.0, 5.5)],
    "angle-pi": [(0.0, PI), (-PI / 2, PI / 2)],
    "angle-2pi": [(0.0, 2 * PI), (-PI, PI)],
    "periodic": [(0.0, 2 * PI), (0.0, 1.0), (-3.0, 3.0), (1.0, 3.0), (-3.7, 12.9)],
}


def mark_singular(c, radial=None, poles=None):
    """rows excluded as singular: radius 0 (pole of polar coordinates) or below 1e-150 (its square underflows in
    float64), vertical angle within KN ulps of a pole of the sphere."""
    skip = []
    for i, row in enumerate(c["points"]):
        bad = False
        if radial is not None:
            v = row[c["names"].index(radial)]
            bad = bad or v < 1e-150
        if poles is not None:
            v = row[c["names"].index(poles)]
            a, b = c["bounds"][poles]
            bad = bad or (v - a <= KN * box_u(a, b)) or (b - v <= KN * box_u(a, b))
        if bad:
            skip.append(i)
    c["skip_rows"] = skip


def angle_scale(kw, b):
    sc = kw.get("scale", 1.0)
    return 2.0 * PI / (b[1] - b[0]) if sc is None else float(sc)


def special_configs(name, rname, cls, kw0, chk, gw):
    rng = chk.rng
    quick = chk.tier == "quick"
    out = []
    if cls == "Angle":
        for b in ANGLE_BOUNDS.get(name, [(0.0, 2 * PI)]):
            variants = [({}, False), ({}, True)]
            if name == "angle" and b == (0.0, PI):
                variants += [({"prior": "sine"}, False), ({"prior": "sine"}, True)]
            if not quick or name == "angle":
                variants += [({"prior": "uniform"}, False), ({"scale": 2.0}, False)] if name == "angle" else []
            for extra, radial in variants:
                kw = dict(kw0, **extra)
                sc = angle_scale(kw, b)
                if (b[1] - b[0]) * sc > 2 * PI * (1 + 1e-9):
                    continue   # more than one period: not an angle range for this scale
                if radial:
                    names = ["x", "r", "y"]
                    bounds = {"x": b, "r": (0.0, 5.0), "y": (0.0, 1.0)}
                    reps = {rname: dict({"parameters": ["x", "r"]}, **extra)}
                    pts = _pts_for(names, bounds, chk, per_axis=("x", "r"))
                else:
                    names = ["x", "y"]
                    bounds = {"x": b, "y": (0.0, 1.0)}
                    reps = {"x": dict({"reparameterisation": rname}, **extra)}
                    pts = _pts_for(names, bounds, chk, per_axis=("x",))
                c = make_cfg(names, bounds, reps, pts, gw=gw)
                c["radii"] = [0.05 + 3.0 * rng.random() for _ in pts]
                period = 2 * PI / sc
                if abs((b[1] - b[0]) - period) < 1e-9 * period:
                    c["periodic"] = {"x": period}
                c["neighbours"] = neighbours(c)
                if radial:
                    mark_singular(c, radial="r")
                c["label"] = f"{'gw:' if gw else ''}{name}|{json.dumps(extra, sort_keys=True)}|b={b}|radial={radial}"
                out.append((c, kw))
        return out
    if cls == "ToCartesian":
        for b in [(0.0, 1.0), (-3.7, 12.9), (1e-3, 250.0)][: (2 if quick else 3)]:
            for extra, cr in [({}, False), ({"mode": "duplicate"}, False), ({"mode": "half"}, False), ({"scale": 2.0}, False),
                              ({"prior": "uniform", "mode": "half"}, False),
                              ({}, True), ({"mode": "nope"}, False)]:
                kw = dict(kw0, **extra)
                names = ["x", "y"]
                bounds = {"x": b, "y": (0.0, 1.0)}
                reps = {"x": dict({"reparameterisation": rname}, **extra)}
                pts = _pts_for(names, bounds, chk, per_axis=("x",))
                c = make_cfg(names, bounds, reps, pts, gw=gw)
                if cr:
                    c["compute_radius"] = True
                c["radii"] = [0.05 + 3.0 * rng.random() for _ in pts]
                c["neighbours"] = neighbours(c)
                c["label"] = f"{'gw:' if gw else ''}{name}|{json.dumps(extra, sort_keys=True)}|b={b}|compute_radius={cr}"
                out.append((c, kw))
        return out
    if cls == "AnglePair":
        conv0 = kw0.get("convention")
        for hb in [(0.0, 2 * PI), (-PI, PI)]:
            for conv in (["ra-dec", "az-zen"] if conv0 is None else [conv0]):
                vb = (-PI / 2, PI / 2) if conv == "ra-dec" else (0.0, PI)
                for extra, radial in [({}, False), ({}, True), ({"prior": "isotropic"}, False), ({"convention": conv}, False)]:
                    if quick and hb[0] != 0.0 and extra:
                        continue
                    kw = dict(kw0, **extra)
                    names = ["dec", "ra"] + (["rad"] if radial else []) + ["y"]   # vertical first: the class must reorder
                    bounds = {"ra": hb, "dec": vb, "rad": (0.0, 5.0), "y": (0.0, 1.0)}
                    bounds = {n: bounds[n] for n in names}
                    reps = {rname: dict({"parameters": [n for n in names if n != "y"]}, **extra)}
                    pts = _pts_for(names, bounds, chk, per_axis=("ra", "dec", "rad"))
                    c = make_cfg(names, bounds, reps, pts, gw=gw)
                    c["radii"] = [0.05 + 3.0 * rng.random() for _ in pts]
                    c["periodic"] = {"ra": 2 * PI}
                    c["neighbours"] = neighbours(c)
                    mark_singular(c, radial="rad" if radial else None, poles="dec")
                    c["label"] = f"{'gw:' if gw else ''}{name}|{json.dumps(extra, sort_keys=True)}|ra={hb}|{conv}|radial={radial}"
                    out.append((c, kw))
        # rejected: wrong ranges / unknown prior / convention clash
        for extra, hb, vb in [({}, (0.0, 1.0), (0.0, PI)), ({"prior": "nope"}, (0.0, 2 * PI), (0.0, PI)),
                              ({"convention": "ra-dec" if conv0 != "ra-dec" else "az-zen"}, (0.0, 2 * PI), (0.0, PI) if conv0 != "ra-dec" else (-PI / 2, PI / 2))]:
            if conv0 is not None and "convention" in extra:
                pass
            names = ["ra", "dec", "y"]
            bounds = {"ra": hb, "dec": vb, "y": (0.0, 1.0)}
            c = make_cfg(names, bounds, {rname: dict({"parameters": ["ra", "dec"]}, **extra)}, [[hb[0], vb[0], 0.5]], gw=gw)
            c["label"] = f"{'gw:' if gw else ''}{name}|REJECT {json.dumps(extra, sort_keys=True)}|ra={hb}|dec={vb}"
            c["force_reject"] = True
            out.append((c, dict(kw0, **extra)))
        return out
    if cls == "DistanceReparameterisation":
        for b in [(100.0, 5000.0), (10.0, 400.0)][: (1 if quick else 2)]:
            for extra in [{}, {"prior": "power-law", "converter_kwargs": {"power": 2}},
                          {"prior": "power-law", "converter_kwargs": {"power": 1, "scale": 100.0}},
                          {"prior": "power-law", "converter_kwargs": {"power": 0.5}},
                          {"allowed_bounds": ["lower", "upper"]}, {"prior": "uniform-comoving-volume"}]:
                kw = dict(kw0, **extra)
                for t in ("lower", "upper", False):
                    for cs in one_param_configs(rname, extra, b, chk, gw=gw, tests=(t,), with_update=True):
                        if extra.get("prior") == "uniform-comoving-volume":
                            cs["astropy"] = True
                        out.append((cs, kw))
        return out
    if cls == "DeltaPhaseReparameterisation":
        names = ["phase", "psi", "theta_jn"]
        bounds = {"phase": (0.0, 2 * PI), "psi": (0.0, PI), "theta_jn": (0.0, PI)}
        reps = {"psi": {"reparameterisation": "default"}, "theta_jn": {"reparameterisation": "default"},
                "phase": {"reparameterisation": rname}}
        pts = _pts_for(names, bounds, chk)
        c = make_cfg(names, bounds, reps, pts, gw=gw)
        c["periodic"] = {"phase": 2 * PI}
        c["reverse"] = True   # the only order CombinedReparameterisation.check_order accepts for a block with requirements
        c["label"] = f"gw:{name}"
        return [(c, dict(kw0))]
    return None


# --------------------------------------------------------------------------- direct predicate
def finite(v):
    return v == v and v not in (math.inf, -math.inf)


def direct_predicate(c, r):
    """The property on the implementation alone.  Returns a list of (key-suffix, description, point index)."""
    fails = []
    if c.get("expect_reject"):
        if r.get("error") and r.get("stage") == "construct":
            return fails
        return [("not-rejected", f"option combination must be refused at construction, got {r.get('error', 'accepted')}", None)]
    if r.get("error") and r.get("stage") == "construct" and any(
            cls in ("RescaleToBounds", "DistanceReparameterisation") and kw.get("post_rescaling") in ("logit", "log")
            and kw.get("boundary_inversion") for cls, kw, par in merged_kwargs(c)):
        return fails   # log / logit post-rescaling with boundary inversion: refusing it up front is the repair of a known finding
    if r.get("error") and c.get("astropy") and r.get("stage") == "construct":
        return fails   # astropy is absent in this environment: the comoving-volume converter cannot be built (recorded)
    if r.get("error"):
        return [("raised:" + r.get("stage", "?") + ":" + r["error"], f"valid configuration raised {r['error']}: {r.get('msg', '')[-160:]}", None)]
    n, m = r["n_in"], r["n_out"]
    reps = max(1, m // n)
    if m != reps * n:
        return [("size", f"{m} outputs for {n} inputs", None)]
    if not r["nonsampling_ok"]:
        fails.append(("nonsampling", "non-sampling fields changed through rescale / inverse_rescale", None))
    nb = r.get("lj_nb")
    if "prime_prior" in r:
        for j in range(m):
            row = c["points"][j % n]
            v = r["prime_prior"][j]
            if not finite(v) and not near_bound(c, row) and not any(outside_fold(c, r, p, row) for p in c["names"]):
                fails.append(("prime-inside", f"prime prior {v!r} at the interior point {row}", j % n))
        for j, v in enumerate(r.get("outside_prior", [])):
            if v != -math.inf:
                fails.append(("prime-support", f"prime prior {v!r} at the image of {c['outside'][j % r['outside_n']]} (outside the prior box)", None))
        # prime-space probe: non-zero prime prior exactly when the pre-image lies in the prior box
        for k, v in enumerate(r.get("probe_prior", [])):
            pn = r["probe_which"][k]
            par = r["probe_owner"].get(pn)
            if par is None or par not in c["bounds"]:
                continue
            a, b = c["bounds"][par]
            xb = r["probe_back"][par][k]
            tolb = 1e-9 * (b - a) + 64 * box_u(a, b)
            if finite(xb) and (abs(xb - a) <= tolb or abs(xb - b) <= tolb):
                continue
            inside = finite(xb) and a < xb < b
            if (v != -math.inf) != inside and v == v:
                fails.append(("prime-support-probe",
                              f"prime point {pn} = {r['probe_xp'][pn][k]!r}: prime prior {v!r} but its pre-image {par} = {xb!r} is "
                              f"{'inside' if inside else 'outside'} the prior box [{a}, {b}]", None))
    # prime prior of Angle / ToCartesian / AnglePair: x_prime_log_prior - (log prior - log_J) constant within the configuration
    if r.get("pp_blocks") and "_registry" in c:
        try:
            spec = pp_blocks_spec(c, r)
        except Exception:
            spec = []
        radii = c.get("radii") or [1.0]
        skipr = set(c.get("skip_rows") or [])
        for bd, kw, ent in spec:
            if ent.get("lj") is None or len(ent["lj"]) != n:
                continue
            prior = kw.get("prior")
            ds = []
            for i in range(n):
                if i in skipr or not finite(ent["pp"][i]) or not finite(ent["lj"][i]):
                    continue
                vals = [c["points"][i][c["names"].index(p)] if p in c["names"] else radii[i % len(radii)] for p in bd["parameters"]]
                rad = vals[-1]
                if rad <= 0:
                    continue
                if bd["class"] in ("Angle", "ToCartesian"):
                    logp = math.log(rad) - rad * rad / 2
                    if prior == "sine":
                        sv = math.sin(vals[0] * bd["scale"])
                        if sv < 1e-6:
                            continue
                        logp += math.log(sv / 2)
                else:
                    hz = math.sin(vals[1]) if bd["convention"] == "az-zen" else math.cos(vals[1])
                    if hz < 1e-6:
                        continue
                    logp = math.log(hz / 2) + 2 * math.log(rad) - rad * rad / 2
                ds.append((ent["pp"][i] - (logp - ent["lj"][i]), i, abs(logp) + abs(ent["lj"][i]) + abs(ent["pp"][i])))
            if len(ds) >= 2:
                lo_, hi_ = min(ds), max(ds)
                tol = 1e-9 * (1 + max(d[2] for d in ds))
                if hi_[0] - lo_[0] > tol:
                    fails.append(("prime-prior-not-constant",
                                  f"{bd['class']}(prior={prior!r}): x_prime_log_prior - (log prior - log_J) is {lo_[0]:.9g} at "
                                  f"{c['points'][lo_[1]]} but {hi_[0]:.9g} at {c['points'][hi_[1]]} (must be one constant; tolerance {tol:.3g})", hi_[1]))
    fd = r.get("fd_logdet")
    if fd:
        ds = [(f - r["ljb"][j], j) for f, j in zip(fd, c["fd_rows"]) if finite(f) and finite(r["ljb"][j])]
        if len(ds) >= 2:
            lo_, hi_ = min(ds), max(ds)
            tol = 2e-3 * (1 + max(abs(r["ljb"][j]) for _, j in ds))
            if hi_[0] - lo_[0] > tol:
                fails.append(("fd-jacobian",
                              f"finite-difference ln|det dx/dx'| of inverse_rescale minus the reported log_j_inv is not constant: "
                              f"{lo_[0]:.6g} at {c['points'][lo_[1]]} vs {hi_[0]:.6g} at {c['points'][hi_[1]]} (tolerance {tol:.3g})", hi_[1]))
    skip = set(c.get("skip_rows") or [])
    for j in range(m):
        i = j % n
        if i in skip:
            continue
        row = c["points"][i]
        xp_ok = all(finite(r["xp"][k][j]) for k in r["xp"])
        lj, ljb = r["lj"][j], r["ljb"][j]
        if any(v != v for k in r["xp"] for v in [r["xp"][k][j]]) or lj != lj:
            # NaN is never acceptable away from a singular point
            if not singular_point(c, row):
                fails.append(("nan-forward", f"NaN in the forward pass at {row}", i))
            continue
        if not xp_ok or not finite(lj):
            if not near_bound(c, row):
                fails.append(("nonfinite-forward", f"non-finite forward output at the regular point {row}", i))
            continue
        for k, name in enumerate(c["names"]):
            a, b = c["bounds"][name]
            xb = r["xb"][name][j]
            tol = KRT * box_u(a, b) + KRT * 2.0 ** -52 * abs(row[k])
            per = c.get("periodic", {}).get(name)
            dx = abs(xb - row[k])
            if per and finite(xb):
                dx = min(dx, abs(dx - per))
            if not finite(xb) or dx > tol:
                fails.append(("roundtrip:" + name, f"{name}: {row[k]!r} -> back {xb!r} (tolerance {tol:.3g})", i))
        if nb is not None:
            v0, v1 = nb[0][j], nb[1][j]
            if finite(v0) and finite(v1) and not near_bound(c, row):
                var = max(abs(v0 - lj), abs(v1 - lj))
                tol = TA + TR * abs(lj) + 2 * var
                if not finite(ljb) or abs(lj + ljb) > tol:
                    fails.append(("logj-sum", f"log_j {lj!r} + log_j_inv {ljb!r} != 0 at {row} (tolerance {tol:.3g})", i))
    return fails


def near_bound(c, row):
    for n, v in zip(c["names"], row):
        a, b = c["bounds"][n]
        d = KN * box_u(a, b)
        if v - a <= d or b - v <= d:
            return True
    return False


def singular_point(c, row):
    return near_bound(c, row)


# --------------------------------------------------------------------------- model side: blocks + observations
def block_terms(c, r):
    """([coq block terms], per-block spec) in to_prime order, from the configuration (not from the object's state,
    except the oracle values: edge chosen by detect_edge, fold signs, scripted radii)."""
    terms, specs = [], []
    reps = c["reparameterisations"]
    for bd in r["blocks"]:
        cls = bd["class"]
        kw = block_kwargs(c, bd)
        if cls in ("RescaleToBounds", "DistanceReparameterisation"):
            for p, pp in zip(bd["parameters"], bd["prime_parameters"]):
                inv = rtb_inversion_for(kw, p)
                edge = None
                if inv:
                    edge = (bd.get("edges") or {}).get(p)
                upd = None
                if c.get("update") is not None:
                    col = [row[c["names"].index(p)] for row in c["update"]]
                    upd = (min(col), max(col))
                pre_power = None
                if cls == "DistanceReparameterisation":
                    if kw.get("prior") == "power-law":
                        ck = kw.get("converter_kwargs") or {}
                        pre_power = (float(ck["power"]) + 1.0, float(ck.get("scale", 1000.0)))
                    elif kw.get("prior") == "uniform-comoving-volume":
                        raise Unclassified("ComovingDistanceConverter (spline lookup) has no model")
                terms.append("(blk_rtb " + rtb_block({k: v for k, v in kw.items() if k not in ("allowed_bounds", "allow_both", "converter_kwargs")} if cls != "DistanceReparameterisation" else kw,
                                                     p, c["bounds"][p], edge, upd, pre_power) + ")")
                specs.append({"ins": [p], "outs": [pp], "aux": "fold" if edge in ("lower", "upper") else None,
                              "fold_threshold": 1.0 if kw.get("post_rescaling") == "exp" else 0.0})
        elif cls in ("ScaleAndShift", "Rescale"):
            unknown = set(kw) - {"scale", "shift", "estimate_scale", "estimate_shift"}
            if unknown:
                raise Unclassified(f"ScaleAndShift keyword(s) {sorted(unknown)}")
            for idx, (p, pp) in enumerate(zip(bd["parameters"], bd["prime_parameters"])):
                def val(v, default):
                    if v is None or (not v and not isinstance(v, (list, dict))):
                        return default
                    if isinstance(v, (int, float)):
                        return float(v)
                    if isinstance(v, list):
                        return float(v[idx])
                    return float(v[p])
                est_s, est_t = bool(kw.get("estimate_scale")), bool(kw.get("estimate_shift"))
                s_e = Kd(1.0) if est_s else Kd(val(kw.get("scale"), 1.0))
                has_shift = est_t or bool(kw.get("shift"))
                t_e = Kd(0.0) if est_t else Kd(val(kw.get("shift"), 0.0))
                if c.get("update") is not None and (est_s or est_t):
                    col = [row[c["names"].index(p)] for row in c["update"]]
                    mean, std = mean_std_exprs(col)
                    if est_s:
                        s_e = std
                    if est_t:
                        t_e = mean
                # shift of exactly 0.0 estimated from data switches the branch off, as `if self.shift` on a dict does not: dict is truthy
                terms.append(f"(B1 [st_scale_shift (P 0) (P 1) {cB(has_shift)}] [{s_e}; {t_e}])")
                specs.append({"ins": [p], "outs": [pp], "aux": None})
        elif cls == "NullReparameterisation":
            for p, pp in zip(bd["parameters"], bd["prime_parameters"]):
                terms.append("blk_null")
                specs.append({"ins": [p], "outs": [pp], "aux": None})
        else:
            t, s = special_block(c, bd, kw)
            terms.append(t)
            specs.append(s)
    return terms, specs


def special_block(c, bd, kw):
    cls = bd["class"]
    if cls == "Angle":
        unknown = set(kw) - {"scale", "prior"}
        if unknown:
            raise Unclassified(f"Angle keyword(s) {sorted(unknown)}")
        p = bd["parameters"][0]
        a, b = c["bounds"][p]
        if kw.get("scale", 1.0) is None:
            sc = f"(Rnd (Div (Rnd (Mul c2 (Rnd EPi))) (Rnd (Sub {Kd(b)} {Kd(a)}))))"
        else:
            sc = Kd(float(kw.get("scale", 1.0)))
        return (f"(blk_angle {sc} {cB(a == 0)})",
                {"ins": list(bd["parameters"]), "outs": list(bd["prime_parameters"]), "aux": None})
    if cls == "ToCartesian":
        unknown = set(kw) - {"scale", "prior", "mode"}
        if unknown:
            raise Unclassified(f"ToCartesian keyword(s) {sorted(unknown)}")
        p = bd["parameters"][0]
        a, b = c["bounds"][p]
        sc = Kd(float(kw.get("scale", PI)))
        return (f"(blk_to_cartesian {Kd(a)} {Kd(b)} {sc})",
                {"ins": list(bd["parameters"]), "outs": list(bd["prime_parameters"]), "aux": "sign_y"})
    if cls == "AnglePair":
        unknown = set(kw) - {"prior", "convention"}
        if unknown:
            raise Unclassified(f"AnglePair keyword(s) {sorted(unknown)}")
        return (f"(blk_angle_pair {cB(bd['convention'] == 'az-zen')} {cB(bd['modulo_2pi'])})",
                {"ins": list(bd["parameters"]), "outs": list(bd["prime_parameters"]), "aux": None})
    raise Unclassified(f"class {cls}")


def block_kwargs(c, bd):
    """keyword arguments the block was built with: registry kwargs + the user's overrides."""
    reps = c["reparameterisations"] or {}
    table = c["_registry_gw"] if c.get("gw") else c["_registry"]
    for key, cfg in reps.items():
        if key in c["names"]:
            if key in bd["parameters"]:
                name = cfg["reparameterisation"] if isinstance(cfg, dict) else cfg
                extra = {k: v for k, v in (cfg.items() if isinstance(cfg, dict) else []) if k not in ("reparameterisation", "parameters")}
                return dict(table["None" if name is None else name][1], **extra)
        else:
            ps = cfg.get("parameters") or []
            if set(ps) & set(bd["parameters"]):
                extra = {k: v for k, v in cfg.items() if k != "parameters"}
                return dict(table[key][1], **extra)
    # GW defaults by parameter-name alias, else the fallback reparameterisation
    fb = c.get("fallback")
    if c.get("gw"):
        for p in bd["parameters"]:
            al = (c.get("_aliases") or {}).get(p.lower())
            if al is not None:
                return dict(table[al[0]][1])
    return dict(table["None" if fb is None else fb][1])


def observations(c, r, specs):
    """Coq list of obs records, one per output row."""
    n, m = r["n_in"], r["n_out"]
    out = []
    rowids = []
    radii = c.get("radii") or [1.0]
    for j in range(m):
        i = j % n
        row = c["points"][i]
        if angle_wrap_row(c, r, i) or i in (c.get("skip_rows") or ()):
            continue   # refuted region / singular or underflowing radius: not part of the correspondence
        rowids.append(j)
        ins, auxs, xps, xbs = [], [], [], []
        for s in specs:
            vals = []
            for p in s["ins"]:
                if p in c["names"]:
                    vals.append(row[c["names"].index(p)])
                else:   # auxiliary radius (scripted)
                    vals.append(radii[i % len(radii)])
            ins.append(cL(dy(v) for v in vals))
            if s["aux"] == "fold":
                v = r["xp"][s["outs"][0]][j]
                thr = s.get("fold_threshold", 0.0)
                sg = -1.0 if (v != v or v < thr or (v == 0 and thr == 0.0 and math.copysign(1.0, v) < 0)) else 1.0
                if outside_fold(c, r, s["ins"][0], row):
                    sg = -sg
                auxs.append(dy(sg))
            elif s["aux"] == "sign_y":
                v = r["xp"][s["outs"][1]][j]
                auxs.append(dy(-1.0 if (v < 0 or (v == 0 and math.copysign(1.0, v) < 0)) else 1.0))
            else:
                auxs.append(dy(1.0))
            xps.append(cL(flc(r["xp"][pp][j]) for pp in s["outs"]))
            xbs.append(cL(flc(r["xb"][p][j]) for p in s["ins"]))
        out.append(f"{{| o_in := {cL(ins)}; o_aux := {cL(auxs)}; o_xp := {cL(xps)}; o_lj := {flc(r['lj'][j])}; "
                   f"o_xb := {cL(xbs)}; o_ljb := {flc(r['ljb'][j])} |}}")
    return out, rowids


COQ_HDR = (common.COQ_HEADER + "From NessaiV Require Import Lib.C07_Interval Model.C07_Maps Run.C07_run.\n"
           "Open Scope Z_scope.\n")


def parse_ll(s):
    """'[[1; 2; 3; 4]; [..]]' -> list of lists of ints"""
    s = s.replace("%nat", "")
    out, cur, num = [], None, ""
    depth = 0
    for ch in s:
        if ch == "[":
            depth += 1
            if depth == 2:
                cur = []
        elif ch == "]":
            if num and cur is not None:
                cur.append(int(num))
            num = ""
            if depth == 2:
                out.append(cur)
                cur = None
            depth -= 1
        elif ch == ";":
            if num and cur is not None:
                cur.append(int(num))
            num = ""
        elif ch.isdigit():
            num += ch
    return out


def run_coq_batches(chk, items, batch_pts=350, par=8):
    """items: list of (index, blocks_term, [obs terms]).  Returns {index: [[jf, jl, jb, jlb], ...]} or None on error."""
    from concurrent.futures import ThreadPoolExecutor
    batches, cur, cnt = [], [], 0
    for it in items:
        cur.append(it)
        cnt += len(it[2])
        if cnt >= batch_pts:
            batches.append(cur)
            cur, cnt = [], 0
    if cur:
        batches.append(cur)

    def work(bi_b):
        bi, b = bi_b
        txt = COQ_HDR
        for k, (idx, blocks, obs, extra) in enumerate(b):
            txt += f"Definition case_{k} : list block * list obs := ({blocks}, {cL(obs)}).\n"
            txt += f"Eval vm_compute in (check_case2 case_{k}).\n"
            for e in extra:
                txt += f"Eval vm_compute in [{e[1] if isinstance(e, tuple) else e}].\n"
        return b, chk.coq_run(f"cases_{bi}", txt, timeout=1500)

    results, errors, prime_results = {}, [], {}
    witnesses = run_coq_batches.witnesses = {}
    pp_results = run_coq_batches.pp_results = {}
    with ThreadPoolExecutor(max_workers=par) as ex:
        for b, (ok, evals, err) in ex.map(work, list(enumerate(batches))):
            if not ok or len(evals) != sum(1 + len(it[3]) for it in b):
                errors.append(err[-800:])
                continue
            pos = 0
            for (idx, _, obs, extra) in b:
                res = parse_ll(evals[pos])
                pos += 1
                if len(res) >= 2:
                    witnesses[idx] = (res[-2], res[-1])
                    res = res[:-2]
                for e in extra:
                    if isinstance(e, tuple):
                        pp_results[idx] = (parse_ll(evals[pos]), e[2])
                    else:
                        prime_results.setdefault(idx, []).extend(parse_ll(evals[pos]))
                    pos += 1
                if len(res) != len(obs):
                    errors.append(f"case {idx}: {len(res)} verdicts for {len(obs)} points: {evals[pos - 1][:200]}")
                    continue
                results[idx] = res
    return results, errors, prime_results


def prime_bound_evals(c, r):
    """Coq terms checking the implementation's prime_prior_bounds against the model (RescaleToBounds only)."""
    out = []
    for bd in r["blocks"]:
        if bd["class"] not in ("RescaleToBounds", "DistanceReparameterisation") or not bd.get("prime_prior_bounds"):
            continue
        kw = block_kwargs(c, bd)
        if bd["class"] == "DistanceReparameterisation":
            continue
        for p, pp in zip(bd["parameters"], bd["prime_parameters"]):
            inv = rtb_inversion_for(kw, p)
            edge = (bd.get("edges") or {}).get(p) if inv else None
            upd = None
            if c.get("update") is not None:
                col = [row[c["names"].index(p)] for row in c["update"]]
                upd = (min(col), max(col))
            lo, hi = bd["prime_prior_bounds"][pp]
            out.append(f"check_prime_bounds {rtb_block(kw, p, c['bounds'][p], edge, upd)} {flc(lo)} {flc(hi)}")
    return out


PP_CLASSES = ("Angle", "ToCartesian", "AnglePair")


def pp_blocks_spec(c, r):
    """offering Angle / ToCartesian / AnglePair blocks: [(block description, kwargs, child entry)]"""
    out = []
    for ent in r.get("pp_blocks") or []:
        if ent["class"] not in PP_CLASSES:
            continue
        bd = next((b for b in r["blocks"] if b["parameters"] == ent["parameters"]), None)
        if bd is None:
            continue
        out.append((bd, block_kwargs(c, bd), ent))
    return out


def pp_rows(c, r, spec):
    """usable output rows and, per row, the input values of every offering block (angle(s), radius)"""
    n, m = r["n_in"], r["n_out"]
    radii = c.get("radii") or [1.0]
    skip = set(c.get("skip_rows") or [])
    rows = []
    for j in range(m):
        i = j % n
        if i in skip:
            continue
        tot, ok, vals = 0.0, True, []
        for bd, kw, ent in spec:
            v = ent["pp"][j]
            if not finite(v):
                ok = False
                break
            tot += v
            for p in bd["parameters"]:
                vals.append(c["points"][i][c["names"].index(p)] if p in c["names"] else radii[i % len(radii)])
        if ok:
            rows.append((j, i, vals, tot))
    return rows


def prime_prior_evals(c, r):
    """Coq term: offset witness of the reported prime prior against the enclosure of log p(x) - log_J."""
    spec = pp_blocks_spec(c, r)
    if not spec:
        return []
    terms, pos = [], 0
    for bd, kw, ent in spec:
        prior = kw.get("prior")
        k = len(bd["parameters"])
        if bd["class"] in ("Angle", "ToCartesian"):
            if prior == "uniform":
                terms.append(f"(pp_polar_uniform (V {pos + 1}))")
            elif prior == "sine" and bd["class"] == "Angle":
                terms.append(f"(pp_polar_sine (V {pos}) (V {pos + 1}) {Kd(float(bd['scale']))})")
            else:
                return []
        elif bd["class"] == "AnglePair" and prior == "isotropic":
            terms.append(f"(pp_sphere {cB(bd['convention'] == 'az-zen')} (V {pos + 1}) (V {pos + 2}))")
        else:
            return []
        pos += k
    e = terms[0]
    for t in terms[1:]:
        e = f"(Rnd (Add {e} {t}))"
    rows = pp_rows(c, r, spec)
    if len(rows) < 2:
        return []
    rtxt = cL(f"({cL(dy(v) for v in vals)}, {flc(tot)})" for _, _, vals, tot in rows)
    return [("pp", f"check_prime_prior {e} {rtxt}", {"expr": e, "rows": [(j, i) for j, i, _, _ in rows], "rtxt": [f"({cL(dy(v) for v in vals)}, {flc(tot)})" for _, _, vals, tot in rows],
                                                       "reported": [tot for _, _, _, tot in rows]})]


def function_cases(chk):
    """Direct calls of utils/rescaling.py functions not reachable through a registered name:
    logit with the eps clip, sigmoid and exp used as FORWARD maps.  Returns child configs + model terms."""
    rng = chk.rng
    out = []
    for eps in (1e-6, 0.25):
        xs = ladder(eps, 1.0 - eps, chk.tier, rng)
        out.append(({"kind": "function", "fn": "logit_eps", "eps": eps, "x": xs},
                    f"[B1 [st_logit_eps (P 0)] [{Kd(eps)}]]", (eps, 1.0 - eps), f"logit(x, eps={eps})"))
    xs = ladder(-40.0, 40.0, chk.tier, rng)
    out.append(({"kind": "function", "fn": "sigmoid", "x": xs}, "[B1 [st_sigmoid] []]", (-40.0, 40.0), "sigmoid as forward map"))
    xs = ladder(-700.0, 700.0, chk.tier, rng)
    out.append(({"kind": "function", "fn": "exp", "x": xs}, "[B1 [st_exp] []]", (-700.0, 700.0), "exp_with_log_jacobian as forward map"))
    return out


def decide_functions(chk, fcases, fres):
    """direct predicate + Coq items for the function-level cases"""
    items = []
    for k, ((cfg, term, (a, b), label), r) in enumerate(zip(fcases, fres)):
        if r.get("error"):
            chk.fail("C07:function:raised", f"{label}: raised {r['error']}", {"function": cfg})
            continue
        obs = []
        for j, x in enumerate(cfg["x"]):
            y, lj, xb, ljb = r["y"][j], r["lj"][j], r["xb"][j], r["ljb"][j]
            interior = (x - a > KN * box_u(a, b)) and (b - x > KN * box_u(a, b))
            if interior and cfg["fn"] != "sigmoid":
                if not (finite(y) and finite(lj)):
                    chk.fail("C07:function:nonfinite", f"{label}: non-finite output at {x!r}", {"function": cfg, "point_index": j})
                elif not finite(xb) or abs(xb - x) > KRT * 2.0 ** -52 * max(abs(a), abs(b), 1.0):
                    chk.fail("C07:function:roundtrip", f"{label}: {x!r} -> back {xb!r}", {"function": cfg, "point_index": j})
                elif cfg["fn"] != "exp" and (not finite(ljb) or abs(lj + ljb) > 1e-9 * (1 + abs(lj))):
                    chk.fail("C07:function:logj-sum", f"{label}: log_j {lj!r} + log_j_inv {ljb!r} at {x!r}", {"function": cfg, "point_index": j})
            obs.append(f"{{| o_in := [[{dy(x)}]]; o_aux := [{dy(1.0)}]; o_xp := [[{flc(y)}]]; o_lj := {flc(lj)}; "
                       f"o_xb := [[{flc(xb)}]]; o_ljb := {flc(ljb)} |}}")
        items.append((("fn", k), term, obs, []))
        chk.count("function:" + cfg["fn"], len(obs))
    return items


def fd_rows(c, limit=6):
    """rows well inside the box in every coordinate (finite differences need room), at most `limit`"""
    skip = set(c.get("skip_rows") or [])
    out = []
    for i, row in enumerate(c["points"]):
        if i in skip:
            continue
        ok = True
        for n, v in zip(c["names"], row):
            a, b = c["bounds"][n]
            if not (a + 0.03 * (b - a) <= v <= b - 0.03 * (b - a)):
                ok = False
        if ok:
            out.append(i)
        if len(out) >= limit:
            break
    return out if len(out) >= 2 else []


def run_child(chk, cfgs, timeout=900, par=8):
    """Run the configurations on the real code, in `par` child processes."""
    from concurrent.futures import ThreadPoolExecutor
    for c in cfgs:
        if "fd_rows" not in c and not c.get("expect_reject"):
            c["fd_rows"] = fd_rows(c)
    strip = [{k: v for k, v in c.items() if not k.startswith("_")} for c in cfgs]
    chunks = [strip[i::par] for i in range(par)]

    def work(ch):
        if not ch:
            return 0, "[]", ""
        return chk.child("c07_child.py", timeout=timeout, inp=json.dumps(ch))

    outs = [None] * len(cfgs)
    with ThreadPoolExecutor(max_workers=par) as ex:
        for k, (rc, out, err) in enumerate(ex.map(work, chunks)):
            if rc != 0:
                chk.oblige("implementation child ran", "harness", False, err[-1500:])
                return None
            for j, res in enumerate(json.loads(out)):
                outs[k + j * par] = res
    return outs


def run(chk):
    import c07_registry
    from pyast import Declined
    chk.rule = ("for every registered name (general + GW) x option variations x bounds families x before/after update() x "
                "inversion edge (lower/upper/none/detected): a ladder of points approaching each bound log-spaced down to 1 ulp, "
                "the bounds, interior points; distinct by (configuration label, point); non-trivial = at least one of the four "
                "outputs decided against a proper enclosure narrower than 2^-20")
    chk.assumptions += [
        "float64 arithmetic of numpy/libm obeys the standard model fl(v)=v(1+d), |d|<=16*2^-53 per marked rounding point "
        "(this is the explicit tolerance: Model/C07_Maps.v `ulps`); outputs are accepted iff inside the model's enclosure",
        "oracle: detect_edge's choice (lower/upper/none), the random sign of split inversion and the auxiliary chi radius "
        "are inputs of the model (read back / scripted), not modelled",
        "Interval 4.6.1 operators (I.exp, I.ln, I.cos, I.sin, I.atan, I.sqrt ...) and their *_correct lemmas; Coquelicot 3.2 derivatives",
    ]
    chk.static_props(["C07"], ["C07_run"])
    # ---- tie A: registry and option matrix regenerated from the source -------------------------------------
    try:
        reg = c07_registry.registry()
        sigs = c07_registry.signatures()
        rf = c07_registry.rescaling_functions()
        chk.translator = {"registry": "translated", "signatures": "translated",
                          "names": {k: len(v) for k, v in reg.items() if isinstance(v, dict)}}
    except Declined as e:
        chk.translator = {"registry": f"declined: {e}"}
        chk.oblige("tie A: registry regenerated from the source", "today", False, str(e))
        return
    tie_a(chk, reg, sigs, rf)
    try:
        aliases = c07_registry.gw_aliases()
    except Declined as e:
        aliases = {}
        chk.translator["gw_aliases"] = f"declined: {e}"
    bad_alias = [f"{k} -> {v[0]}" for k, v in aliases.items()
                 if v[0] not in reg["default_gw"] and v[0] not in reg["default_reparameterisations"]]
    chk.oblige("tie A: every GWFlowProposal alias points to a registered (hence classified) name", "today",
               not bad_alias, "; ".join(bad_alias))
    cfgs, unclassified = gen_configs(chk, reg)
    chk.oblige("tie A: every registered name has a model instance (class known to the model)", "today",
               not unclassified, "unclassified: " + "; ".join(unclassified))
    for c in cfgs:
        c["_registry"] = reg["default_reparameterisations"]
        c["_registry_gw"] = dict(reg["default_gw"], **reg["default_reparameterisations"])
        c["_aliases"] = aliases
    res = run_child(chk, cfgs)
    if res is None:
        return
    decide(chk, cfgs, res)
    # function-level cases (logit with eps, sigmoid / exp as forward maps)
    fcases = function_cases(chk)
    rc, out, err = chk.child("c07_child.py", timeout=300, inp=json.dumps([f[0] for f in fcases]))
    if rc != 0:
        chk.oblige("implementation child ran (function cases)", "harness", False, err[-1000:])
        return
    items = decide_functions(chk, fcases, json.loads(out))
    results, errors, _ = run_coq_batches(chk, items, par=4)
    badf = [(fcases[idx[1]][3], j, v) for idx, vs in results.items() for j, v in enumerate(vs) if 0 in v]
    chk.evaluations += sum(len(v) for v in results.values())
    chk.oblige(f"correspondence: utils.rescaling logit(eps) / sigmoid / exp called directly, four outputs inside the model's "
               f"enclosures ({sum(len(it[2]) for it in items)} points)", "correspondence", not errors and not badf,
               "; ".join(errors[:2]) + " " + "; ".join(f"{l} point#{j}: {v}" for l, j, v in badf[:4]))


def tie_a(chk, reg, sigs, rf):
    import c07_registry
    known_cls = {"RescaleToBounds": RTB_KEYS, "ScaleAndShift": {"scale", "shift", "estimate_scale", "estimate_shift"},
                 "Rescale": {"scale", "shift", "estimate_scale", "estimate_shift"}, "NullReparameterisation": set(),
                 "Angle": {"scale", "prior"}, "ToCartesian": {"mode", "scale", "prior"},
                 "AnglePair": {"prior", "convention"}, "DistanceReparameterisation": DIST_KEYS,
                 "DeltaPhaseReparameterisation": set()}
    bad = []
    for cls, keys in known_cls.items():
        if cls not in sigs:
            bad.append(f"class {cls} not found")
            continue
        opts = set(c07_registry.options(cls, sigs)) - {"parameters", "prior_bounds"}
        if opts - keys:
            bad.append(f"{cls}: constructor keyword(s) without enumerated values: {sorted(opts - keys)}")
    for table in ("default_reparameterisations", "default_gw"):
        for name, (cls, kw) in reg[table].items():
            if cls not in known_cls:
                bad.append(f"{table}[{name}] -> unknown class {cls}")
            elif set(kw) - known_cls[cls]:
                bad.append(f"{table}[{name}]: keyword(s) {sorted(set(kw) - known_cls[cls])} not in the model")
    try:
        pf = set(c07_registry.prior_functions())
    except Exception as e:
        pf = {f"<declined: {e}>"}
    known_pf = {"log_uniform_prior", "log_2d_cartesian_prior", "log_2d_cartesian_prior_sine", "log_3d_cartesian_prior"}
    if pf - known_pf:
        bad.append(f"nessai/priors.py has prime-prior functions without a model: {sorted(pf - known_pf)}")
    if set(rf) - {"logit", "log", "exp"}:
        bad.append(f"rescaling_functions has names without a model: {sorted(set(rf) - {'logit', 'log', 'exp'})}")
    if not reg.get("gw_includes_default", False):
        bad.append("default_gw no longer includes default_reparameterisations")
    chk.oblige("tie A: registry / constructor keywords / rescaling_functions regenerated from the source are all "
               "classified by the model", "today", not bad, "; ".join(bad))
    # the same skeleton through the proven-sound Coq checker (today lemma + instantiated soundness theorem)
    def kwv(v):
        if v is True:
            return "KVtrue"
        if v is False:
            return "KVfalse"
        if v is None:
            return "KVnone"
        if isinstance(v, str):
            return f"(KVstr {common.cStr(v)})"
        if isinstance(v, (int, float)):
            return "KVnum"
        if isinstance(v, (list, tuple)):
            return "KVlist"
        if isinstance(v, dict):
            return "KVdict"
        return "KVother"

    entries = []
    for table in ("default_reparameterisations", "default_gw"):
        for name, (cls, kw) in reg[table].items():
            kws = cL(f"({common.cStr(k)}, {kwv(v)})" for k, v in kw.items())
            entries.append(f"{{| re_name := {common.cStr(table + ':' + name)}; re_class := {common.cStr(cls)}; re_kw := {kws} |}}")
    txt = (common.COQ_HEADER + "From NessaiV Require Import Lib.C07_Interval Model.C07_Maps Proofs.C07_Maps_proofs.\n"
           f"Definition registry_now : list rentry := {cL(entries)}.\n"
           "Eval vm_compute in (unclassified_names registry_now).\n"
           "Lemma today : forallb classified registry_now = true.\nProof. vm_compute. reflexivity. Qed.\n"
           "Lemma today_property : List.Forall (fun e => exists k, classify e = Some k /\\ kind_ok k) registry_now.\n"
           "Proof. exact (registry_sound registry_now today). Qed.\n")
    ok, evals, err = chk.coq_run("today_registry", txt)
    chk.oblige(f"today: classified registry_now = true for the {len(entries)} regenerated registry entries + instantiated "
               "soundness theorem (C07_registry_sound)", "today", ok, (evals[0] if evals else "") + " " + err)
    chk.notes.append("registry sizes: " + ", ".join(f"{k}={len(v)}" for k, v in reg.items() if isinstance(v, dict)))


def decide(chk, cfgs, res):
    items, meta, rowmap = [], {}, {}
    n_points = 0
    for idx, (c, r) in enumerate(zip(cfgs, res)):
        chk.count("class:" + c.get("cls", "?"))
        fails = direct_predicate(c, r)
        for suffix, what, i in fails:
            key = f"C07:{c.get('cls', '?')}:{suffix}"
            key = finding_key(c, r, suffix, i, key)
            chk.fail(key, f"{c['label']}: {what}", {"config": {k: v for k, v in c.items() if not k.startswith('_')}, "point_index": i})
        if c.get("expect_reject"):
            chk.count("rejected-at-construction" if r.get("stage") == "construct" else "NOT-rejected")
            chk.evaluations += 1
            continue
        if r.get("error"):
            chk.count("raised")
            continue
        try:
            terms, specs = block_terms(c, r)
        except Unclassified as e:
            chk.count("no-model:" + str(e)[:40])
            chk.notes.append(f"no model instance for {c['label']}: {e}")
            meta[idx] = None
            chk.evaluations += r["n_out"]
            continue
        obs, rowids = observations(c, r, specs)
        rowmap[idx] = rowids
        chk.count("rows-not-in-correspondence(singular radius / pole / angle-wrap region)", r["n_out"] - len(obs))
        items.append((idx, cL(terms), obs, prime_bound_evals(c, r) + prime_prior_evals(c, r)))
        n_points += len(obs)
    results, errors, prime_results = run_coq_batches(chk, items)
    chk.oblige(f"correspondence batches evaluated in Coq ({len(items)} configurations, {n_points} points)", "correspondence",
               not errors, " | ".join(errors[:3]))
    names = ["prime values x'", "forward log_j", "recovered values x_back", "inverse log_j"]
    bad = {k: [] for k in range(4)}
    hist = {}
    pb_bad = [(idx, v) for idx, vs in prime_results.items() for v in vs if 0 in v]
    n_pb = sum(len(vs) for vs in prime_results.values())
    chk.oblige(f"correspondence: prime_prior_bounds of RescaleToBounds inside the model's enclosure of determine_rescaled_bounds ({n_pb} parameters)",
               "correspondence", not pb_bad,
               "; ".join(f"{cfgs[idx]['label']}: {v}" for idx, v in pb_bad[:3]))
    chk.count("prime-bounds-checked", n_pb)
    for idx, blocks, obs, _ in items:
        if idx not in results:
            continue
        c, r = cfgs[idx], res[idx]
        for j, verdict in enumerate(results[idx]):
            chk.evaluations += 1
            for k, v in enumerate(verdict):
                hist[(k, v)] = hist.get((k, v), 0) + 1
                if v == 0:
                    bad[k].append((idx, rowmap[idx][j]))
            if 1 in verdict and 0 not in verdict:
                chk.nontriv((c["label"], j))
    wit = getattr(run_coq_batches, "witnesses", {})
    per_key = {}
    item_by_idx = {it[0]: it for it in items}
    for idx, (wf, wb) in sorted(wit.items(), key=lambda kv: str(kv[0])):
        if not isinstance(idx, int) or idx not in rowmap:
            continue
        c, r = cfgs[idx], res[idx]
        for direction, w in (("forward", wf), ("inverse", wb)):
            if len(w) != 2:
                continue
            ja, jb = rowmap[idx][w[0]], rowmap[idx][w[1]]
            ia, ib = ja % r["n_in"], jb % r["n_in"]
            vals = (r["lj"][ja], r["lj"][jb]) if direction == "forward" else (r["ljb"][ja], r["ljb"][jb])
            kkey = (c.get("cls"), direction)
            per_key[kkey] = per_key.get(kkey, 0) + 1
            if per_key[kkey] > 2:
                continue          # further witnesses of the same kind are only counted
            encl = witness_enclosures(chk, item_by_idx[idx], w)
            chk.fail(f"C07:{c.get('cls', '?')}:jacobian-offset-not-constant:{direction}",
                     f"{c['label']}: the reported {direction} log_j minus the true log|det J| (proven enclosure of the model's "
                     f"log-Jacobian, which is the true one up to a point-independent constant) is not one constant: "
                     f"point {c['points'][ia]} reports {vals[0]!r}, point {c['points'][ib]} reports {vals[1]!r}; "
                     f"the two offset intervals are separated (C07_separated_sound). {encl}",
                     {"config": {k: v for k, v in c.items() if not k.startswith('_') and k not in ("neighbours", "outside")},
                      "kind": "jacobian", "direction": direction, "rows": [ia, ib], "reported": list(vals),
                      "enclosures(forward, inverse) at the two points": encl, "point_index": ia})
    for kkey, cnt in per_key.items():
        chk.count(f"jacobian-offset witnesses:{kkey[0]}:{kkey[1]}", cnt)
    ppr = getattr(run_coq_batches, "pp_results", {})
    pp_bad = 0
    for idx, (wl, meta_pp) in sorted(ppr.items(), key=lambda kv: str(kv[0])):
        w = wl[0] if wl else []
        if len(w) != 2 or not isinstance(idx, int):
            continue
        pp_bad += 1
        c, r = cfgs[idx], res[idx]
        (ja, ia), (jb, ib) = meta_pp["rows"][w[0]], meta_pp["rows"][w[1]]
        encl = ""
        if pp_bad <= 2:
            txt = COQ_HDR + f"Eval vm_compute in (prime_prior_enclosures {meta_pp['expr']} [{meta_pp['rtxt'][w[0]]}; {meta_pp['rtxt'][w[1]]}]).\n"
            ok, evals, err = chk.coq_run(f"ppwitness_{idx}", txt, timeout=300)
            encl = pretty_encl(evals[0]) if ok and evals else ""
        if pp_bad <= 4:
            chk.fail(f"C07:{c.get('cls', '?')}:prime-prior-offset-not-constant",
                     f"{c['label']}: the offered x_prime_log_prior minus (log prior - log_J) (proven enclosure at the exact inputs) is not "
                     f"one constant: point {c['points'][ia]} reports {meta_pp['reported'][w[0]]!r}, point {c['points'][ib]} reports "
                     f"{meta_pp['reported'][w[1]]!r}; the two offset intervals are separated. enclosures of log p - log_J at the two points: {encl}",
                     {"config": {k: v for k, v in c.items() if not k.startswith('_') and k not in ("neighbours", "outside")},
                      "rows": [ia, ib], "reported": [meta_pp["reported"][w[0]], meta_pp["reported"][w[1]]],
                      "enclosures of log p - log_J": encl, "point_index": ia})
    chk.oblige(f"correspondence: offered prime priors of Angle / ToCartesian / AnglePair = log prior - log_J + one constant per "
               f"configuration (offset witness over {len(ppr)} configurations)", "correspondence", pp_bad == 0,
               f"{pp_bad} configurations with separated offsets")
    for k in range(4):
        detail = ""
        if bad[k]:
            idx, j = bad[k][0]
            c, r = cfgs[idx], res[idx]
            i = j % r["n_in"]
            detail = (f"{len(bad[k])} points outside the enclosure; first: {c['label']} point {c['points'][i]} "
                      f"xp={[r['xp'][n][j] for n in r['xp']]} lj={r['lj'][j]} xb={[r['xb'][n][j] for n in r['xb']]} ljb={r['ljb'][j]}")
            # break path: show the failing input on the real code with a numerical derivative
            search_on_break(chk, c, r, i, k)
        chk.oblige(f"correspondence: {names[k]} inside the enclosure of the model at the exact inputs", "correspondence",
                   not bad[k], detail)
    lab = {0: "outside", 1: "inside-narrow", 2: "inside-wide", 3: "improper-enclosure", 4: "not-run"}
    for (k, v), cnt in sorted(hist.items()):
        chk.count(f"{names[k]}:{lab.get(v, v)}", cnt)
    chk.traces = n_points
    for c, r in list(zip(cfgs, res))[:: max(1, len(cfgs) // 5)]:
        chk.sample({"label": c["label"], "points": c["points"][:3],
                    "observed": {k: (v[:3] if isinstance(v, list) else v) for k, v in r.items() if k in ("lj", "ljb", "error")}})


def witness_enclosures(chk, item, w):
    """Coq's decimal output of the log-Jacobian enclosures at the two witness rows (break path only)."""
    idx, blocks, obs, _ = item
    txt = COQ_HDR + f"Eval vm_compute in (map (lj_enclosures {blocks}) [{obs[w[0]]}; {obs[w[1]]}]).\n"
    ok, evals, err = chk.coq_run(f"witness_{idx}", txt, timeout=300)
    if not ok or not evals:
        chk.notes.append(f"witness enclosures for case {idx} not obtained: {err[-300:]}")
        print(f"witness enclosures for case {idx} not obtained: {err[-300:]}", file=sys.stderr)
        return ""
    return "enclosures (forward, inverse) at the two points: " + pretty_encl(evals[0])


def pretty_encl(text):
    import re

    def dec(m):
        return repr(int(m.group(1)) / int(m.group(2)))
    t = re.sub(r"\{\|\s*QArith_base\.Qnum := \(?(-?\d+)\)?;\s*QArith_base\.Qden := (\d+)\s*\|\}", dec, text)
    t = t.replace("Interval.BDecimal", "").replace("Interval.BInteger", "").replace("Some", "")
    return " ".join(t.split())[:700]


def outside_fold(c, r, p, row):
    """True when the point lies outside the data range on the side the inversion folds at (folded coordinate < 0)."""
    if c.get("update") is None:
        return False
    for bd in r.get("blocks", []):
        e = (bd.get("edges") or {}).get(p)
        if e in ("lower", "upper"):
            col = [u[c["names"].index(p)] for u in c["update"]]
            v = row[c["names"].index(p)]
            return (e == "lower" and v < min(col)) or (e == "upper" and v > max(col))
    return False


def angle_wrap_row(c, r, i):
    """the inverse branch arctan2 / scale covers (-pi, pi] only: lower bound <> 0 and scaled angle beyond it
    (Theorem C07_angle_wrap_refuted); such rows are decided by the direct predicate alone, so that repairing the
    defect does not break the correspondence"""
    if c.get("cls") != "Angle":
        return False
    for bd in r.get("blocks", []):
        if bd["class"] == "Angle" and not bd.get("zero_bound", True):
            p = bd["parameters"][0]
            v = c["points"][i][c["names"].index(p)] * bd["scale"]
            if v > PI or v < -PI:
                return True
    return False


def merged_kwargs(c):
    """[(class, merged kwargs, parameter spec)] of the explicitly configured reparameterisations of a config."""
    out = []
    table = c.get("_registry_gw") if c.get("gw") else c.get("_registry")
    if not table:
        import c07_registry
        reg = c07_registry.registry()
        table = dict(reg["default_gw"], **reg["default_reparameterisations"]) if c.get("gw") else reg["default_reparameterisations"]
    for key, cfg in (c.get("reparameterisations") or {}).items():
        if key in c["names"]:
            name = cfg.get("reparameterisation") if isinstance(cfg, dict) else cfg
            extra = {k: v for k, v in (cfg.items() if isinstance(cfg, dict) else []) if k not in ("reparameterisation", "parameters")}
            ent = table.get("None" if name is None else name)
            if ent:
                out.append((ent[0], dict(ent[1], **extra), key))
        elif key in table and isinstance(cfg, dict):
            out.append((table[key][0], dict(table[key][1], **{k: v for k, v in cfg.items() if k != "parameters"}), cfg.get("parameters")))
    return out


def finding_key(c, r, suffix, i, key):
    """Semantic identity of a failing input (used to match known findings)."""
    mk = merged_kwargs(c)
    if suffix.startswith("raised:run") and r.get("error") == "ValueError" and len(c["points"]) == 1 and "broadcast" in r.get("msg", ""):
        return "C07:single-point-batch-with-duplication"
    if suffix.startswith("raised:run") and r.get("error") == "KeyError" and c.get("update") is None and any(
            cls in ("ScaleAndShift", "Rescale") and (kw.get("estimate_scale") or kw.get("estimate_shift"))
            and isinstance(par, str) and len(par) > 1 for cls, kw, par in mk):
        return "C07:scaleandshift-str-parameter-before-update"
    if any(cls in ("RescaleToBounds", "DistanceReparameterisation") and kw.get("post_rescaling") in ("logit", "log")
           and kw.get("boundary_inversion") for cls, kw, par in mk):
        if suffix in ("nan-forward", "nonfinite-forward", "logj-sum") or suffix.startswith("roundtrip"):
            return "C07:inversion-with-log-or-logit-post"
    if suffix.startswith("roundtrip") and i is not None and angle_wrap_row(c, r, i):
        return "C07:angle-inverse-wrap"
    if (suffix.startswith("roundtrip") or suffix == "logj-sum") and i is not None:
        if any(outside_fold(c, r, p, c["points"][i]) for p in c["names"]):
            # outside the range of the data given to update(), on the side an inversion edge folds at
            return "C07:inversion-fold-outside-updated-bounds"
    return key


def search_on_break(chk, c, r, i, k):
    """A correspondence failed: exhibit the point with a numerical derivative of the implemented map."""
    try:
        if len(c["names"]) != 2 or "x_prime" not in r.get("xp", {}):
            return
        a, b = c["bounds"]["x"]
        pts = [row for row in c["points"] if a + 0.01 * (b - a) < row[0] < b - 0.01 * (b - a)]
        if len(pts) < 3:
            return
        c2 = {kk: v for kk, v in c.items() if not kk.startswith("_") and kk != "neighbours"}
        c2["points"] = pts
        c2["deriv"] = {"name": "x", "prime": "x_prime", "h": [1e-6 * (b - a)] * len(pts)}
        rc, out, err = chk.child("c07_child.py", timeout=120, inp=json.dumps([c2]))
        if rc != 0:
            return
        rr = json.loads(out)[0]
        if "num_logabs_deriv" not in rr:
            return
        diffs = [d - l for d, l in zip(rr["num_logabs_deriv"], rr["lj"]) if finite(d) and finite(l)]
        if diffs and max(diffs) - min(diffs) > 1e-4:
            chk.fail(f"C07:{c.get('cls')}:jacobian-vs-derivative",
                     f"{c['label']}: ln|dx'/dx| - log_j is not constant over the points: spread {max(diffs) - min(diffs):.3g}",
                     {"config": c2, "point_index": None, "kind": "deriv"})
    except Exception as e:  # the search is best effort
        chk.notes.append(f"search_on_break failed: {e}")


def replay_jacobian(c, rp):
    """Re-run the real code on the configuration and let Coq decide again whether the offsets
    'reported log_j - enclosure of the true log|det J|' at the two recorded points are separated."""
    import tempfile
    import c07_registry
    reg = c07_registry.registry()
    c["_registry"] = reg["default_reparameterisations"]
    c["_registry_gw"] = dict(reg["default_gw"], **reg["default_reparameterisations"])
    try:
        c["_aliases"] = c07_registry.gw_aliases()
    except Exception:
        c["_aliases"] = {}
    send = {k: v for k, v in c.items() if not k.startswith("_")}
    r = subprocess.run([common.PY, os.path.join(common.VERIF, "harness", "c07_child.py")], input=json.dumps([send]),
                       capture_output=True, text=True, env=common.child_env())
    res = json.loads(r.stdout)[0]
    if res.get("error"):
        print(json.dumps({"label": c.get("label"), "error": res["error"], "msg": res.get("msg", "")[-300:]}, indent=1))
        print(f"VIOLATION property={PID} replay=(replayed) configuration raised {res['error']}")
        return 1
    terms, specs = block_terms(c, res)
    obs, rowids = observations(c, res, specs)
    pick = []
    for i in rp["rows"]:
        ks = [k for k, j in enumerate(rowids) if j % res["n_in"] == i]
        if not ks:
            print(f"row {i} is not part of the correspondence any more")
            return 0
        pick.append(ks[0])
    txt = (COQ_HDR + f"Definition blocks := {cL(terms)}.\n"
           f"Eval vm_compute in (check_case2 (blocks, [{obs[pick[0]]}; {obs[pick[1]]}])).\n"
           f"Eval vm_compute in (map (lj_enclosures blocks) [{obs[pick[0]]}; {obs[pick[1]]}]).\n")
    with tempfile.TemporaryDirectory() as d:
        path = os.path.join(d, "replay_jacobian.v")
        open(path, "w").write(txt)
        q = subprocess.run(["timeout", "600", "coqc", "-Q", common.COQ, "NessaiV", "-w", "-notation-overridden,-ambiguous-paths", path],
                           capture_output=True, text=True, cwd=d)
    evals = common.parse_evals(q.stdout)
    if q.returncode != 0 or len(evals) != 2:
        print("coqc failed: " + (q.stderr or q.stdout)[-500:])
        return 2
    v = parse_ll(evals[0])
    wf, wb = v[-2], v[-1]
    j0, j1 = rowids[pick[0]], rowids[pick[1]]
    print(json.dumps({"label": c.get("label"), "points": [c["points"][i] for i in rp["rows"]],
                      "reported forward log_j": [res["lj"][j0], res["lj"][j1]],
                      "reported inverse log_j": [res["ljb"][j0], res["ljb"][j1]],
                      "verdicts (x', log_j, x_back, log_j_inv; 0 = outside the enclosure)": v[:-2],
                      "separated offsets forward / inverse": [wf, wb],
                      "enclosures of the true log|det J| (forward, inverse) at the two points": pretty_encl(evals[1])}, indent=1))
    if wf or wb:
        print(f"VIOLATION property={PID} replay=(replayed) reported log_j minus the true log|det J| is not one constant over the two points")
        return 1
    return 0


def ensure_registry(c):
    if "_registry" in c:
        return
    import c07_registry
    reg = c07_registry.registry()
    c["_registry"] = reg["default_reparameterisations"]
    c["_registry_gw"] = dict(reg["default_gw"], **reg["default_reparameterisations"])
    try:
        c["_aliases"] = c07_registry.gw_aliases()
    except Exception:
        c["_aliases"] = {}


def replay(data):
    rp = data["replay"]
    if "config" in rp:
        ensure_registry(rp["config"])
    if "function" in rp:
        r = subprocess.run([common.PY, os.path.join(common.VERIF, "harness", "c07_child.py")], input=json.dumps([rp["function"]]),
                           capture_output=True, text=True, env=common.child_env())
        res = json.loads(r.stdout)[0]
        j = rp.get("point_index", 0)
        x = rp["function"]["x"][j]
        bad = ("error" in res) or not finite(res["xb"][j]) or abs(res["xb"][j] - x) > 1e-9 * (1 + abs(x)) \
            or (rp["function"]["fn"] != "exp" and abs(res["lj"][j] + res["ljb"][j]) > 1e-9 * (1 + abs(res["lj"][j])))
        print(json.dumps({"function": rp["function"]["fn"], "x": x, "observed": {k: (v[j] if isinstance(v, list) else v) for k, v in res.items()}}, indent=1))
        if bad:
            print(f"VIOLATION property={PID} replay=(replayed) {rp['function']['fn']} at {x!r}")
        return 1 if bad else 0
    c = rp["config"]
    r = subprocess.run([common.PY, os.path.join(common.VERIF, "harness", "c07_child.py")], input=json.dumps([c]),
                       capture_output=True, text=True, env=common.child_env())
    res = json.loads(r.stdout)[0]
    if rp.get("kind") == "jacobian":
        return replay_jacobian(dict(c), rp)
    if rp.get("kind") == "jacobian-fd":
        c = dict(c)
        c["fd_rows"] = list(rp["rows"])
        r = subprocess.run([common.PY, os.path.join(common.VERIF, "harness", "c07_child.py")], input=json.dumps([c]),
                           capture_output=True, text=True, env=common.child_env())
        res = json.loads(r.stdout)[0]
        fd = res.get("fd_logdet") or []
        inv = rp.get("direction") == "inverse"
        lj = [res["ljb" if inv else "lj"][j] for j in rp["rows"]]
        # true ln|det J_f|(x) = - ln|det dx/dx'|(x'); reported - true = lj + fd (forward), ljb - fd (inverse)
        offs = [(a - b) if inv else (a + b) for a, b in zip(lj, fd)]
        bad = len(offs) == 2 and all(finite(o) for o in offs) and abs(offs[0] - offs[1]) > 2e-3 * (1 + max(abs(v) for v in lj))
        print(json.dumps({"label": c.get("label"), "points": [c["points"][j] for j in rp["rows"]], "reported log_j": lj,
                          "finite-difference ln|det dx/dx'|": fd, "reported - true (must be one constant)": offs,
                          "enclosures recorded by the check": rp.get("enclosures(forward, inverse) at the two points")}, indent=1))
        if bad:
            print(f"VIOLATION property={PID} replay=(replayed) reported log_j minus the true log|det J| differs between the two points: {offs}")
        return 1 if bad else 0
    if rp.get("kind") == "deriv":
        diffs = [d - l for d, l in zip(res.get("num_logabs_deriv", []), res.get("lj", [])) if finite(d) and finite(l)]
        bad = bool(diffs) and max(diffs) - min(diffs) > 1e-4
        print(json.dumps({"label": c.get("label"), "ln|dx'/dx| - log_j": diffs}, indent=1))
        if bad:
            print(f"VIOLATION property={PID} replay=(replayed) reported log_j is not ln|f'| + const")
        return 1 if bad else 0
    fails = direct_predicate(c, res)
    i = rp.get("point_index")
    print(json.dumps({"label": c.get("label"), "failures": [f[:2] for f in fails][:10],
                      "point": None if i is None else c["points"][i]}, indent=1))
    if fails:
        print(f"VIOLATION property={PID} replay=(replayed) {fails[0][1]}")
        return 1
    return 0
