"""C08: flow and proposal densities are consistent with their samples and normalised."""
import json
import os
import re
import subprocess
from concurrent.futures import ThreadPoolExecutor

import common
from common import cB, cL, cN, cT, cZ, float_dyadic

PID = "C08"


def cD(h):
    m, e = float_dyadic(float.fromhex(h))
    return f"({cZ(m)}, {cZ(e)})"


def finite(*hs):
    return all(h not in ("nan", "inf", "-inf") for h in hs)


# ---------------------------------------------------------------------------------------------------------
def gen_flows(rng, tier):
    base = {"n_blocks": 2, "n_neurons": 8, "n_layers": 1}
    variants = [
        ("realnvp-default", {"ftype": "realnvp"}),
        ("realnvp-perm-actnorm-mlp", {"ftype": "realnvp", "linear_transform": "permutation", "batch_norm_between_layers": False,
                                       "actnorm": True, "net": "mlp"}),
        ("realnvp-nolinear-vp", {"ftype": "realnvp", "linear_transform": None, "use_volume_preserving": True,
                                 "batch_norm_between_layers": False}),
        ("realnvp-svd-bnwithin", {"ftype": "realnvp", "linear_transform": "svd", "batch_norm_within_layers": True}),
        ("realnvp-mvn", {"ftype": "realnvp", "distribution": "mvn", "distribution_kwargs": {"var": 2.0}}),
        ("realnvp-pre-bn", {"ftype": "realnvp", "pre_transform": "batch_norm"}),
        ("maf", {"ftype": "maf"}),
        ("maf-bn-randperm", {"ftype": "maf", "batch_norm_between_layers": True, "use_random_permutations": True}),
        ("nsf", {"ftype": "nsf"}),
        ("nsf-lu-bn", {"ftype": "nsf", "linear_transform": "lu", "batch_norm_between_layers": True, "num_bins": 4}),
    ]
    cases = []
    for name, extra in variants:
        for state in ("fresh", "trained", "reset"):
            if tier == "quick" and state != "trained" and rng.random() < 0.5:
                continue
            dims = rng.choice([2, 3])
            if "svd" in name:
                dims = 6 if state == "trained" else rng.choice([2, 3, 6])
            cfg = dict(base)
            cfg.update(extra)
            if name == "realnvp-default" and dims == 3:
                cfg["mask"] = [1, -1, 1]
            case = {"name": name, "seed": rng.randrange(1 << 30), "dims": dims, "state": state, "flow_config": cfg,
                    "n_points": 6 if tier == "quick" else 12, "epochs": 30 if tier == "quick" else 80}
            # the state of a flow is the result of a HISTORY of public calls (weights, caches of the linear transforms,
            # batch-norm statistics, train / eval mode): a random history ending in the named state
            pre = [op for op in ("fwd", "logp", "inv", "inv_z") if rng.random() < 0.4]
            rng.shuffle(pre)
            if state == "trained":
                case["ops"] = ["train"] + (pre if rng.random() < 0.5 else [])
            elif state == "reset":
                case["ops"] = ["train"] + pre + [rng.choice(["reset_w", "reset_w", "reset_p", "reset_wp"])] \
                    + ([rng.choice(["fwd", "inv"])] if rng.random() < 0.3 else [])
            else:
                case["ops"] = pre if rng.random() < 0.3 else []
            if rng.random() < (0.25 if tier == "quick" else 0.5):
                case["n_big"] = rng.choice([1, 3, 1000, 50001, 65537])
            cases.append(case)
    # every reset kind after every kind of evaluation history, for the two default architectures (systematic, small)
    for name in ("realnvp-default", "nsf-lu-bn", "maf"):
        for pre in (["fwd"], ["inv"], ["fwd", "inv"], ["logp", "inv_z"]):
            for rs in (("reset_w", "reset_p") if tier == "quick" else ("reset_w", "reset_p", "reset_wp")):
                if tier == "quick" and (rs == "reset_p" and pre != ["fwd"] or name != "realnvp-default" and (len(pre) > 1 or rs == "reset_p")):
                    continue
                cfg = dict(base)
                cfg.update(dict(variants)[name])
                cases.append({"name": name, "seed": rng.randrange(1 << 30), "dims": rng.choice([2, 3]), "state": "reset",
                              "ops": ["train"] + pre + [rs], "flow_config": cfg, "n_points": 6,
                              "epochs": 30 if tier == "quick" else 80})
    cfg = dict(base)
    cfg.update({"ftype": "realnvp", "linear_transform": "svd"})
    cases.append({"name": "realnvp-svd-lowdim", "seed": rng.randrange(1 << 30), "dims": rng.choice([2, 3, 4]), "state": "fresh",
                  "flow_config": cfg, "n_points": 6, "epochs": 30})
    # resampled (LARS) base distribution, Gaussian fixed or trainable: a random draw of the base distribution's own parameters
    # after training, finalised as a training run is, then probed like every flow AND integrated on a 2-d grid
    for k in range(3 if tier == "quick" else 8):
        cfg = dict(base)
        cfg.update({"ftype": "realnvp", "distribution": "lars"})
        if k % 3:
            cfg["distribution_kwargs"] = {"trainable": True}
        cases.append({"name": "realnvp-lars" + ("-trainable" if k % 3 else ""), "seed": rng.randrange(1 << 30), "dims": 2,
                      "state": "trained", "ops": ["train", "perturb_base"] + (["fwd"] if k % 2 else []), "flow_config": cfg,
                      "n_points": 6, "epochs": 30, "integrate": True})
    if tier != "quick":
        for name in ("realnvp-default", "maf", "nsf"):
            cfg = dict(base)
            cfg.update(dict(variants)[name])
            cases.append({"name": name + "-2d-integral", "seed": rng.randrange(1 << 30), "dims": 2, "state": "trained",
                          "flow_config": cfg, "n_points": 6, "epochs": 80, "integrate": True})
    return cases


def gen_proposals(rng, tier):
    out = []
    fc = {"n_blocks": 2, "n_neurons": 8}
    combos = [("truncated_gaussian", None), ("uniform_nball", None),
              ("truncated_gaussian", {"x": "rescaletobounds", "y": "rescaletobounds"}),
              ("uniform_nball", {"x": {"reparameterisation": "scale", "scale": 2.5}, "y": "rescaletobounds"}),
              ("gaussian", {"x": {"reparameterisation": "rescaletobounds", "boundary_inversion": False}, "y": "zscore"})]
    for latent, rp in combos:
        for state in ("trained", "fresh"):
            if tier == "quick" and state == "fresh" and rp is not None:
                continue
            out.append({"seed": rng.randrange(1 << 30), "state": state, "latent": latent, "flow_config": dict(fc),
                        "reparameterisations": rp, "expansion": rng.choice([None, 1.0])})
    return out


def gen_ins(rng, tier):
    out = []
    priors = ["band", "hole", "checker", "uniform", "nan-inf", "checker"]     # excluded regions INSIDE the bounds
    for reparam in ("logit", None):
        for n_flows in ((1, 2) if tier == "quick" else (1, 2, 3)):
            # batch sizes over several orders of magnitude, around powers of two and of ten (chunked evaluation boundaries)
            bigs = [rng.choice([1, 2, 999, 4097, 10001]), rng.choice([50000, 50001, 65537, 100003, 131073])]
            if tier != "quick":
                bigs += rng.sample([3, 1000, 32769, 70000, 100000, 150001], 3)
            out.append({"seed": rng.randrange(1 << 30), "flow_config": {"n_blocks": 2, "n_neurons": 8}, "reparam": reparam,
                        "n_flows": n_flows, "n": 10, "reset_flow": rng.random() < 0.7, "n_bigs": sorted(bigs),
                        "prior": priors[len(out) % len(priors)],
                        # exact zero weights: none / one flow / the initial proposal / several
                        "zero_ids": [z for z in [[], [0], [-1], [0, -1], [n_flows - 1], [-1]][len(out) % 6]
                                     if n_flows > 1 or z == 0 or len(out) % 6 != 3],
                        "draw_ns": [1, rng.choice([2, 5, 13]), rng.choice([40, 101]), rng.choice([300, 777])]})
    return out


def slug(s):
    return re.sub(r"[^a-z0-9]+", "-", s.lower()).strip("-")[:70]


def shard_eval(chk, name, hdr, chkname, lits, size=1500):
    bad = []
    for k in range(0, len(lits), size):
        txt = hdr + f"Eval vm_compute in (mism {chkname} {cL(lits[k:k + size])}).\n"
        ok, evals, err = chk.coq_run(f"{name}_{k}", txt, timeout=600)
        if not ok or len(evals) != 1:
            return None, f"shard {name}_{k} did not evaluate: {err[-600:]}"
        bad += [k + i for i in common.parse_nat_list(evals[0])]
    return bad, ""


def run(chk):
    rng = chk.rng
    chk.rule = ("real nessai flows built through FlowModel / configure_model: RealNVP (LU / permutation / SVD / no linear transform, "
                "batch norm between / within layers, actnorm, MLP / ResNet, volume preserving, custom mask, multivariate-normal "
                "base, batch-norm pre-transform), MAF, neural spline flows; fresh, briefly trained, reset; float32 and float64 "
                "(separate processes); FlowProposal with truncated-Gaussian / uniform n-ball / Gaussian latent priors and several "
                "reparameterisations; ImportanceFlowProposal with 1-3 flows, logit / no reparameterisation; "
                "non-trivial = some log-determinant or rescaling log-Jacobian of the case is larger than 1e-3 in magnitude; "
                "distinct by configuration")
    chk.assumptions += [
        "oracles: every glasflow transform, base distribution and nessai reparameterisation is a pair of maps satisfying layer_ok "
        "(mutual inverses, opposite log-determinants); validated numerically on each real layer every run (counted as oracle "
        "validations), not proved - glasflow is out of scope",
        "theorems are over Coq's real numbers (classical real axioms, see Print Assumptions); the run-time recomputation of the "
        "glue uses exact dyadic arithmetic on the recorded float components with the tolerance stated in coq/Run/C08_run.v",
        "NOT proved: 'in two dimensions the density integrates to one' - thorough tier integrates a trained 2-d flow on a grid as "
        "numeric validation only",
        "the LARS (resampled) base distribution carries a Monte Carlo estimate of its normalisation: its 2-d grid integral is "
        "compared with the sampled mass inside the grid at 3 % + 3.5 sigma (exact flows: 1 %)",
    ]
    chk.static_props(["C08"], ["C08_run"])
    jobs = []
    for f64 in (False, True):
        flows = gen_flows(rng, chk.tier)
        if f64 and chk.tier == "quick":
            flows = flows[::3]
        for k in range(0, len(flows), 8):           # shards run in parallel child processes
            jobs.append(("flow", f64, {"float64": f64, "flow": flows[k:k + 8]}))
        props = gen_proposals(rng, chk.tier)
        if f64 and chk.tier == "quick":
            props = props[:2]
        for k in range(0, len(props), 3):
            jobs.append(("proposal", f64, {"float64": f64, "proposal": props[k:k + 3]}))
    for c in gen_ins(rng, chk.tier):
        jobs.append(("ins", False, {"float64": False, "ins": [c]}))
    if chk.tier != "quick":
        jobs.append(("ins", True, {"float64": True, "ins": gen_ins(rng, chk.tier)[:2]}))
    with ThreadPoolExecutor(max_workers=min(len(jobs), 16)) as ex:
        import time as _time

        def timed(j):
            t0 = _time.time()
            r = chk.child("c08_child.py", (), 1200 if chk.tier == "quick" else 3000, None, json.dumps(j))
            return r, _time.time() - t0

        futs = [ex.submit(timed, j) for _, _, j in jobs]
        timed_results = [f.result() for f in futs]
        results = [r for r, _ in timed_results]
        chk.notes.append("child wall times (s): " + ", ".join(f"{k}{'64' if f else '32'}x{len(j[k])}={t:.0f}"
                                                            for (k, f, j), (_, t) in zip(jobs, timed_results)))
        t_children = _time.time()
    glue, totals, aligned = [], [], []
    layers_bad, n_layers = [], 0
    for (kind, f64, job), (rc, out, err) in zip(jobs, results):
        tag = f"{kind}:{'float64' if f64 else 'float32'}"
        if rc != 0:
            chk.oblige(f"implementation child ran ({tag})", "harness", False, err[-1500:])
            continue
        res = json.loads(out)[kind]
        for c, r in zip(job[kind], res):
            chk.evaluations += 1
            label = c.get("name") or c.get("latent") or f"ins-{c.get('reparam')}-{c.get('n_flows')}"
            chk.count(f"{tag}:{label}:{c.get('state', '')}")
            if c.get("ops") is not None:
                chk.count("history:" + ">".join(c["ops"]) if c["ops"] else "history:(none)")
            if "config_error" in r:
                chk.count(f"{tag}:rejected-configuration")
                chk.notes.append(f"{tag} {label}: {r['config_error']}")
                continue
            if "child_error" in r:
                chk.fail(f"C08:raised:{kind}", f"{tag} {label}: {r['trace'][-400:]}", {"kind": kind, "float64": f64, "case": c})
                continue
            if r.get("non_finite_density"):
                lt = c["flow_config"].get("linear_transform", "default")
                chk.fail(f"C08:non-finite-density:{lt}:dims={c['dims']}",
                         f"{tag} {label} [{c['state']}, {c['dims']} dims]: the flow's log_prob is not finite at ordinary points "
                         f"(first non-finite layer output: {r['culprit']}; NaN parameters: {r['nan_parameters']})",
                         {"kind": kind, "float64": f64, "case": c})
                continue
            for d in r["direct"]:
                if not d["ok"]:
                    chk.fail(f"C08:{slug(d['name'])}", f"{tag} {label} [{c.get('state', '')}]: {d['name']} FAILS: {d['detail']}",
                             {"kind": kind, "float64": f64, "case": c})
            for ly in r.get("layers", []):
                n_layers += 1
                chk.oracle_validations += 1
                if not ly.get("ok"):
                    layers_bad.append(f"{tag} {label}: {ly}")
            if r.get("oracle"):
                chk.oracle_validations += 1
                if not r["oracle"]["ok"]:
                    layers_bad.append(f"{tag} {label}: rescaling {r['oracle']}")
            if max(r.get("max_abs_ld", 0.0), r.get("max_abs_lj", 0.0)) > 1e-3:
                chk.nontriv((tag, c))
            for al in r.get("aligned", []):
                chk.count(f"ins:draw:prior={c.get('prior')}:{'some' if al['rejected_by_mask'] else 'no'}-point-rejected-by-the-second-mask")
                if al["rejected_by_mask"]:
                    chk.nontriv((tag, c.get("seed"), al["n"]))
                if all(a >= 0 and b >= 0 for a, b in al["obs"]):
                    aligned.append(("(" + cT(str(al["n"]), cL(cT(str(xs[0] if xs else 0), cL(map(cB, m))) for m, xs, rs in al["batches"]),
                                             cL(cT(str(a), str(b)) for a, b in al["obs"])) + ")%nat", tag, label))
                else:
                    chk.fail("C08:draw-returned-an-unknown-point-or-row", f"{tag} {label}: draw(n={al['n']}) returned a sample or a "
                             "log_q row that is none of the candidates / rows it computed", {"kind": kind, "float64": f64, "case": c})
            for k, p, a, b, top, what in r["glue"]:
                if finite(a, b, top):
                    glue.append((cT(k, p, cD(a), cD(b), cD(top)), what, tag, label))
                else:
                    chk.count("glue:skipped-non-finite")
            for p, lds, total in r.get("totals", []):
                if finite(total, *lds):
                    totals.append((cT(p, cL(map(cD, lds)), cD(total)), "CompositeTransform total", tag, label))
            if "integral" in r:
                chk.oracle_validations += 1
                chk.notes.append(f"{tag} {label}: grid integral of exp(log_prob) over the plane = {r['integral']:.4f} (validation only)")
                chk.count("integral-within-3-percent-of-the-sampled-grid-mass"
                          if abs(r["integral"] - r.get("grid_mass", 1.0)) < 0.03 else "integral-off")
    chk.oblige(f"oracle hypothesis layer_ok holds numerically for each of the {n_layers} real layers / rescalings exercised",
               "oracle", not layers_bad, "; ".join(layers_bad[:5]))
    hdr = (common.COQ_HEADER + "From NessaiV Require Import Model.C08_Flow Run.C08_run.\nLocal Open Scope Z_scope.\n")
    groups = {}
    for lit, what, tag, label in glue:
        groups.setdefault(what.split("(")[0], []).append((lit, tag, label))
    # all Coq evaluations run concurrently (each coqc start-up costs seconds)
    tasks = [("glue_" + slug(what).replace("-", "_"), "chk_glue", items, 1500,
              f"correspondence: {what} = model glue recomputed in exact dyadic arithmetic from the recorded components "
              f"({len(items)} values)") for what, items in sorted(groups.items())]
    tasks.append(("aligned", "chk_draw_aligned_seq", aligned, 6,
                  f"correspondence: ImportanceFlowProposal.draw returns (sample, log_q row) pairs = model draw_aligned on the "
                  f"recorded batches and masks ({len(aligned)} draws)"))
    tasks.append(("totals", "chk_total", totals, 1500,
                  f"correspondence: CompositeTransform log-determinant = sum of the layers' ({len(totals)} values)"))
    with ThreadPoolExecutor(max_workers=8) as ex:
        outs = list(ex.map(lambda t: shard_eval(chk, t[0], hdr, t[1], [i[0] for i in t[2]], size=t[3]), tasks))
    for (name, fn, items, size, title), (bad, e) in zip(tasks, outs):
        chk.oblige(title, "correspondence", bad == [],
                   e or "; ".join(f"{items[i][1]} {items[i][2]}: {items[i][0][:400]}" for i in (bad or [])[:3]))
        chk.traces += len(items)
    chk.notes.append(f"Coq comparison wall time (s): {_time.time() - t_children:.0f}")
    for lit, what, tag, label in glue[:: max(1, len(glue) // 5)]:
        chk.sample({"what": what, "config": f"{tag} {label}", "literal": lit})


def replay(data):
    rp = data["replay"]
    job = {"float64": rp["float64"], rp["kind"]: [rp["case"]]}
    r = subprocess.run([common.PY, os.path.join(common.VERIF, "harness", "c08_child.py")], input=json.dumps(job),
                       capture_output=True, text=True, env=common.child_env(), cwd="/tmp")
    res = json.loads(r.stdout)[rp["kind"]][0]
    fails = [d for d in res.get("direct", []) if not d["ok"]]
    if "child_error" in res:
        fails.append({"name": "raised", "detail": res["trace"][-300:]})
    if res.get("non_finite_density"):
        fails.append({"name": "the flow's log_prob is not finite at ordinary points",
                      "detail": f"first non-finite layer output: {res['culprit']}; log_prob {res['log_prob']}"})
    print(json.dumps({"case": rp["case"], "failures": fails}, indent=1)[:3000])
    if fails:
        print(f"VIOLATION property={PID} replay=(replayed) {fails[0]['name']}: {fails[0]['detail']}")
        return 1
    return 0
