"""C14: seeded runs are reproducible and independent of the parallelisation settings."""
import concurrent.futures
import json
import os
import subprocess
import sys

import common
from common import cL, cN, cT, cZ

sys.path.insert(0, common.VERIF + "/translator")
PID = "C14"
PARTS = ["nested_samples", "weights", "evidence", "counts"]       # what the property names
ALL_PARTS = PARTS + ["posterior"]     # + the posterior samples FlowSampler.run draws afterwards (consumers in posterior.py)
KEY_UNKNOWN_POOL = "C14:user-pool-of-unknown-size"

GEN_HDR = ("From Coq Require Import String.\nFrom Coq Require Import List ZArith Bool Arith.\nImport ListNotations.\n"
           "From NessaiV Require Import Model.C14_Repro Proofs.C14_Repro_proofs Run.C14_run.\n"
           "Set Printing Width 1000000.\nSet Printing Depth 1000000.\n")


def child_json(chk, job, timeout, hashseed="0"):
    # every child gets its own PYTHONHASHSEED: the iteration order of sets of strings differs between the processes
    rc, out, err = chk.child("c14_child.py", timeout=timeout, inp=json.dumps(job), env={"PYTHONHASHSEED": hashseed})
    if rc != 0:
        return None, (err or "")[-1500:] + f" (rc {rc})"
    try:
        return json.loads(out), ""
    except Exception as e:
        return None, f"unparsable child output: {e}: {out[-300:]}"


def entry_key(e):
    kind, site, detail, line = e
    if kind == "poolwrite" and detail == "allow_vectorised":
        return KEY_UNKNOWN_POOL
    return f"C14:table:{kind}:{site}:{detail}"


def run_cfgs(tier, seed):
    """-> list of children (each a list of run configs); the reference run is std_ref / ins_ref"""
    q = tier == "quick"
    hashseeds = {}
    s = {"sampler": "std", "seed": seed}
    i = {"sampler": "ins", "seed": seed}
    children = [
        [dict(s, name="std_ref", repeat=2, group="std", what="same process twice"),
         dict(s, name="std_chunk1", chunksize=1, group="std", what="chunk size 1"),
         dict(s, name="std_chunk_big", chunksize=1000, group="std", what="chunk size larger than any batch"),
         dict(s, name="std_otherseed", seed=seed + 1, group=None, what="a different seed (sensitivity of the digest)")],
        [dict(s, name="std_other_process", group="std", what="a different process"),
         dict(s, name="std_pool1", n_pool=1, group="std", what="n_pool=1"),
         dict(s, name="std_pool2", n_pool=2, group="std", what="n_pool=2"),
         dict(s, name="std_pool3_chunk7", n_pool=3, chunksize=7, group="std", what="n_pool=3, chunk size 7")],
        [dict(s, name="std_userpool2", user_pool=2, group="std", what="user-supplied multiprocessing pool of 2"),
         dict(s, name="std_pool2_parprior", n_pool=2, parallelise_prior=True, group="std", what="n_pool=2, parallelise_prior"),
         dict(s, name="std_opaque_npool", user_pool=2, opaque=True, n_pool=2, group="std",
              what="user-supplied pool of unknown type with n_pool given"),
         dict(s, name="std_opaque", user_pool=2, opaque=True, group="std",
              what="user-supplied pool whose size nessai cannot determine", finding=KEY_UNKNOWN_POOL)],
        [dict(i, name="ins_ref", repeat=2, group="ins", what="same process twice"),
         dict(i, name="ins_pool2", n_pool=2, group="ins", what="n_pool=2"),
         dict(i, name="ins_chunk1", chunksize=1, group="ins", what="chunk size 1")],
        [dict(i, name="ins_other_process", group="ins", what="a different process"),
         dict(i, name="ins_pool3_chunk5", n_pool=3, chunksize=5, group="ins", what="n_pool=3, chunk size 5"),
         dict(i, name="ins_userpool2_parprior", user_pool=2, parallelise_prior=True, group="ins",
              what="user-supplied pool of 2, parallelise_prior"),
         dict(i, name="ins_otherseed", seed=seed + 1, group=None, what="a different seed (sensitivity of the digest)")],
    ]
    # boundary values of the seed range [0, 2**32 - 1]: same process twice / another process with a pool
    for tag, sd in (("seed0", 0), ("seedmax", 2 ** 32 - 1)):
        sb = {"sampler": "std", "seed": sd, "max_iteration": 60}
        ib = {"sampler": "ins", "seed": sd, "max_iteration": 2}
        children += [
            [dict(sb, name=f"std_{tag}_ref", repeat=2, group=f"std_{tag}", what=f"seed {sd}: same process twice"),
             dict(ib, name=f"ins_{tag}_other_process", n_pool=2, group=f"ins_{tag}", what=f"seed {sd}: a different process, n_pool=2")],
            # the standard run comes first: an importance run registers extra live-point fields (logW, logQ, logU)
            # process-wide, which changes the dtype of every later standard run in that process
            [dict(sb, name=f"std_{tag}_other_process", n_pool=2, group=f"std_{tag}", what=f"seed {sd}: a different process, n_pool=2"),
             dict(ib, name=f"ins_{tag}_ref", repeat=2, group=f"ins_{tag}", what=f"seed {sd}: same process twice")],
        ]
    # coverage of the randomness consumers of the usage table: one configuration per proposal class / latent prior /
    # reparameterisation / training option / posterior method, each run twice in one process
    cov = [
        ("analytic", dict(extra={"analytic_priors": True}), "analytic_priors=True (AnalyticProposal)"),
        ("augmented", dict(extra={"flow_proposal_class": "augmentedflowproposal", "augment_dims": 1}), "AugmentedFlowProposal"),
        ("nball", dict(extra={"latent_prior": "uniform_nball"}), "latent_prior=uniform_nball"),
        ("gaussian", dict(extra={"latent_prior": "gaussian", "constant_volume_mode": False}), "latent_prior=gaussian"),
        ("uniform", dict(extra={"latent_prior": "uniform", "constant_volume_mode": False}), "latent_prior=uniform"),
        ("flowprior", dict(extra={"latent_prior": "flow", "constant_volume_mode": False}), "latent_prior=flow"),
        ("angle", dict(model="angle", extra={"reparameterisations": {"phi": {"reparameterisation": "angle"}, "y": "default"}}),
         "angle reparameterisation (radial draws)"),
        ("inversion", dict(extra={"reparameterisations": {"x": {"reparameterisation": "inversion", "detect_edges": True},
                                                          "y": "default"}}), "boundary inversion"),
        ("noise", dict(extra={"reset_permutations": 1, "reset_weights": 1,
                              "training_config": {"noise_type": "constant", "noise_scale": 0.01, "use_dataloader": False}}),
         "training noise, flow resets, no dataloader"),
        ("multinomial", dict(run_kwargs={"posterior_sampling_method": "multinomial_resampling"}),
         "multinomial posterior resampling"),
    ]
    # the SAME settings objects handed to both runs of a group (what a script that repeats a run does), in the current and
    # in the deprecated layout (training keys and model_config inside flow_config)
    sh = {"repeat": 2, "shared": True, "seed": seed + 5}
    children += [
        [dict(sh, sampler="std", name="shared_std_new_ref", layout="new", group="shared_std_new",
              what="shared flow_config / training_config objects, current layout: same process twice"),
         dict(sh, sampler="ins", name="shared_ins_dep_ref", layout="deprecated", group="shared_ins_dep",
              what="shared flow_config object, deprecated layout: same process twice")],
        [dict(sh, sampler="std", name="shared_std_dep_ref", layout="deprecated", group="shared_std_dep",
              what="shared flow_config object, deprecated layout: same process twice"),
         dict(sh, sampler="ins", name="shared_ins_new_ref", layout="new", group="shared_ins_new",
              what="shared flow_config / training_config objects, current layout: same process twice")],
    ]
    # different processes with different string-hash seeds, multi-criteria / multi-option configurations
    multi_i = {"sampler": "ins", "seed": seed + 7, "max_iteration": 6,
               "extra": {"stopping_criterion": ["ratio", "Z_err", "log_dZ"], "tolerance": [0.0, 0.03, 1e-7],
                         "check_criteria": "any"}}
    multi_s = {"sampler": "std", "seed": seed + 7,
               "extra": {"reparameterisations": {"x": {"reparameterisation": "rescaletobounds", "update_bounds": True},
                                                 "y": {"reparameterisation": "rescaletobounds", "rescale_bounds": [0.0, 1.0]}},
                         "flow_config": {"n_blocks": 2, "n_neurons": 8, "batch_norm_between_layers": True, "linear_transform": "lu"}}}
    for hs_ in ("0", "1", "2", "random"):
        hashseeds[len(children)] = hs_
        ref = "_ref" if hs_ == "0" else ""
        children.append([dict(multi_s, name=f"std_hash{hs_}{ref}", group="std_hash",
                              what=f"several reparameterisation / flow options, process with PYTHONHASHSEED={hs_}"),
                         dict(multi_i, name=f"ins_hash{hs_}{ref}", group="ins_hash",
                              what=f"three stopping criteria, process with PYTHONHASHSEED={hs_}")])
    # plotting switched on (every plotting option the samplers offer), the second run of the pair writing into the
    # directory the first one filled (resume=False); and wall-clock scheduled checkpoints that fire at different
    # iterations in the two runs of a pair (the second run's likelihood returns the same values, a little later)
    pl = {"plots": True, "seed": seed + 9}
    children += [
        [dict(pl, sampler="std", name="plots_std_ref", repeat=2, reuse_output=True, group="plots_std",
              what="plot=True, proposal_plots=True: second run into the output directory the first run filled"),
         dict(sampler="ins", seed=seed + 9, name="ckpt_ins_ref", repeat=2, group="ckpt_ins", max_iteration=5,
              extra={"tolerance": -50.0}, checkpoint={"interval": 0.4, "sleep": [0, 0.25]},
              what="checkpoint_interval=0.4 s: second run with a slower likelihood (checkpoints at other iterations)")],
        [dict(sampler="std", seed=seed + 9, name="ckpt_std_ref", repeat=2, group="ckpt_std",
              checkpoint={"interval": 0.002, "sleep": [0, 0.0004]},
              what="checkpoint_interval=0.002 s: second run with a slower likelihood (checkpoints at other iterations)"),
         dict(pl, sampler="std", name="plots_std_fresh", group="plots_std",
              what="plot=True, proposal_plots=True: fresh directory in a different process"),
         dict(pl, sampler="ins", name="plots_ins_ref", repeat=2, reuse_output=True, group="plots_ins",
              what="plot=True with pool / training / level plots: second run into the directory the first run filled")],
    ]
    covc = [[], [], [], []]
    for j, (tag, kw_, what) in enumerate(cov):
        covc[j % 4].append(dict({"sampler": "std", "seed": seed + 3}, name=f"cov_{tag}_ref", repeat=2, group=f"cov_{tag}",
                                what=f"{what}: same process twice", **kw_))
    children += covc
    if not q:
        s2 = {"sampler": "std", "seed": seed + 10, "nlive": 100, "max_iteration": 300}
        i2 = {"sampler": "ins", "seed": seed + 10, "nlive": 80, "max_iteration": 5}
        children += [
            [dict(s2, name="std2_ref", repeat=2, group="std2", what="same process twice"),
             dict(s2, name="std2_pool4", n_pool=4, group="std2", what="n_pool=4"),
             dict(s2, name="std2_chunk3_pool2", n_pool=2, chunksize=3, group="std2", what="n_pool=2, chunk size 3")],
            [dict(s2, name="std2_other_process", group="std2", what="a different process"),
             dict(s2, name="std2_userpool3", user_pool=3, chunksize=11, group="std2", what="user pool of 3, chunk size 11"),
             dict(s2, name="std2_parprior", n_pool=3, parallelise_prior=True, group="std2", what="n_pool=3, parallelise_prior")],
            [dict(i2, name="ins2_ref", repeat=2, group="ins2", what="same process twice"),
             dict(i2, name="ins2_pool4", n_pool=4, group="ins2", what="n_pool=4"),
             dict(i2, name="ins2_chunk2", chunksize=2, n_pool=2, group="ins2", what="n_pool=2, chunk size 2")],
            [dict(i2, name="ins2_other_process", group="ins2", what="a different process"),
             dict(i2, name="ins2_userpool3", user_pool=3, group="ins2", what="user pool of 3"),
             dict(i2, name="ins2_chunk_big", chunksize=5000, group="ins2", what="chunk size larger than any batch")],
        ]
        for j in (1, 2, 3):
            sj = {"sampler": "std", "seed": seed + 100 * j}
            ij = {"sampler": "ins", "seed": seed + 100 * j, "nlive": 60, "max_iteration": 4}
            children += [
                [dict(sj, name=f"std_s{j}_ref", repeat=2, group=f"std_s{j}", what="same process twice"),
                 dict(sj, name=f"std_s{j}_pool2_chunk5", n_pool=2, chunksize=5, group=f"std_s{j}", what="n_pool=2, chunk size 5")],
                [dict(sj, name=f"std_s{j}_userpool3", user_pool=3, group=f"std_s{j}", what="user pool of 3 in a different process"),
                 dict(ij, name=f"ins_s{j}_pool2", n_pool=2, group=f"ins_s{j}", what="n_pool=2 in a different process")],
                [dict(ij, name=f"ins_s{j}_ref", repeat=2, group=f"ins_s{j}", what="same process twice"),
                 dict(ij, name=f"ins_s{j}_chunk3_parprior", chunksize=3, n_pool=2, parallelise_prior=True, group=f"ins_s{j}",
                      what="n_pool=2, chunk size 3, parallelise_prior")],
            ]
    return children, hashseeds


def run(chk):
    chk.rule = ("pairs of real short runs of both samplers (2-d model, likelihood built from exactly rounded operations on a "
                "2^-10 grid so that vectorised and pointwise evaluation agree bit for bit): the same configuration twice in "
                "one process and in another process; pool sizes 1..3 (4 in the thorough tier), a user-supplied "
                "multiprocessing pool, a user pool of unknown type with and without n_pool, chunk sizes 1 .. larger than "
                "any batch, parallelise_prior; compared by SHA-256 digests of nested samples, posterior weights, evidence "
                "(+ error) and evaluation / iteration counts; non-trivial = a run whose setting differs from the reference; "
                "a run with another seed shows the digest is sensitive")
    chk.assumptions += [
        "oracle: pool.map is order preserving (C10); the vectorised form of the user function agrees with the pointwise form (exactly rounded likelihood in the runs)",
        "oracle: numpy's global RandomState and torch's global generator are functions of the seed given to np.random.seed / torch.manual_seed (validated through the real configure_random_seed each run)",
        "scipy frozen-distribution .rvs without random_state, torch distributions and glasflow flows draw from those two global generators (library behaviour, not verified)",
        "determinism of torch CPU kernels with one thread and of the OS is validated by the digest runs, not proved",
        "tie A covers the nessai package only (77 files); the user's model and third-party libraries are outside the table",
        "each child process runs with a different PYTHONHASHSEED, so set-of-string iteration order differs between the compared processes",
    ]
    chk.static_props(["C14"], ["C14_run"])

    # ---- tie A: the regenerated table -----------------------------------------------------------------
    import c14_rngtable as T
    from pyast import Declined
    entries = None
    try:
        _, entries, nfiles = T.table()
        chk.translator["usage table"] = {"status": "translated", "files": nfiles, "entries": len(entries)}
        for k, _, d, _ in entries:
            chk.count(f"table:{k}:{d}" if k in ("rand", "set") else f"table:{k}")
    except Declined as e:
        chk.translator["usage table"] = f"declined: {e}"
    rejected = []
    if entries is not None:
        txt = GEN_HDR + T.table_text(entries) + "Eval vm_compute in (rejected pool_sites gen_table).\n" \
            "Eval vm_compute in (rng_confined pool_sites seed_site init_site gen_table).\n"
        ok, evals, err = chk.coq_run("table", txt, timeout=300)
        if ok and len(evals) == 2:
            rejected = [entries[i] for i in common.parse_nat_list(evals[0])]
            chk.translator["usage table"]["rejected"] = [list(e) for e in rejected]
            chk.translator["usage table"]["rng_confined_on_full_table"] = evals[1]
        else:
            chk.oblige("usage table evaluates in Coq", "today", False, err)

    # ---- tie B: real runs ---------------------------------------------------------------------------------
    seed = 1400 + chk.seed
    root = os.path.join(chk.build, "runs")
    children, hashseeds = run_cfgs(chk.tier, seed)
    results = {}
    with concurrent.futures.ThreadPoolExecutor(max_workers=8) as ex:
        futs = [ex.submit(child_json, chk, {"mode": "runs", "root": f"{root}_{k}", "runs": cfgs}, 1500,
                          hashseeds.get(k, str(101 + 17 * k)))
                for k, cfgs in enumerate(children)]
        fseed = ex.submit(child_json, chk, {"mode": "seedfn", "seeds": [seed, seed, seed + 1, None, 0, 0, 2 ** 32 - 1, 2 ** 32 - 1]}, 300)
        for k, f in enumerate(futs):
            res, err = f.result()
            chk.oblige(f"real runs, child {k} ({', '.join(c['name'] for c in children[k])}) ran", "harness", res is not None, err)
            if res is not None:
                for r in res["runs"]:
                    results[r["name"]] = r
        sres, serr = fseed.result()
    hs_of = {c["name"]: hashseeds.get(k, str(101 + 17 * k)) for k, cfgs in enumerate(children) for c in cfgs}
    confirmed = set()
    groups = {}
    labels = []
    for cfgs in children:
        for c in cfgs:
            r = results.get(c["name"])
            if r is None:
                continue
            for k, rep in enumerate(r["reps"]):
                if "error" in rep:
                    chk.oblige(f"real run {c['name']} completed", "harness", False, rep.get("trace", rep["error"]))
                    continue
                chk.evaluations += 1
                chk.count("runs:" + c["sampler"])
                if c.get("reuse_output"):
                    chk.count("runs into a directory that already holds output files" if rep.get("output_files_before")
                              else "runs into an empty directory (first of a pair)")
                if c.get("checkpoint") and k == 1:
                    its0, its1 = r["reps"][0].get("checkpoint_iterations"), rep.get("checkpoint_iterations")
                    chk.count("checkpoint pair: checkpoints fired at different iterations" if its0 != its1
                              else "checkpoint pair: same checkpoint iterations (pair not discriminating this time)")
                    chk.notes.append(f"{c['name']}: checkpoints written at iterations {its0} / {its1}")
                added = [d_ for d_ in rep.get("settings_diff", []) if d_["kind"] == "added"]
                lost = [d_ for d_ in rep.get("settings_diff", []) if d_["kind"] != "added"]
                for d_ in added:
                    chk.count("caller's settings: key added by nessai: " + d_["path"])
                if lost:
                    chk.fail(f"C14:caller-settings-edited:{c['sampler']}:{lost[0]['path']}",
                             f"{c['sampler']} sampler ({c.get('layout', 'current')} layout): FlowSampler edited the settings it was "
                             f"given: " + "; ".join(f"{d_['path']} {d_['kind']} ({d_.get('before')} -> {d_.get('after', 'missing')})"
                                                    for d_ in lost[:4]),
                             {"reference": c, "run": c, "settings_diff": rep["settings_diff"]})
                if rep.get("recorded_seed") != c["seed"]:
                    chk.fail(f"C14:seed-not-recorded:{c['sampler']}:seed={c['seed']}",
                             f"{c['sampler']} sampler: seed {c['seed']} was requested, the sampler records and uses "
                             f"seed {rep.get('recorded_seed')}", {"reference": c, "run": c, "observed": rep,
                                                                   "requested_seed": c["seed"]})
                if c["group"] is None:
                    continue
                groups.setdefault(c["group"], []).append((c, k, rep))
    coq_groups = []
    for g, members in groups.items():
        ref = next(((c, k, rep) for c, k, rep in members if c["name"].endswith("_ref") and k == 0), None)
        if ref is None:
            chk.oblige(f"reference run of group {g} available", "harness", False, "")
            continue
        refd = ref[2]["parts"]
        ds = []
        for c, k, rep in members:
            if c is ref[0] and k == 0:
                continue
            what = c["what"] if not (c is ref[0]) else "same process, second run"
            diff = [p for p in ALL_PARTS if rep["parts"][p] != refd[p]]
            chk.nontriv((g, c["name"], k))
            chk.count("compared:" + what)
            if diff:
                key_ = c.get("finding") or ("C14:" + c["sampler"] + ":" + (c["name"][len(c["sampler"]) + 1:]
                                                                      if c["name"].startswith(c["sampler"] + "_") else c["name"]))
                if c.get("finding"):
                    confirmed.add(c["finding"])
                chk.fail(key_, f"{c['sampler']} sampler, seed {c['seed']}: {what} changes {', '.join(diff)} "
                         f"(log Z {ref[2]['logZ']} -> {rep['logZ']}, evaluations {ref[2]['evals']} -> {rep['evals']})",
                         {"reference": ref[0], "run": c, "hashseeds": [hs_of[ref[0]["name"]], hs_of[c["name"]]],
                          "observed": {"reference": ref[2], "run": rep}})
            if not c.get("finding"):
                for p in ALL_PARTS:
                    labels.append(f"{c['name']}[{k}].{p}")
                    ds.append((len(labels) - 1, int(rep["parts"][p], 16), int(refd[p], 16)))
        coq_groups += ds
        chk.sample({"group": g, "reference": {k: v for k, v in ref[2].items() if k != "parts"},
                    "reference_digests": refd, "members": [c["name"] for c, _, _ in members]})
    # which randomness consumers of the table did the runs execute? (recorded by wrappers around the numpy / torch /
    # scipy entry points in the children)
    executed = set()
    for r in results.values():
        for rep in r["reps"]:
            executed |= set(rep.get("sites", []))
    if entries is not None:
        def short(site):
            f, _, q_ = site.partition("::")
            return f + "::" + q_.split(".")[-1]
        consumers = sorted({short(site) for k_, site, d, _ in entries
                            if k_ == "rand" and d in ("NumpyGlobal", "TorchGlobal", "ScipyGlobal")})
        hit = [c_ for c_ in consumers if c_ in executed]
        missed_sites = [c_ for c_ in consumers if c_ not in executed]
        chk.distribution["table consumers (numpy/torch/scipy call sites, by function) executed by the run groups"] = \
            f"{len(hit)} of {len(consumers)}"
        chk.notes.append("consumer functions of the table not executed by any run group (an unseeded consumer there is "
                         "reported by tie A alone): " + ", ".join(missed_sites))
    # sensitivity: another seed must change the digests
    for nm, refnm in (("std_otherseed", "std_ref"), ("ins_otherseed", "ins_ref")):
        a, b = results.get(nm), results.get(refnm)
        if a and b and "parts" in a["reps"][0] and "parts" in b["reps"][0]:
            same = a["reps"][0]["parts"]["nested_samples"] == b["reps"][0]["parts"]["nested_samples"]
            chk.notes.append(f"{nm}: digest {'UNCHANGED (insensitive!)' if same else 'differs from the reference, as it should'}")
            chk.oracle_validations += 1
    if coq_groups:
        lits = [cT(cZ(ref_), cL([cT(cN(i), cZ(d))])) for i, d, ref_ in coq_groups]
        txt = GEN_HDR + f"Definition gs : list (Z * list (nat * Z)) := {cL(lits)}.\nEval vm_compute in (groups_bad gs).\n"
        ok, evals, err = chk.coq_run("digests", txt, timeout=300)
        bad = [labels[i] for i in common.parse_nat_list(evals[0])] if ok and len(evals) == 1 else []
        chk.oblige(f"correspondence: digests of nested samples / weights / evidence / counts / posterior samples of every run in a group equal "
                   f"the reference run's, as C14_par_independent and C14_function_of_seed_stream say ({len(lits)} comparisons)",
                   "correspondence", ok and not bad, err or "differ: " + "; ".join(bad[:8]))
        chk.traces += len(lits)
    # ---- the seeding function itself ------------------------------------------------------------------------
    if sres is None:
        chk.oblige("configure_random_seed child ran", "harness", False, serr)
    else:
        s = sres["seedfn"]
        okseed = s[0]["np"] == s[1]["np"] and s[0]["torch"] == s[1]["torch"] and s[0]["np"] != s[2]["np"] \
            and s[0]["torch"] != s[2]["torch"] and s[0]["stored"] == seed and isinstance(s[3]["stored"], int)
        chk.oracle_validations += len(s)
        for a, b in ((s[4], s[5]), (s[6], s[7])):
            if a["stored"] != a["seed"] or b["stored"] != b["seed"] or a["np"] != b["np"] or a["torch"] != b["torch"]:
                chk.fail(f"C14:configure_random_seed:seed={a['seed']}",
                         f"configure_random_seed({a['seed']}) stores seed {a['stored']} / {b['stored']} and two calls leave "
                         f"the generators in {'the same' if a['np'] == b['np'] else 'different'} states",
                         {"seedfn": [a, b], "requested_seed": a["seed"]})
        if not okseed:
            chk.fail("C14:configure_random_seed", "configure_random_seed does not put numpy and torch into a state that is a "
                     "function of the seed", {"seedfn": s})
    # ---- today: the table, minus the entries explained by findings that the runs above confirmed ----------------
    if entries is not None:
        excluded = [e for e in rejected if entry_key(e) in confirmed]
        kept = [e for e in entries if e not in excluded]
        txt = GEN_HDR + T.table_text(kept) + ("Lemma today_rng_confined : rng_confined pool_sites seed_site init_site gen_table = true.\n"
                                              "Proof. vm_compute. reflexivity. Qed.\n"
                                              "Lemma today_confined : Confined pool_sites seed_site init_site gen_table.\n"
                                              "Proof. exact (rng_confined_sound _ _ _ _ today_rng_confined). Qed.\n")
        ok, _, err = chk.coq_run("today_table", txt, timeout=300)
        still = [e for e in rejected if e not in excluded]
        name = (f"today: rng_confined holds of the usage table regenerated from the {chk.translator['usage table']['files']} "
                f"files of the package ({len(kept)} entries: every randomness consumer draws from the seeded numpy / torch "
                "global generators, both are seeded in configure_random_seed which the constructor calls, sets are iterated "
                "only into order-insensitive sinks, .pool / .n_pool / .likelihood_chunksize are read only in the modelled "
                "call sites, configure_pool assigns only pool state)")
        if excluded:
            name += "; EXCLUDED as explained by a confirmed open finding: " + "; ".join(f"{e[1]} assigns {e[2]}" for e in excluded)
        chk.oblige(name, "today", ok, err + (" rejected: " + json.dumps(still) if still else ""))
        for e in still:
            chk.notes.append(f"table entry rejected by the checker: {e}")


def replay(data):
    rp = data["replay"]
    chk = common.Check(PID + "_replay", "quick", 0)
    chk.known = []
    rc = 0
    if "run" in rp:
        same_cfg = rp["reference"].get("name") == rp["run"].get("name")
        hs = rp.get("hashseeds") or ["0", "0"]

        def go(cfgs, hashseed):
            job = {"mode": "runs", "root": os.path.join(chk.build, "runs"), "runs": cfgs}
            r_ = subprocess.run(["timeout", "900", common.PY, os.path.join(common.VERIF, "harness", "c14_child.py")],
                                input=json.dumps(job), capture_output=True, text=True,
                                env=common.child_env({"PYTHONHASHSEED": hashseed}), cwd=chk.build)
            if r_.returncode != 0:
                print(r_.stderr[-800:])
                return None
            return json.loads(r_.stdout)["runs"]

        if same_cfg:                                   # the same configuration twice in ONE process (shared objects if asked)
            out = go([dict(rp["run"], name="run", repeat=2)], hs[1])
            reps = out and out[0]["reps"]
        elif hs[0] != hs[1]:                           # two processes with the recorded string-hash seeds
            o1, o2 = go([dict(rp["reference"], name="reference", repeat=1)], hs[0]), go([dict(rp["run"], name="run", repeat=1)], hs[1])
            reps = o1 and o2 and [o1[0]["reps"][0], o2[0]["reps"][0]]
        else:
            out = go([dict(rp["reference"], name="reference", repeat=1), dict(rp["run"], name="run", repeat=1)], hs[0])
            reps = out and [x["reps"][0] for x in out]
        if not reps:
            return 1
        for x in reps:
            if "error" in x:
                print(x.get("trace", x["error"])[-600:])
                return 1
        a, b = reps[0], reps[1]
        lost = [d_ for x in reps for d_ in x.get("settings_diff", []) if d_["kind"] != "added"]
        if lost:
            print(f"VIOLATION property={PID} replay=(replayed) FlowSampler edited the settings it was given: "
                  + "; ".join(f"{d_['path']} {d_['kind']}" for d_ in lost[:4]))
            rc = 1
        diff = [p for p in ALL_PARTS if a["parts"][p] != b["parts"][p]]
        skip = ("parts", "sites")
        print(json.dumps({"reference": {k: v for k, v in a.items() if k not in skip},
                          "run": {k: v for k, v in b.items() if k not in skip}, "differing": diff})[:1500])
        bad_seed = [x for x in (a, b) if x.get("recorded_seed") != x.get("requested_seed")]
        if bad_seed:
            print(f"VIOLATION property={PID} replay=(replayed) seed {bad_seed[0]['requested_seed']} requested, "
                  f"seed {bad_seed[0]['recorded_seed']} recorded and used")
            rc = 1
        if diff:
            print(f"VIOLATION property={PID} replay=(replayed) {rp['run'].get('what', '')} changes {', '.join(diff)}")
            rc = 1
        if not rc:
            print("replay: the two runs agree and record the requested seed")
    elif "seedfn" in rp:
        sd = rp["requested_seed"]
        r = subprocess.run(["timeout", "300", common.PY, os.path.join(common.VERIF, "harness", "c14_child.py")],
                           input=json.dumps({"mode": "seedfn", "seeds": [sd, sd]}), capture_output=True, text=True,
                           env=common.child_env(), cwd=chk.build)
        if r.returncode != 0:
            print(r.stderr[-800:])
            return 1
        a, b = json.loads(r.stdout)["seedfn"]
        print(json.dumps([a, b]))
        if a["stored"] != sd or b["stored"] != sd or a["np"] != b["np"] or a["torch"] != b["torch"]:
            print(f"VIOLATION property={PID} replay=(replayed) configure_random_seed({sd}) stores {a['stored']} / {b['stored']}")
            rc = 1
        else:
            print("replay: configure_random_seed is a function of the requested seed")
    else:
        print("nothing to replay; re-run ./check C14")
    import shutil
    shutil.rmtree(chk.build, ignore_errors=True)
    return rc
