"""C08 child: builds real nessai flows / flow models / proposals, validates every real layer against layer_ok numerically,
records top-level results together with the component values they are glued from, and evaluates the direct predicates.
JSON in, JSON out.  Floats travel as float.hex()."""
import json
import math
import os
import sys
import tempfile

import numpy as np


def fx(v):
    v = float(v)
    if v != v:
        return "nan"
    if v in (math.inf, -math.inf):
        return "inf" if v > 0 else "-inf"
    return v.hex()


def err(e):
    return type(e).__name__


def prec_of(t):
    import torch
    return "F64" if t.dtype == torch.float64 else "F32"


def leaves(t):
    """leaf transforms of a (nested) CompositeTransform, in application order"""
    subs = getattr(t, "_transforms", None)
    if subs is None:
        return [t]
    out = []
    for s in subs:
        out += leaves(s)
    return out


def tolerances(dtype64):
    # numeric tolerances of the DIRECT predicates (a network is evaluated twice, forwards and backwards)
    return (1e-9, 1e-8) if dtype64 else (2e-3, 2e-3)


def make_flow_model(c, out_dir):
    from nessai.flowmodel import FlowModel
    cfg = dict(c["flow_config"])
    cfg["n_inputs"] = c["dims"]
    fm = FlowModel(flow_config=cfg, training_config={"max_epochs": c.get("epochs", 30), "patience": 10, "batch_size": 200},
                   output=out_dir)
    fm.initialise()
    return fm


def training_data(c, n=600):
    rs = np.random.RandomState(c["seed"])
    d = c["dims"]
    x = rs.randn(n, d) * (0.3 + 0.5 * np.arange(1, d + 1)) + np.arange(d) * 0.7
    x[:, 0] += 0.5 * x[:, -1] ** 2 * 0.2
    return x


def run_flow(c):
    import torch
    torch.set_num_threads(1)
    torch.manual_seed(c["seed"])
    np.random.seed(c["seed"])
    d64 = torch.get_default_dtype() == torch.float64
    tol_x, tol_lp = tolerances(d64)
    tmp = tempfile.mkdtemp(prefix="c08_", dir=os.getcwd())
    out = {"glue": [], "totals": [], "layers": [], "direct": []}
    try:
        fm = make_flow_model(c, tmp)
    except Exception as e:
        return {"config_error": err(e) + ": " + str(e)[:300]}
    data = training_data(c)
    ops = c.get("ops")
    if ops is None:
        ops = {"fresh": [], "trained": ["train"]}.get(c["state"], ["train", "reset_wp" if c.get("reset_permutations") else "reset_w"])
    # a history of public FlowModel calls before the flow is probed: the state of a flow (weights, caches of the linear
    # transforms, batch-norm statistics, train/eval mode) depends on the whole sequence, not only on the last call
    for op in ops:
        if op == "train":
            fm.train(data, plot=False)
        elif op == "fwd":
            fm.forward_and_log_prob(data[:50])
        elif op == "logp":
            fm.log_prob(data[:50])
        elif op == "inv":
            fm.sample_and_log_prob(N=50)
        elif op == "inv_z":
            fm.sample_and_log_prob(z=np.random.randn(50, c["dims"]))
        elif op == "perturb_base":
            # a random weight draw that includes the base distribution's own parameters (LARS: Gaussian mean / log-scale when
            # trainable, acceptance network), followed by the finalisation a training run ends with
            import torch as _t
            dist = fm.model._distribution
            g_ = _t.Generator().manual_seed(c["seed"] + 99)
            with _t.no_grad():
                for nm_, q_ in dist.named_parameters():
                    if q_.requires_grad or nm_.startswith("acceptance"):
                        q_.add_((0.8 if "acceptance" in nm_ else (0.3 if "scale" in nm_ else 0.9)) * _t.randn(q_.shape, generator=g_, dtype=q_.dtype))
            fm.model.eval()
            fm.model.finalise()
        elif op == "reset_w":
            fm.reset_model(weights=True, permutations=False)
        elif op == "reset_p":
            fm.reset_model(weights=False, permutations=True)
        elif op == "reset_wp":
            fm.reset_model(weights=True, permutations=True)
        else:
            raise ValueError(op)
    model = fm.model
    model.eval()
    n = c.get("n_points", 6)
    rs = np.random.RandomState(c["seed"] + 1)
    x_np = data[rs.choice(len(data), n, replace=False)] + 0.05 * rs.randn(n, c["dims"])
    P = "F64" if d64 else "F32"

    def direct(name, ok, detail):
        out["direct"].append({"name": name, "ok": bool(ok), "detail": detail})

    with torch.inference_mode():
        xt = fm.numpy_array_to_tensor(x_np)
        probe = model.log_prob(xt)
        if not bool(torch.isfinite(probe).all()):
            # the flow returns a non-finite density at ordinary points: nothing else can be checked
            zz, _ = model._transform(xt)
            culprit = None
            hh = xt
            for layer in leaves(model._transform):
                hh, _ = layer(hh)
                if not bool(torch.isfinite(hh).all()):
                    culprit = type(layer).__name__
                    break
            return {"non_finite_density": True, "culprit": culprit, "log_prob": [fx(v) for v in probe[:3]],
                    "nan_parameters": [nm for nm, q in model.named_parameters() if not bool(torch.isfinite(q).all())][:3]}
        # ---- (i) every real layer against layer_ok -------------------------------------------------------------
        h = xt
        for li, layer in enumerate(leaves(model._transform)):
            y, ld = layer(h)
            try:
                h2, ld2 = layer.inverse(y)
                ex = float((h2 - h).abs().max())
                el = float((ld + ld2).abs().max())
                # conditioning: a layer that stretches by exp(|logabsdet| / dims) amplifies rounding errors by as much
                kl = math.exp(min(20.0, float(ld.abs().max()) / c["dims"]))
                scale = (1.0 + float(h.abs().max()) + float(y.abs().max())) * kl
                out["layers"].append({"layer": type(layer).__name__, "err_x": ex, "err_ld": el, "stretch": kl,
                                      "ok": bool(ex <= tol_x * scale and el <= tol_lp * kl * (1.0 + float(ld.abs().max())))})
            except Exception as e:
                out["layers"].append({"layer": type(layer).__name__, "ok": False, "error": err(e)})
            h = y
        # ---- (ii) NFlow glue -----------------------------------------------------------------------------------
        z, ld = model._transform(xt)
        base = model._distribution.log_prob(z)
        top = model.log_prob(xt)
        z2, top2 = model.forward_and_log_prob(xt)
        for j in range(n):
            out["glue"].append(["KLogProb", P, fx(base[j]), fx(ld[j]), fx(top[j]), "NFlow.log_prob"])
            out["glue"].append(["KLogProb", P, fx(base[j]), fx(ld[j]), fx(top2[j]), "NFlow.forward_and_log_prob"])
        direct("NFlow.forward_and_log_prob returns the latent point of forward", torch.equal(z2, z), "")
        zf, ldf = model.forward(xt)
        direct("NFlow.forward = transform.forward", torch.equal(zf, z) and torch.equal(ldf, ld), "")
        # composite total = sum of the layers' log-determinants (top-level list of the CompositeTransform)
        subs = list(getattr(model._transform, "_transforms", []))
        if subs:
            hh, lds = xt, []
            for t in subs:
                hh, l_i = t(hh)
                lds.append(l_i)
            for j in range(n):
                out["totals"].append([P, [fx(l[j]) for l in lds], fx(ld[j])])
        # sampling direction
        torch.manual_seed(c["seed"] + 7)
        zs, blp = model._distribution.sample_and_log_prob(n)
        xs_c, ldi = model._transform.inverse(zs)
        torch.manual_seed(c["seed"] + 7)
        xs, lps = model.sample_and_log_prob(n)
        direct("NFlow.sample_and_log_prob returns transform.inverse of the drawn latent points", torch.equal(xs, xs_c), "")
        for j in range(n):
            out["glue"].append(["KSample", P, fx(blp[j]), fx(ldi[j]), fx(lps[j]), "NFlow.sample_and_log_prob"])
        xi, ldi2 = model.inverse(zs)
        direct("NFlow.inverse = transform.inverse", torch.equal(xi, xs_c) and torch.equal(ldi2, ldi), "")
        # direct predicates on the implementation alone; tolerance = float-type tolerance x conditioning of the map
        kappa = math.exp(min(20.0, float(max(ld.abs().max(), ldi.abs().max())) / c["dims"]))
        tol_x, tol_lp = tol_x * kappa, tol_lp * kappa
        out["kappa"] = kappa
        zr, _ = model.forward(xs)
        e_rt = float((zr - zs).abs().max())
        direct("inverse-then-forward round trip", e_rt <= tol_x * (1 + float(zs.abs().max())), f"max |z - fwd(inv(z))| = {e_rt:.3g}")
        xr, _ = model.inverse(z)
        e_rt2 = float((xr - xt).abs().max())
        direct("forward-then-inverse round trip", e_rt2 <= tol_x * (1 + float(xt.abs().max())), f"max |x - inv(fwd(x))| = {e_rt2:.3g}")
        lp_at = model.log_prob(xs)
        e_lp = float((lp_at - lps).abs().max())
        direct("log_prob at a generated sample equals the reported log-density",
               e_lp <= tol_lp * (1 + float(lps.abs().max())), f"max |log_prob(x) - reported| = {e_lp:.3g}; max |logabsdet| = {float(ldi.abs().max()):.3g}")
        out["max_abs_ld"] = float(max(ld.abs().max(), ldi.abs().max()))
    # ---- FlowModel (numpy level) ------------------------------------------------------------------------------------
    z_np, lp_np = fm.forward_and_log_prob(x_np)
    lp_only = fm.log_prob(x_np)
    with torch.inference_mode():
        for j in range(n):
            out["glue"].append(["KLogProb", P, fx(base[j]), fx(ld[j]), fx(lp_np[j]), "FlowModel.forward_and_log_prob"])
            out["glue"].append(["KLogProb", P, fx(base[j]), fx(ld[j]), fx(lp_only[j]), "FlowModel.log_prob"])
        direct("FlowModel.forward_and_log_prob agrees with the torch model",
               np.array_equal(z_np, z.numpy().astype(np.float64)) and np.array_equal(lp_np, top2.numpy().astype(np.float64)), "")
    from nessai.utils.distributions import get_uniform_distribution
    zs_np = zs.numpy().astype(np.float64)
    for alt_name in (None, "uniform"):
        alt = get_uniform_distribution(c["dims"], 1.3 * float(np.abs(zs_np).max()) + 0.1) if alt_name else None
        x_out, lp_out = fm.sample_and_log_prob(z=zs_np.copy(), alt_dist=alt)
        with torch.inference_mode():
            zt = fm.numpy_array_to_tensor(zs_np)
            latent = alt.log_prob(zt) if alt is not None else model.base_distribution_log_prob(zt)
            xo, ldo = model.inverse(zt)
            for j in range(n):
                out["glue"].append(["KSample", prec_of(latent), fx(latent[j]), fx(ldo[j]), fx(lp_out[j]),
                                    f"FlowModel.sample_and_log_prob(z, alt_dist={alt_name})"])
            direct(f"FlowModel.sample_and_log_prob(z, alt_dist={alt_name}) returns the inverse image",
                   np.array_equal(x_out, xo.numpy().astype(np.float64)), "")
            # direct predicate with the explicit correction term: log_prob(x) = reported + (base(z) - alt(z))
            b = model.base_distribution_log_prob(zt).numpy().astype(np.float64)
            corr = b - latent.numpy().astype(np.float64)
        lp_at = fm.log_prob(x_out)
        e = float(np.abs(lp_at - (lp_out + corr)).max())
        direct(f"FlowModel: log_prob at the generated sample = reported + (base - alt) [alt_dist={alt_name}]",
               e <= tol_lp * (1 + float(np.abs(lp_out).max())), f"max error {e:.3g}; max |correction| = {float(np.abs(corr).max()):.3g}")
    torch.manual_seed(c["seed"] + 11)
    with torch.inference_mode():
        xs2, lps2 = model.sample_and_log_prob(n)
    torch.manual_seed(c["seed"] + 11)
    x_fm, lp_fm = fm.sample_and_log_prob(N=n)
    direct("FlowModel.sample_and_log_prob(N) agrees with the torch model",
           np.array_equal(x_fm, xs2.numpy().astype(np.float64)) and np.array_equal(lp_fm, lps2.numpy().astype(np.float64)), "")
    # ---- array level on batches of very different sizes: one call = the same points evaluated in small chunks ----------
    nb = c.get("n_big")
    if nb:
        rsb = np.random.RandomState(c["seed"] + 5)
        xb = data[rsb.randint(0, len(data), nb)] + 0.05 * rsb.randn(nb, c["dims"])
        whole = fm.log_prob(xb)
        parts = np.concatenate([fm.log_prob(xb[i:i + 997]) for i in range(0, nb, 997)])
        okf = np.isfinite(parts)
        eb = float(np.abs(whole[okf] - parts[okf]).max()) if okf.any() else 0.0
        direct(f"FlowModel.log_prob on one batch of {nb} points equals the same points evaluated in chunks",
               whole.shape == parts.shape and np.array_equal(np.isfinite(whole), okf)
               and eb <= tol_lp * (1 + float(np.abs(parts[okf]).max() if okf.any() else 0.0)),
               f"max difference {eb:.3g}; last rows {whole[-2:]} vs {parts[-2:]}")
    # ---- thorough: integrates to one in 2-d (numeric validation only) --------------------------------------------------
    if c.get("integrate") and c["dims"] == 2:
        g = np.linspace(-12, 14, 521)
        xx, yy = np.meshgrid(g, g)
        pts = np.stack([xx.ravel(), yy.ravel()], axis=1)
        lp = np.concatenate([fm.log_prob(pts[i:i + 20000]) for i in range(0, len(pts), 20000)])
        out["integral"] = float(np.exp(lp).sum() * (g[1] - g[0]) ** 2)
        # exact flows integrate to one up to the grid error; a LARS base carries a Monte Carlo estimate of its normalisation
        tol_i = 0.03 if "lars" in str(c["flow_config"].get("distribution")) or "resampled" in str(c["flow_config"].get("distribution")) else 0.01
        # the grid is finite: the integral over it must equal the probability mass the flow puts there, measured with the
        # flow's own sampler (20000 draws, 3.5 sigma binomial error)
        xs_ = np.concatenate([fm.sample(5000) for _ in range(4)])
        inside = float(np.mean(np.all((xs_ >= g[0]) & (xs_ <= g[-1]), axis=1)))
        mc = 3.5 * math.sqrt(max(inside * (1 - inside), 1e-4) / len(xs_))
        out["grid_mass"] = inside
        direct("the density integrates to one over the plane (2-d grid integration against the sampled mass inside the grid)",
               abs(out["integral"] - inside) <= tol_i + mc,
               f"integral of exp(log_prob) over the grid = {out['integral']:.4f}, fraction of samples inside the grid = {inside:.4f}")
    return out


# -----------------------------------------------------------------------------------------------------------------------
def maxdiff(a, b):
    """max |a - b| over the finite entries; inf when shapes or the pattern of non-finite entries differ"""
    a, b = np.asarray(a, dtype=float), np.asarray(b, dtype=float)
    if a.shape != b.shape:
        return float("inf")
    fa, fb = np.isfinite(a), np.isfinite(b)
    if not np.array_equal(fa, fb) or not np.array_equal(a[~fa], b[~fb], equal_nan=True):
        return float("inf")
    return float(np.abs(a[fa] - b[fa]).max()) if fa.any() else 0.0


def forward_rows(p, samples, chunk=41):
    """per-proposal densities of physical points passed FORWARDS, independently of compute_log_Q: column 0 is the prior in the
    unit hypercube (0), column i + 1 is flow.log_prob_ith(rescaled point, i) + log-Jacobian of the rescaling."""
    rows = []
    for i0 in range(0, len(samples), chunk):
        xp_, lj_ = p.rescale(samples[i0:i0 + chunk])
        r_ = np.zeros((len(xp_), p.n_proposals))
        for i in range(p.n_proposals - 1):
            r_[:, i + 1] = p.flow.log_prob_ith(xp_, i) + lj_
        rows.append(r_)
    return np.concatenate(rows) if rows else np.zeros((0, p.n_proposals))


def make_model(prior="uniform"):
    from nessai.model import Model

    class G(Model):
        def __init__(self):
            self.names = ["x", "y"]
            self.bounds = {"x": [-4.0, 6.0], "y": [-3.0, 3.0]}

        def log_prior(self, x):
            with np.errstate(all="ignore"):
                lp = np.log(self.in_bounds(x), dtype=float) - np.log(60.0)
                if prior == "band":            # an excluded band inside the bounds (constraint prior)
                    lp = lp + np.log(~((x["x"] > 0.0) & (x["x"] < 2.0)), dtype=float)
                elif prior == "hole":          # an excluded disc inside the bounds
                    lp = lp + np.log((x["x"] - 1.0) ** 2 + x["y"] ** 2 > 1.5, dtype=float)
                elif prior == "checker":       # many small excluded cells: rejected points scattered through every batch
                    lp = lp + np.log((np.floor(2 * x["x"]) + np.floor(2 * x["y"])) % 3 != 0, dtype=float)
                elif prior == "nan-inf":       # malformed: NaN in one region, +inf in another (draw must drop both)
                    lp = np.where(x["y"] > 2.0, np.nan, lp)
                    lp = np.where(x["y"] < -2.0, np.inf, lp)
            return lp

        def log_likelihood(self, x):
            return -0.5 * ((x["x"] - 1.0) ** 2 / 0.5 + x["y"] ** 2)

        def to_unit_hypercube(self, x):
            y = x.copy()
            y["x"] = (x["x"] + 4.0) / 10.0
            y["y"] = (x["y"] + 3.0) / 6.0
            return y

        def from_unit_hypercube(self, x):
            y = x.copy()
            y["x"] = 10.0 * x["x"] - 4.0
            y["y"] = 6.0 * x["y"] - 3.0
            return y

    return G()


def run_proposal(c):
    """FlowProposal / AugmentedFlowProposal: backward_pass and forward_pass against their components."""
    import torch
    torch.set_num_threads(1)
    torch.manual_seed(c["seed"])
    np.random.seed(c["seed"])
    from nessai.livepoint import live_points_to_array, numpy_array_to_live_points
    from nessai.proposal.flowproposal import FlowProposal
    d64 = torch.get_default_dtype() == torch.float64
    tol_x, tol_lp = tolerances(d64)
    model = make_model()
    tmp = tempfile.mkdtemp(prefix="c08p_", dir=os.getcwd())
    out = {"glue": [], "direct": []}
    kw = dict(poolsize=50, drawsize=50, output=tmp, plot=False, latent_prior=c["latent"],
              flow_config=dict(c["flow_config"]), training_config={"max_epochs": 25, "patience": 10},
              constant_volume_mode=c["latent"] == "truncated_gaussian", fixed_radius=False if c["latent"] == "truncated_gaussian" else 2.0,
              reparameterisations=c.get("reparameterisations"), expansion_fraction=c.get("expansion"))
    try:
        p = FlowProposal(model, **kw)
        p.initialise()
    except Exception as e:
        return {"config_error": err(e) + ": " + str(e)[:300]}
    live = model.new_point(300)
    live["logP"] = model.log_prior(live)
    live["logL"] = model.log_likelihood(live)
    keep = np.argsort(live["logL"])[100:]
    live = live[keep]
    if c["state"] == "trained":
        p.train(live, plot=False)
    else:
        # an untrained flow, but the rescaling configured from the live points exactly as train() does before it trains
        # (a population with reparameterisations that were never updated is not a legitimate use)
        p.check_state(live)
        p.training_data = live
    # a population of this small pool that needs more than 400 batches is reported, never waited for
    real_bp_sal = p.flow.sample_and_log_prob
    n_calls = [0]

    def capped(*a, **k):
        n_calls[0] += 1
        if n_calls[0] > 400:
            raise RuntimeError("population did not finish within 400 batches")
        return real_bp_sal(*a, **k)

    p.flow.sample_and_log_prob = capped
    with np.errstate(all="ignore"):
        p.populate(live[0], N=20, plot=False)          # sets the radius, alt_dist and the latent sampler
        z = p.draw_latent_prior(24)
        x, lq, zk = p.backward_pass(z.copy(), rescale=True, discard_nans=False, return_z=True)
    # components on the full batch (same batch => same torch kernels), rows matched by z
    xp_all, lp_all = p.flow.sample_and_log_prob(z=z.copy(), alt_dist=p.alt_dist)
    xs_all, lj_all = p.inverse_rescale(numpy_array_to_live_points(xp_all.astype(float), p.prime_parameters))
    lj_all = np.broadcast_to(np.asarray(lj_all, dtype=float), lp_all.shape)
    rows = {tuple(r): i for i, r in enumerate(z)}
    idx = [rows[tuple(r)] for r in zk]
    names = model.names

    def direct(name, ok, detail):
        out["direct"].append({"name": name, "ok": bool(ok), "detail": detail})

    direct("backward_pass returns the inverse-rescaled flow samples",
           all(np.array_equal(x[nm], xs_all[nm][idx]) for nm in names), "")
    for j, i in enumerate(idx):
        out["glue"].append(["KBwdPass", "F64", fx(lp_all[i]), fx(lj_all[i]), fx(lq[j]), "FlowProposal.backward_pass"])
    out["max_abs_lj"] = float(np.abs(lj_all).max())
    # forward pass of the generated physical points
    with np.errstate(all="ignore"):
        z2, lq2 = p.forward_pass(x.copy(), rescale=True, compute_radius=True)
        xpr, ljf = p.rescale(x.copy(), compute_radius=True)
    arr = live_points_to_array(xpr, names=p.prime_parameters, copy=True)
    z2c, lp2 = p.flow.forward_and_log_prob(arr)
    ljf = np.broadcast_to(np.asarray(ljf, dtype=float), lp2.shape)
    for j in range(len(lq2)):
        out["glue"].append(["KFwdPass", "F64", fx(lp2[j]), fx(ljf[j]), fx(lq2[j]), "FlowProposal.forward_pass"])
    direct("forward_pass returns the flow's latent point", np.array_equal(z2, z2c), "")
    # direct predicate: density attached to the generated point = density computed forwards (+ explicit correction)
    with torch.inference_mode():
        zt = p.flow.numpy_array_to_tensor(zk)
        base = p.flow.model.base_distribution_log_prob(zt).numpy().astype(np.float64)
        latent = (p.alt_dist.log_prob(zt).numpy().astype(np.float64) if p.alt_dist is not None else base)
        # conditioning of the flow at these points (see run_flow): float-type tolerance x exp(max |logabsdet| / dims)
        _, ld_f = p.flow.model._transform(p.flow.numpy_array_to_tensor(arr))
        kappa = math.exp(min(20.0, float(ld_f.abs().max()) / max(1, arr.shape[1]))) if len(arr) else 1.0
    tol_x, tol_lp = tol_x * kappa, tol_lp * kappa
    out["kappa"] = kappa
    corr = base - latent
    e = float(np.abs(lq2 - (lq + corr)).max()) if len(lq) else 0.0
    direct("proposal density at a generated physical point = density when the point is passed forwards (+ base - latent)",
           e <= tol_lp * (1 + float(np.abs(lq).max() if len(lq) else 0.0)),
           f"max error {e:.3g} over {len(lq)} points; max |correction| {float(np.abs(corr).max()) if len(lq) else 0:.3g}; "
           f"max |log_J| {out['max_abs_lj']:.3g}")
    ez = float(np.abs(z2 - zk).max()) if len(lq) else 0.0
    direct("forward_pass(backward_pass(z)) returns z", ez <= tol_x * (1 + float(np.abs(zk).max() if len(lq) else 0.0)), f"max error {ez:.3g}")
    out["n_points"] = int(len(lq))
    return out


def run_ins(c):
    """ImportanceFlowProposal: the log_q rows attached in draw against compute_log_Q / update_log_q on the same points."""
    import torch
    torch.set_num_threads(1)
    torch.manual_seed(c["seed"])
    np.random.seed(c["seed"])
    from nessai.proposal.importance import ImportanceFlowProposal
    from nessai.samplers.importancesampler import ImportanceNestedSampler as INS
    INS.add_fields()
    d64 = torch.get_default_dtype() == torch.float64
    tol_x, tol_lp = tolerances(d64)
    model = make_model(c.get("prior", "uniform"))
    tmp = tempfile.mkdtemp(prefix="c08i_", dir=os.getcwd())
    out = {"glue": [], "direct": []}
    p = ImportanceFlowProposal(model, tmp, flow_config=dict(c["flow_config"]),
                               training_config={"max_epochs": 15, "patience": 8}, reparameterisation=c["reparam"],
                               plot_training=False, reset_flow=c.get("reset_flow", True))
    p.initialise()

    def direct(name, ok, detail):
        out["direct"].append({"name": name, "ok": bool(ok), "detail": detail})

    live = model.sample_unit_hypercube(300)
    live["logU"] = model.batch_evaluate_log_prior_unit_hypercube(live)
    live["logW"] = 0.0
    for level in range(c["n_flows"]):
        centre = 0.5 + 0.1 * level
        sub = live[np.argsort(np.abs(live["x"] - centre) + np.abs(live["y"] - 0.5))[: 200 - 40 * level]]
        p.train(sub, plot=False)
    w = {-1: 0.4}
    for i in range(c["n_flows"]):
        w[i] = 0.6 / c["n_flows"]
    # proposals whose samples were all removed have weight EXACTLY zero (also the initial one); the rest is renormalised
    zero = [z_ for z_ in c.get("zero_ids", []) if z_ in w]
    if zero and len(zero) < len(w):
        for z_ in zero:
            w[z_] = 0.0
        tot = sum(w.values())
        w = {k_: v_ / tot for k_, v_ in w.items()}
    p.update_proposal_weights(w)
    out["weights"] = [float(v_) for v_ in p.weights_array]
    # every function that returns per-proposal densities, against the same points passed forwards
    from scipy.special import logsumexp as _lse0
    with np.errstate(all="ignore"):
        probes = {}
        s_d, q_d = p.draw(23)
        probes["draw"] = (s_d, q_d, s_d["logQ"])
        s_p, q_p = p.draw_from_prior(19)
        probes["draw_from_prior"] = (s_p, q_p, s_p["logQ"])
        s_f, q_f, _cnt = p.draw_from_flows(31, weights=p.weights_array / p.weights_array.sum())
        lQ_f, q_f2 = p.compute_meta_proposal_samples(s_f)
        probes["draw_from_flows"] = (s_f, q_f, None)
        probes["compute_meta_proposal_samples"] = (s_f, q_f2, lQ_f)
        for nm_, (s_, q_, lQ_) in probes.items():
            fr = forward_rows(p, s_)
            e_ = maxdiff(q_, fr)
            direct(f"{nm_}: every per-proposal density row equals the same point passed forwards (log_prob_ith + log_j)",
                   e_ <= tol_lp * (1 + float(np.abs(fr[np.isfinite(fr)]).max() if np.isfinite(fr).any() else 0.0)),
                   f"weights {out['weights']}: max |row - forward row| = {e_:.3g}"
                   + (f"; column(s) {sorted(set(np.where(~np.isfinite(q_))[1].tolist()))} not finite" if not np.isfinite(q_).all() else ""))
            if lQ_ is not None:
                with np.errstate(all="ignore"):
                    e2 = maxdiff(lQ_, _lse0(fr, b=p.weights_array, axis=1))
                direct(f"{nm_}: logQ is the weighted meta-proposal of the forward rows",
                       e2 <= tol_lp * (1 + float(np.abs(lQ_[np.isfinite(lQ_)]).max() if np.isfinite(lQ_).any() else 0.0)),
                       f"weights {out['weights']}: max error {e2:.3g}")
    with np.errstate(all="ignore"):
        samples, log_q = p.draw(c["n"])
        logQ2, log_q2 = p.compute_meta_proposal_samples(samples)
    e = float(np.abs(log_q - log_q2).max())
    eQ = float(np.abs(samples["logQ"] - logQ2).max())
    direct("the log_q rows attached in draw equal compute_meta_proposal_samples on the same points",
           e <= tol_lp * (1 + float(np.abs(log_q2).max())), f"max error {e:.3g}")
    direct("logQ attached in draw equals the recomputed meta-proposal", eQ <= tol_lp * (1 + float(np.abs(logQ2).max())),
           f"max error {eQ:.3g}")
    # ---- draw(n) for several n on a prior with excluded regions: every returned row against an INDEPENDENT forward
    # evaluation of the returned points (chunked), and the recorded batches for the alignment check inside Coq -----------
    from scipy.special import logsumexp as _lse
    out["aligned"] = []
    real_clq = p.compute_log_Q
    for nd in c.get("draw_ns", []):
        recs = []

        def clq(x_prime, log_j=None, _r=real_clq):
            r = _r(x_prime, log_j=log_j)
            recs.append((np.array(x_prime, dtype=float).copy(), np.array(r[0], dtype=float).copy(),
                         np.array(r[1], dtype=float).copy()))
            return r

        p.compute_log_Q = clq
        try:
            with np.errstate(all="ignore"):
                sm, lqr = p.draw(nd)
        finally:
            del p.compute_log_Q
        direct("draw returns as many density rows as samples", len(sm) == len(lqr) == nd, f"n={nd}: {len(sm)} samples, {len(lqr)} rows")
        # independent forward evaluation of the returned points, in chunks
        rows_f, logQ_f = [], []
        for i0 in range(0, len(sm), 37):
            xp_, lj_ = p.rescale(sm[i0:i0 + 37])
            r_ = np.zeros((len(xp_), p.n_proposals))
            r_[:, 1:] = p.flow.log_prob_all(xp_) + lj_[:, np.newaxis]
            rows_f.append(r_)
            logQ_f.append(_lse(r_, b=p.weights_array, axis=1))
        rows_f, logQ_f = np.concatenate(rows_f), np.concatenate(logQ_f)
        k = min(len(lqr), len(rows_f))
        er = float(np.abs(lqr[:k] - rows_f[:k]).max()) if k else 0.0
        eq = float(np.abs(sm["logQ"][:k] - logQ_f[:k]).max()) if k else 0.0
        eself = float(np.abs(sm["logQ"][:k] - _lse(lqr[:k], b=p.weights_array, axis=1)).max()) if k else 0.0
        direct("every log_q row returned by draw is the density of the sample it is returned with, passed forwards",
               er <= tol_lp * (1 + float(np.abs(rows_f).max() if k else 0.0)),
               f"n={nd}, prior {c.get('prior')}: max |row - forward row| = {er:.3g} (first bad row "
               f"{int(np.argmax(np.abs(lqr[:k] - rows_f[:k]).max(axis=1))) if k else -1})")
        direct("the logQ field of a drawn sample is the meta-proposal of its forward density row",
               eq <= tol_lp * (1 + float(np.abs(logQ_f).max() if k else 0.0)), f"n={nd}: max error {eq:.3g}")
        direct("the logQ field of a drawn sample agrees with the log_q row returned with it",
               eself <= 1e-9 * (1 + float(np.abs(logQ_f).max() if k else 0.0)), f"n={nd}: max error {eself:.3g}")
        # recorded batches -> (mask, candidate ids, row ids); returned samples / rows -> ids by exact equality
        batches, cand_id, row_id, gid = [], {}, {}, 0
        for xp_b, logQ_b, lq_b in recs:
            with np.errstate(all="ignore"):
                xb_, _ = p.inverse_rescale(xp_b.copy())
                lp_b = model.log_prior(model.from_unit_hypercube(xb_))
                lu_b = model.log_prior_unit_hypercube(xb_)
                mask = (np.isfinite(lp_b) & ~np.isposinf(lu_b - logQ_b) & ~np.isnan(lq_b).all(axis=1)
                        & ~np.isposinf(lq_b).all(axis=1))
            ids = list(range(gid, gid + len(xp_b)))
            for i, g_ in enumerate(ids):
                cand_id[tuple(float(xb_[nm][i]) for nm in model.names)] = g_
                row_id.setdefault(tuple(float(v) for v in lq_b[i]), set()).add(g_)   # float32 densities can collide
            batches.append([[bool(m) for m in mask], ids, ids])
            gid += len(xp_b)
        obs = []
        for i in range(min(len(sm), len(lqr))):
            ci = cand_id.get(tuple(float(sm[nm][i]) for nm in model.names), -1)
            rset = row_id.get(tuple(float(v) for v in lqr[i]), set())
            obs.append([ci, ci if ci in rset else (min(rset) if rset else -1)])
        out["aligned"].append({"n": nd, "batches": batches, "obs": obs,
                               "rejected_by_mask": int(sum(1 for b in batches for m in b[0] if not m))})
    # glue: compute_log_Q columns = log_prob_i + log_j
    xpr, lj = p.rescale(samples)
    lps = p.flow.log_prob_all(xpr)
    logQ3, lq3 = p.compute_log_Q(xpr, log_j=lj)
    for j in range(len(samples)):
        for i in range(lps.shape[1]):
            out["glue"].append(["KInsRow", "F64", fx(lps[j, i]), fx(lj[j]), fx(lq3[j, i + 1]), "ImportanceFlowProposal.compute_log_Q"])
    direct("compute_log_Q: the prior column is zero", bool(np.all(lq3[:, 0] == 0.0)), "")
    # update_log_q appends the current flow's column
    upd = p.update_log_q(samples, lq3[:, :-1])
    lp_last = p.flow.log_prob_ith(xpr, p.level_count)
    for j in range(len(samples)):
        out["glue"].append(["KInsRow", "F64", fx(lp_last[j]), fx(lj[j]), fx(upd[j, -1]), "ImportanceFlowProposal.update_log_q"])
    direct("update_log_q keeps the existing columns", np.array_equal(upd[:, :-1], lq3[:, :-1]), "")
    eu = float(np.abs(upd[:, -1] - lq3[:, -1]).max())
    direct("update_log_q and compute_log_Q attach the same density (flow density times rescaling Jacobian) to the same points",
           eu <= 1e-9 * (1 + float(np.abs(lq3[:, -1]).max())), f"max difference {eu:.3g}; max |log_j| {float(np.abs(lj).max()):.3g}")
    # ---- the same on batches of very different sizes (the sampler updates ALL its samples after each new flow) --------
    for nb in c.get("n_bigs", []):
        big = model.sample_unit_hypercube(nb)
        with np.errstate(all="ignore"):
            xbp, ljb_ = p.rescale(big)
            _, lqb = p.compute_log_Q(xbp, log_j=ljb_)
            updb = p.update_log_q(big, lqb[:, :-1])
            lpall = p.flow.log_prob_all(xbp)
        ebig = float(np.abs(updb[:, -1] - lqb[:, -1]).max())
        worst = int(np.argmax(np.abs(updb[:, -1] - lqb[:, -1])))
        direct("update_log_q and compute_log_Q attach the same density (flow density times rescaling Jacobian) to the same points",
               ebig <= tol_lp * (1 + float(np.abs(lqb[:, -1]).max())),
               f"batch of {nb} samples: max difference {ebig:.3g} at row {worst}")
        for i in range(lpall.shape[1]):
            one = p.flow.log_prob_ith(xbp, i)
            ei = float(np.abs(one - lpall[:, i]).max())
            direct("log_prob_ith agrees with the column of log_prob_all for the same samples",
                   one.shape == lpall[:, i].shape and ei <= tol_lp * (1 + float(np.abs(lpall[:, i]).max())),
                   f"batch of {nb} samples, flow {i}: max difference {ei:.3g} at row {int(np.argmax(np.abs(one - lpall[:, i])))}")
        lpl = p.flow.log_prob_ith(xbp, p.level_count)
        for j in sorted({0, 1, nb // 2, nb - 2, nb - 1} & set(range(nb))):
            out["glue"].append(["KInsRow", "F64", fx(lpl[j]), fx(ljb_[j]), fx(updb[j, -1]), "ImportanceFlowProposal.update_log_q"])
            for i in range(lpall.shape[1]):
                out["glue"].append(["KInsRow", "F64", fx(lpall[j, i]), fx(ljb_[j]), fx(lqb[j, i + 1]),
                                    "ImportanceFlowProposal.compute_log_Q"])
    # rescaling round trip (the certified-map hypothesis of C08_ins_consistent, validated numerically)
    xb, ljb = p.inverse_rescale(xpr.copy())
    er = max(float(np.abs(xb[nm] - samples[nm]).max()) for nm in model.names)
    ej = float(np.abs(lj + ljb).max())
    out["oracle"] = {"rescale_roundtrip": er, "logj_opposite": ej, "ok": bool(er <= 1e-8 and ej <= 1e-8 * (1 + float(np.abs(lj).max())))}
    out["max_abs_lj"] = float(np.abs(lj).max())
    return out


def main():
    import logging
    logging.disable(logging.CRITICAL)
    import warnings
    warnings.filterwarnings("ignore")
    import torch
    torch.set_num_threads(1)
    from nessai.utils.logging import setup_logger
    setup_logger(output=None, log_level="CRITICAL")
    job = json.load(sys.stdin)
    if job.get("float64"):
        torch.set_default_dtype(torch.float64)
    out = {}
    table = {"flow": run_flow, "proposal": run_proposal, "ins": run_ins}
    for kind, fn in table.items():
        res = []
        for c in job.get(kind, []):
            try:
                res.append(fn(c))
            except Exception as e:
                import traceback
                res.append({"child_error": err(e), "trace": traceback.format_exc()[-1500:]})
        out[kind] = res
    json.dump(out, sys.stdout)


if __name__ == "__main__":
    main()
