"""C20: every algorithmic option runs to completion or is rejected up front."""
import itertools
import json
import math
import os
import re
import subprocess
import sys
import time

import common
from common import cB, cL, cN, cStr, cT, cZ

sys.path.insert(0, common.VERIF + "/translator")
PID = "C20"

HDR = (common.COQ_HEADER + "From Coq Require Import Lia ZifyBool.\n"
       "From NessaiV Require Import Model.C20_Options Proofs.C20_Options_proofs Run.C20_run.\n"
       "Local Open Scope Z_scope.\n")


def sL(xs):
    return cL(cStr(x) for x in xs)


# =====================================================================================================
# known findings helper (same matching rule as Check.fail)
# =====================================================================================================
def is_known(chk, key):
    for k in chk.known:
        if key == k["key"] or (k.get("key_regex") and re.fullmatch(k["key_regex"], key)):
            return True
    return False


# =====================================================================================================
# option tables
# =====================================================================================================
TINY_FLOW = {"n_blocks": 2, "n_neurons": 8}
TINY_TRAIN = {"max_epochs": 10, "patience": 5}


def base_kwargs(sampler, tier):
    kw = dict(resume=False, plot=False, checkpointing=False, signal_handling=False,
              flow_config=dict(TINY_FLOW), training_config=dict(TINY_TRAIN))
    if sampler == "std":
        kw.update(nlive=50, max_iteration=150 if tier == "quick" else 220, maximum_uninformed=50, poolsize=50)
    else:
        kw.update(importance_nested_sampler=True, nlive=60, min_samples=20, max_iteration=3 if tier == "quick" else 4)
    return kw


# (label, constructor kwargs, run kwargs, main?)  - dictionaries under flow_config / training_config are merged.
# The quick tier runs every entry except the slow non-main ones (plots, process pools).
STD_OPTIONS = [
    ("flow_proposal_class=augmentedflowproposal", {"flow_proposal_class": "augmentedflowproposal"}, {}, True),
    ("flow_proposal_class=augmentedflowproposal,augment_dims=2,generate_augment=zeros",
     {"flow_proposal_class": "augmentedflowproposal", "augment_dims": 2, "generate_augment": "zeros"}, {}, False),
    ("flow_proposal_class=augmentedflowproposal,marginalise_augment=True",
     {"flow_proposal_class": "augmentedflowproposal", "marginalise_augment": True, "n_marg": 5}, {}, False),
    ("flow_proposal_class=clusteringflowproposal", {"flow_proposal_class": "clusteringflowproposal"}, {}, False),
    ("flow_proposal_class=FlowProposal", {"flow_proposal_class": "FlowProposal"}, {}, False),
    ("latent_prior=gaussian", {"latent_prior": "gaussian"}, {}, True),
    ("latent_prior=uniform", {"latent_prior": "uniform"}, {}, False),
    ("latent_prior=uniform_nsphere", {"latent_prior": "uniform_nsphere"}, {}, True),
    ("latent_prior=uniform_nball", {"latent_prior": "uniform_nball"}, {}, False),
    ("latent_prior=flow", {"latent_prior": "flow"}, {}, False),
    ("constant_volume_mode=False", {"constant_volume_mode": False}, {}, True),
    ("latent_prior=gaussian,constant_volume_mode=False", {"latent_prior": "gaussian", "constant_volume_mode": False}, {}, True),
    ("latent_prior=uniform,constant_volume_mode=False", {"latent_prior": "uniform", "constant_volume_mode": False}, {}, False),
    ("latent_prior=uniform_nball,constant_volume_mode=False", {"latent_prior": "uniform_nball", "constant_volume_mode": False}, {}, False),
    ("latent_prior=flow,constant_volume_mode=False", {"latent_prior": "flow", "constant_volume_mode": False}, {}, True),
    ("volume_fraction=0.5", {"volume_fraction": 0.5}, {}, False),
    ("fuzz=1.5,constant_volume_mode=False", {"fuzz": 1.5, "constant_volume_mode": False, "expansion_fraction": None}, {}, False),
    ("expansion_fraction=1.0,constant_volume_mode=False", {"expansion_fraction": 1.0, "constant_volume_mode": False}, {}, False),
    ("fixed_radius=2.0,constant_volume_mode=False", {"fixed_radius": 2.0, "constant_volume_mode": False}, {}, True),
    ("min_radius=0.5,constant_volume_mode=False", {"min_radius": 0.5, "constant_volume_mode": False}, {}, False),
    ("max_radius=2.0,constant_volume_mode=False", {"max_radius": 2.0, "constant_volume_mode": False}, {}, False),
    ("max_radius=False,constant_volume_mode=False", {"max_radius": False, "constant_volume_mode": False}, {}, False),
    ("compute_radius_with_all=True,constant_volume_mode=False", {"compute_radius_with_all": True, "constant_volume_mode": False}, {}, False),
    ("compute_radius_with_all=True,check_acceptance=True,constant_volume_mode=False",
     {"compute_radius_with_all": True, "check_acceptance": True, "constant_volume_mode": False}, {}, True),
    ("truncate_log_q=True", {"truncate_log_q": True}, {}, True),
    ("accumulate_weights=True", {"accumulate_weights": True}, {}, True),
    ("check_acceptance=True", {"check_acceptance": True}, {}, False),
    ("drawsize=20", {"drawsize": 20}, {}, True),
    ("update_poolsize=False", {"update_poolsize": False}, {}, False),
    ("max_poolsize_scale=2", {"max_poolsize_scale": 2}, {}, False),
    ("reparameterisations=x:default", {"reparameterisations": {"x": "default"}}, {}, True),
    ("reparameterisations=inversion", {"reparameterisations": {"inversion": {"parameters": ["x", "y"]}}}, {}, False),
    ("reparameterisations=logit", {"reparameterisations": {"logit": {"parameters": ["x"]}}}, {}, False),
    ("reparameterisations=scale", {"reparameterisations": {"x": {"reparameterisation": "scale", "scale": 2.0}}}, {}, False),
    ("reparameterisations=null", {"reparameterisations": {"null": {"parameters": ["x", "y"]}}}, {}, False),
    ("fallback_reparameterisation=None", {"fallback_reparameterisation": None}, {}, False),
    ("fallback_reparameterisation=default", {"fallback_reparameterisation": "default"}, {}, False),
    ("use_default_reparameterisations=True", {"use_default_reparameterisations": True}, {}, False),
    ("reverse_reparameterisations=True", {"reverse_reparameterisations": True, "reparameterisations": {"x": "default", "y": "zscore"}}, {}, False),
    ("flow_config.ftype=maf", {"flow_config": {"ftype": "maf"}}, {}, True),
    ("flow_config.ftype=nsf", {"flow_config": {"ftype": "nsf"}}, {}, True),
    ("flow_config.ftype=glasflow-realnvp", {"flow_config": {"ftype": "glasflow-realnvp"}}, {}, False),
    ("flow_config.ftype=glasflow-nsf", {"flow_config": {"ftype": "glasflow-nsf"}}, {}, False),
    ("flow_config.ftype=glasflow-realnvp,latent_prior=flow,constant_volume_mode=False",
     {"flow_config": {"ftype": "glasflow-realnvp"}, "latent_prior": "flow", "constant_volume_mode": False}, {}, True),
    ("flow_config.ftype=maf,latent_prior=flow,constant_volume_mode=False",
     {"flow_config": {"ftype": "maf"}, "latent_prior": "flow", "constant_volume_mode": False}, {}, False),
    ("flow_config.ftype=nsf,latent_prior=flow,constant_volume_mode=False",
     {"flow_config": {"ftype": "nsf"}, "latent_prior": "flow", "constant_volume_mode": False}, {}, False),
    ("flow_config.batch_norm_between_layers=False", {"flow_config": {"batch_norm_between_layers": False}}, {}, False),
    ("flow_config.linear_transform=svd", {"flow_config": {"linear_transform": "svd"}}, {}, False),
    ("flow_config.linear_transform=permutation", {"flow_config": {"linear_transform": "permutation"}}, {}, False),
    ("flow_config.activation=tanh", {"flow_config": {"activation": "tanh"}}, {}, False),
    ("flow_config.distribution=lars", {"flow_config": {"distribution": "lars"}}, {}, False),
    ("flow_config.n_layers=1", {"flow_config": {"n_layers": 1}}, {}, False),
    ("flow_config.n_neurons=auto", {"flow_config": {"n_neurons": "auto"}}, {}, False),
    ("training_config.noise=constant", {"training_config": {"noise_type": "constant", "noise_scale": 0.1}}, {}, True),
    ("training_config.noise=adaptive", {"training_config": {"noise_type": "adaptive", "noise_scale": 0.1}}, {}, False),
    ("training_config.noise_scale_only", {"training_config": {"noise_scale": 0.05}}, {}, False),
    ("training_config.annealing=True", {"training_config": {"annealing": True}}, {}, False),
    ("training_config.optimiser=sgd", {"training_config": {"optimiser": "sgd"}}, {}, False),
    ("training_config.optimiser=adam", {"training_config": {"optimiser": "adam"}}, {}, False),
    ("training_config.use_dataloader=True", {"training_config": {"use_dataloader": True}}, {}, False),
    ("training_config.batch_size=all", {"training_config": {"batch_size": "all"}}, {}, False),
    # a final batch of one sample (45 % 4, 50 % 7): known to hang / spin - thorough tier only, short wall cap
    ("training_config.batch_size=4", {"training_config": {"batch_size": 4}}, {}, "thorough"),
    ("training_config.val_size=0 x training_config.batch_size=7", {"training_config": {"val_size": 0, "batch_size": 7}}, {}, "thorough"),
    ("training_config.batch_size=5", {"training_config": {"batch_size": 5}}, {}, False),
    ("training_config.val_size=0.3", {"training_config": {"val_size": 0.3}}, {}, False),
    ("training_config.clip_grad_norm=None", {"training_config": {"clip_grad_norm": None}}, {}, False),
    ("reset_weights=1", {"reset_weights": 1}, {}, True),
    ("reset_permutations=1", {"reset_permutations": 1}, {}, False),
    ("reset_flow=1", {"reset_flow": 1}, {}, True),
    ("retrain_acceptance=False", {"retrain_acceptance": False}, {}, False),
    ("reset_acceptance=True", {"reset_acceptance": True}, {}, False),
    ("training_frequency=20", {"training_frequency": 20}, {}, True),
    ("train_on_empty=False", {"train_on_empty": False, "training_frequency": 20}, {}, False),
    ("cooldown=5", {"cooldown": 5}, {}, False),
    ("memory=100", {"memory": 100}, {}, False),
    ("memory=20", {"memory": 20}, {}, False),
    ("maximum_uninformed=0", {"maximum_uninformed": 0}, {}, False),
    ("maximum_uninformed=30", {"maximum_uninformed": 30}, {}, False),
    ("max_iteration=None,stopping=2.0", {"max_iteration": None, "stopping": 2.0}, {}, False),
    ("poolsize=200", {"poolsize": 200}, {}, False),
    ("save_training_data=True", {"save_training_data": True}, {}, False),
    ("flow_class=flowproposal", {"flow_class": "flowproposal"}, {}, False),
    ("flow_proposal_class=clusteringflowproposal,max_n_clusters=3", {"flow_proposal_class": "clusteringflowproposal", "max_n_clusters": 3}, {}, False),
    ("checkpointing=True", {"checkpointing": True, "checkpoint_on_training": True, "checkpoint_on_iteration": True, "checkpoint_interval": 25}, {}, False),
    ("save=True,result_extension=json", {"result_extension": "json"}, {"save": True}, False),
    ("save=True,result_extension=hdf5", {"result_extension": "hdf5"}, {"save": True}, False),
    ("allow_multi_valued_likelihood=True", {"allow_multi_valued_likelihood": True}, {}, False),
    ("n_pool=2,parallelise_prior=True", {"n_pool": 2, "parallelise_prior": True}, {}, False),
    ("uninformed_proposal_kwargs=poolsize", {"uninformed_proposal_kwargs": {"poolsize": 30}}, {}, False),
    ("acceptance_threshold=0.5", {"acceptance_threshold": 0.5}, {}, False),
    ("maximum_uninformed=None", {"maximum_uninformed": None}, {}, False),
    ("maximum_uninformed=False", {"maximum_uninformed": False}, {}, True),
    ("uninformed_acceptance_threshold=0.9", {"uninformed_acceptance_threshold": 0.9}, {}, False),
    ("analytic_priors=True", {"analytic_priors": True}, {}, True),
    ("prior_sampling=True", {"prior_sampling": True}, {}, True),
    ("shrinkage_expectation=t", {"shrinkage_expectation": "t"}, {}, False),
    ("stopping=5.0", {"stopping": 5.0}, {}, True),
    ("posterior_sampling_method=importance_sampling", {}, {"posterior_sampling_method": "importance_sampling"}, True),
    ("posterior_sampling_method=multinomial_resampling", {}, {"posterior_sampling_method": "multinomial_resampling"}, False),
    ("n_pool=2", {"n_pool": 2}, {}, False),
    ("torch_dtype=float64", {"torch_dtype": "float64"}, {}, False),
    ("eps=1e-6", {"eps": 1e-6}, {}, False),
    ("disable_vectorisation=True", {"disable_vectorisation": True}, {}, False),
    ("likelihood_chunksize=10", {"likelihood_chunksize": 10}, {}, False),
    ("plot=True", {"plot": True}, {"plot": True}, False),
    ("plot=True,proposal_plots=True", {"plot": True, "proposal_plots": True}, {"plot": True}, False),
    ("flow_proposal_class=clusteringflowproposal,proposal_plots=True",
     {"flow_proposal_class": "clusteringflowproposal", "plot": True, "proposal_plots": True}, {}, True),
]

INS_OPTIONS = [
    ("threshold_method=quantile", {"threshold_method": "quantile"}, {}, True),
    ("threshold_kwargs=q:0.5", {"threshold_kwargs": {"q": 0.5}}, {}, False),
    ("threshold_kwargs=include_likelihood", {"threshold_kwargs": {"include_likelihood": True}}, {}, False),
    ("min_remove=5", {"min_remove": 5}, {}, False),
    ("max_samples=100", {"max_samples": 100}, {}, True),
    ("draw_constant=False", {"draw_constant": False}, {}, True),
    ("replace_all=True", {"replace_all": True}, {}, True),
    ("strict_threshold=True", {"strict_threshold": True}, {}, True),
    ("draw_iid_live=False", {"draw_iid_live": False}, {}, True),
    ("n_update=10", {"n_update": 10}, {}, False),
    ("n_update=10,max_iteration=None", {"n_update": 10, "max_iteration": None}, {}, False),
    ("max_iteration=None", {"max_iteration": None}, {}, False),
    # known not to terminate without an iteration cap: thorough tier only, short wall cap
    ("nlive=200,n_update=20,max_iteration=None", {"nlive": 200, "min_samples": 50, "n_update": 20, "max_iteration": None}, {}, "thorough"),
    ("max_samples=61,min_samples=60,max_iteration=None", {"max_samples": 61, "min_samples": 60, "max_iteration": None}, {}, "thorough"),
    ("max_samples=61,max_iteration=None", {"max_samples": 61, "max_iteration": None}, {}, "thorough"),
    ("checkpointing=True", {"checkpointing": True, "checkpoint_on_iteration": True, "checkpoint_interval": 1, "save_existing_checkpoint": True}, {}, False),
    ("save=True,result_extension=json", {"result_extension": "json"}, {"save": True}, False),
    ("plot_training=True", {"plot": True, "plot_training": True}, {}, False),
    ("stopping_criterion=[ratio,ess],check_criteria=all",
     {"stopping_criterion": ["ratio", "ess"], "tolerance": [0.0, 50.0], "check_criteria": "all"}, {}, True),
    ("tolerance=100", {"tolerance": 100.0}, {}, False),
    ("weighted_kl=True", {"weighted_kl": True}, {}, False),
    ("n_initial=100", {"n_initial": 100}, {}, False),
    ("min_iteration=2", {"min_iteration": 2, "tolerance": 100.0}, {}, False),
    ("save_log_q=True", {"save_log_q": True}, {}, False),
    ("reparameterisation=None", {"reparameterisation": None}, {}, True),
    ("reset_flow=False", {"reset_flow": False}, {}, True),
    ("reset_flow=2", {"reset_flow": 2}, {}, False),
    ("clip=True", {"clip": True}, {}, False),
    ("flow_config.ftype=nsf", {"flow_config": {"ftype": "nsf"}}, {}, False),
    ("flow_config.ftype=maf", {"flow_config": {"ftype": "maf"}}, {}, True),
    ("flow_config.ftype=glasflow-realnvp", {"flow_config": {"ftype": "glasflow-realnvp"}}, {}, False),
    ("flow_config.ftype=glasflow-nsf", {"flow_config": {"ftype": "glasflow-nsf"}}, {}, False),
    ("training_config.noise=constant", {"training_config": {"noise_type": "constant", "noise_scale": 0.1}}, {}, False),
    ("flow_config.batch_norm_between_layers=False", {"flow_config": {"batch_norm_between_layers": False}}, {}, False),
    ("flow_config.linear_transform=permutation", {"flow_config": {"linear_transform": "permutation"}}, {}, False),
    ("flow_config.linear_transform=svd", {"flow_config": {"linear_transform": "svd"}}, {}, False),
    ("flow_config.n_layers=1", {"flow_config": {"n_layers": 1}}, {}, False),
    ("flow_config.activation=tanh", {"flow_config": {"activation": "tanh"}}, {}, False),
    ("flow_config.distribution=lars", {"flow_config": {"distribution": "lars"}}, {}, False),
    ("bootstrap=True", {"bootstrap": True}, {}, True),
    ("train_final_flow=True", {"train_final_flow": True}, {}, True),
    ("redraw_samples=True", {}, {"redraw_samples": True}, True),
    ("redraw_samples=True,n_posterior_samples=50", {}, {"redraw_samples": True, "n_posterior_samples": 50}, False),
    ("redraw_samples=True,optimise_weights=True", {}, {"redraw_samples": True, "optimise_weights": True}, True),
    ("redraw_samples=True,use_counts=True", {}, {"redraw_samples": True, "use_counts": True}, False),
    ("redraw_samples=True,compute_initial_posterior=True", {}, {"redraw_samples": True, "compute_initial_posterior": True}, False),
    ("posterior_sampling_method=rejection_sampling", {}, {"posterior_sampling_method": "rejection_sampling"}, True),
    ("posterior_sampling_method=multinomial_resampling", {}, {"posterior_sampling_method": "multinomial_resampling"}, False),
    ("n_pool=2", {"n_pool": 2}, {}, False),
    ("torch_dtype=float64", {"torch_dtype": "float64"}, {}, False),
    ("disable_vectorisation=True", {"disable_vectorisation": True}, {}, False),
    ("likelihood_chunksize=10", {"likelihood_chunksize": 10}, {}, False),
    ("plot=True", {"plot": True}, {"plot": True}, False),
    ("plot=True,plot_extra_state=True", {"plot": True, "plot_extra_state": True}, {}, True),
    ("plot=True,plot_training_data,plot_level_cdf,plot_pool", {"plot": True, "plot_training_data": True, "plot_level_cdf": True,
                                                               "plot_pool": True}, {}, False),
]

# invalid values: must be rejected before any sampling starts.  (label = option name)
STD_INVALID = [
    ("flow_proposal_class", {"flow_proposal_class": "nosuchproposal"}, {}),
    ("unknown_keyword", {"no_such_option": 1}, {}),
    ("latent_prior", {"latent_prior": "nosuchprior"}, {}),
    ("reparameterisations", {"reparameterisations": "nosuchreparam"}, {}),
    ("flow_config.ftype", {"flow_config": {"ftype": "nosuchflow"}}, {}),
    ("flow_config.linear_transform", {"flow_config": {"linear_transform": "nosuch"}}, {}),
    ("flow_config.activation", {"flow_config": {"activation": "nosuch"}}, {}),
    ("training_config.noise_type", {"training_config": {"noise_type": "constant"}}, {}),
    ("training_config.noise_scale", {"training_config": {"noise_scale": "big"}}, {}),
    ("training_config.optimiser", {"training_config": {"optimiser": "nosuch"}}, {}),
    ("reset_weights", {"reset_weights": "often"}, {}),
    ("min_radius", {"min_radius": "small"}, {}),
    ("shrinkage_expectation", {"shrinkage_expectation": "nosuch"}, {}),
    ("poolsize", {"poolsize": None, "nlive": None}, {}),
    ("posterior_sampling_method", {}, {"posterior_sampling_method": "nosuchmethod"}),
    ("generate_augment", {"flow_proposal_class": "augmentedflowproposal", "generate_augment": "nosuch"}, {}),
]
INS_INVALID = [
    ("threshold_method", {"threshold_method": "nosuchmethod"}, {}),
    ("stopping_criterion", {"stopping_criterion": "nosuchcriterion"}, {}),
    ("check_criteria", {"check_criteria": "some"}, {}),
    ("tolerance", {"stopping_criterion": ["ratio", "ess"], "tolerance": [0.0]}, {}),
    ("min_samples", {"min_samples": 1000}, {}),
    ("min_remove", {"min_remove": 1000}, {}),
    ("max_samples", {"max_samples": 30}, {}),
    ("unknown_keyword", {"no_such_option": 1}, {}),
    ("reparameterisation", {"reparameterisation": "nosuchreparam"}, {}),
    ("flow_config.ftype", {"flow_config": {"ftype": "nosuchflow"}}, {}),
    ("training_config.noise_type", {"training_config": {"noise_type": "constant"}}, {}),
    ("posterior_sampling_method", {}, {"posterior_sampling_method": "nosuchmethod"}),
    ("redraw.n_post+n_draw", {}, {"redraw_samples": True, "n_posterior_samples": 20, "n_draw": 20}),
    ("redraw.optimisation_method", {}, {"redraw_samples": True, "optimise_weights": True, "optimisation_method": "nosuch"}),
]

# the subset whose values are combined pairwise in the thorough tier (broken post-sampling options are left to
# the singles: a pair with one of them only reproduces that failure)
STD_PAIR_AXES = [
    ("flow_proposal_class", [{}, {"flow_proposal_class": "augmentedflowproposal"}]),
    ("latent", [{}, {"latent_prior": "gaussian", "constant_volume_mode": False}, {"latent_prior": "uniform_nball"},
                {"constant_volume_mode": False}]),
    ("truncate_log_q", [{}, {"truncate_log_q": True}]),
    ("accumulate_weights", [{}, {"accumulate_weights": True}]),
    ("reparameterisations", [{}, {"reparameterisations": {"x": "default"}}, {"fallback_reparameterisation": None}]),
    ("ftype", [{}, {"flow_config": {"ftype": "nsf"}}, {"flow_config": {"ftype": "maf"}}]),
    ("noise", [{}, {"training_config": {"noise_type": "constant", "noise_scale": 0.1}}]),
    ("reset", [{}, {"reset_flow": 1}, {"reset_weights": 1}]),
    ("uninformed", [{}, {"maximum_uninformed": False}, {"analytic_priors": True}]),
    ("training_frequency", [{}, {"training_frequency": 20}]),
    ("drawsize", [{}, {"drawsize": 20}, {"drawsize": 2}, {"check_acceptance": True}]),
    ("val_size", [{}, {"training_config": {"val_size": 0}}]),
    ("loader", [{}, {"training_config": {"use_dataloader": True}}, {"training_config": {"batch_size": "all"}}]),
]
INS_PAIR_AXES = [
    ("threshold_method", [{}, {"threshold_method": "quantile"}]),
    ("draw_constant", [{}, {"draw_constant": False}]),
    ("replace_all", [{}, {"replace_all": True}]),
    ("strict_threshold", [{}, {"strict_threshold": True}]),
    ("draw_iid_live", [{}, {"draw_iid_live": False}]),
    ("max_samples", [{}, {"max_samples": 100}]),
    ("criterion", [{}, {"stopping_criterion": ["ratio", "ess"], "tolerance": [0.0, 50.0], "check_criteria": "all"},
                   {"stopping_criterion": "Z_err", "tolerance": 0.5}]),
    ("reparameterisation", [{}, {"reparameterisation": None}]),
    ("reset_flow", [{}, {"reset_flow": False}, {"reset_flow": 2}]),
    ("ftype", [{}, {"flow_config": {"ftype": "maf"}}]),
    ("weighted_kl", [{}, {"weighted_kl": True}]),
    ("n_update", [{}, {"n_update": 10}]),
    ("val_size", [{}, {"training_config": {"val_size": 0}}]),
    ("batch_size", [{}, {"training_config": {"batch_size": "all"}}]),
    ("noise", [{}, {"training_config": {"noise_type": "constant", "noise_scale": 0.1}}]),
]


# methods of the finished sampler that a user calls after run() (label, [(method, args)])
INS_POST = [("post:draw_more_nested_samples", [["draw_more_nested_samples", [20]]]),
            ("post:draw_posterior_samples", [["draw_posterior_samples", []]])]

# mini pairwise arrays that run in BOTH tiers: every value on its own and all pairs of values of different axes.
# training sub-options (both samplers; the importance sampler always trains through data loaders)
TRAIN_AXES = [
    ("val_size", [{"training_config": {"val_size": 0}}, {"training_config": {"val_size": 0.5}}]),
    ("use_dataloader", [{"training_config": {"use_dataloader": True}}]),
    ("batch_size", [{"training_config": {"batch_size": "all"}}, {"training_config": {"batch_size": 10000}},
                    {"training_config": {"batch_size": 5}}]),
    ("noise", [{"training_config": {"noise_type": "constant", "noise_scale": 0.1}},
               {"training_config": {"noise_type": "adaptive", "noise_scale": 0.1}}]),
    ("annealing", [{"training_config": {"annealing": True}}]),
]
# population options of the standard sampler on the corner-peaked model (a fair share of the flow's draws lies
# outside the prior bounds, so with a small drawsize whole batches are discarded)
POP_AXES = [
    ("drawsize", [{"drawsize": 1}, {"drawsize": 2}, {"drawsize": 7}]),
    ("truncate_log_q", [{"truncate_log_q": True}]),
    ("accumulate_weights", [{"accumulate_weights": True}]),
    ("latent", [{"constant_volume_mode": False}, {"latent_prior": "uniform_nball"}]),
    ("check_acceptance", [{"check_acceptance": True}]),
]


# training schedule / reset / uninformed-phase options of the standard sampler (both tiers, singles + all pairs)
SCHED_AXES = [
    ("memory", [{"memory": 20}, {"memory": 100}]),
    ("maximum_uninformed", [{"maximum_uninformed": False}, {"maximum_uninformed": 0}]),
    ("training_frequency", [{"training_frequency": 20}]),
    ("reset", [{"reset_flow": 1}, {"reset_weights": 1, "reset_permutations": 1}]),
    ("cooldown", [{"cooldown": 5}]),
    ("acceptance", [{"retrain_acceptance": False}, {"acceptance_threshold": 0.5}]),
    ("uninformed", [{"analytic_priors": True}]),
    ("checkpointing", [{"checkpointing": True, "checkpoint_on_training": True, "checkpoint_on_iteration": True,
                        "checkpoint_interval": 25}]),
]
# level-update options of the importance sampler (both tiers, singles + all pairs)
INS_LEVEL_AXES = [
    ("n_update", [{"n_update": 10}]),
    ("max_samples", [{"max_samples": 61}, {"max_samples": 100}]),
    ("draw_constant", [{"draw_constant": False}]),
    ("replace_all", [{"replace_all": True}]),
    ("strict_threshold", [{"strict_threshold": True}]),
    ("draw_iid_live", [{"draw_iid_live": False}]),
    ("min_remove", [{"min_remove": 5}]),
    ("checkpointing", [{"checkpointing": True, "checkpoint_on_iteration": True, "checkpoint_interval": 1}]),
]


# ---- reparameterisations: generated from the registry REGENERATED from the source --------------------------------
PI = math.pi
BOX_AZ = f"box:0,{2 * PI},0,{PI}"                    # x in [0, 2pi], y in [0, pi]
BOX_RA = f"box:0,{2 * PI},{-PI / 2},{PI / 2}"        # x in [0, 2pi], y in [-pi/2, pi/2]
# (model, parameter the name is applied to) for names that need particular bounds; everything else: gauss2, x
NAME_PLAN = {"angle": (BOX_AZ, "x"), "angle-2pi": (BOX_AZ, "x"), "periodic": (BOX_AZ, "x"), "angle-pi": (BOX_AZ, "y"),
             "angle-sine": (BOX_AZ, "y"), "to-cartesian": (BOX_AZ, "y"), "angle-cosine": (BOX_RA, "y"),
             "angle-pair": (BOX_RA, "xy")}
# extra keywords a class needs to be usable at all, and its documented sub-options
CLASS_EXTRA = {"Rescale": {"scale": 2.0}, "ScaleAndShift": {"scale": 2.0}}
CLASS_SUB = {
    "RescaleToBounds": [{"prior": "uniform"}, {"boundary_inversion": True, "inversion_type": "split"},
                        {"boundary_inversion": True, "inversion_type": "duplicate"},
                        {"boundary_inversion": True, "detect_edges": True},
                        {"boundary_inversion": True, "prior": "uniform"},
                        {"update_bounds": False}, {"offset": True}, {"rescale_bounds": [0.0, 1.0]},
                        {"rescale_bounds": [0.0, 1.0], "update_bounds": False, "post_rescaling": "logit"},
                        {"rescale_bounds": [0.0, 1.0], "update_bounds": False, "post_rescaling": "log"},
                        {"pre_rescaling": "exp"}, {"prior": "uniform", "update_bounds": False}],
    "ScaleAndShift": [{"scale": 2.0, "shift": 1.0}, {"estimate_scale": True, "estimate_shift": True}, {"estimate_shift": True, "scale": 2.0}],
    "Rescale": [{"scale": 0.5}],
    "Angle": [{"scale": 1.0, "prior": "uniform"}, {"scale": None}],
    "AnglePair": [{"convention": "ra-dec"}, {"prior": "isotropic"}],
    "ToCartesian": [{"mode": "duplicate"}, {"mode": "half"}],
}
FALLBACK_REGISTRY = [("default", "RescaleToBounds", []), ("zscore", "ScaleAndShift", ["estimate_scale", "estimate_shift"])]
# reparameterisations that interact with the population step (x-prime prior for every parameter, inversion)
REPARAM_POP = [
    ("prime-uniform:all", {"rescaletobounds": {"parameters": ["x", "y"], "prior": "uniform"}}),
    ("prime-uniform:x", {"x": {"reparameterisation": "rescaletobounds", "prior": "uniform"}}),
    ("inversion:all", {"inversion": {"parameters": ["x", "y"]}}),
    ("inversion-duplicate:all", {"inversion-duplicate": {"parameters": ["x", "y"]}}),
    ("logit:all", {"logit": {"parameters": ["x", "y"]}}),
]
REPARAM_PARTNERS = [{"drawsize": 2}, {"truncate_log_q": True}, {"accumulate_weights": True}, {"constant_volume_mode": False},
                    {"latent_prior": "uniform_nball"}, {"check_acceptance": True}, {"flow_proposal_class": "augmentedflowproposal"},
                    {"maximum_uninformed": False}]


def _sub_label(d):
    return ",".join(f"{k}={v}" for k, v in sorted(d.items()))


def reparam_jobs(n, tier, seed0, registry):
    """every registered name on a parameter whose bounds suit it (one parameter, and - where the class takes several -
    all parameters), every documented sub-option of its class, and the population-relevant ones in pairs with the
    population options.  Both tiers."""
    out = []

    def job(label, rep, model, extra=None, stream="valid"):
        kw = {"reparameterisations": rep}
        kw.update(extra or {})
        out.append(mkjob(f"j{next(n)}", "std", label, kw, {}, tier, seed0, stream=stream, model=model))

    done_sub = set()
    for name, cls, _defaults in registry:
        model, par = NAME_PLAN.get(name, ("gauss2", "x"))
        extra = dict(CLASS_EXTRA.get(cls, {})) if not _defaults else {}
        if par == "xy":
            job(f"reparam[{name}:x+y]", {name: {"parameters": ["x", "y"], **extra}}, model)
        else:
            job(f"reparam[{name}:{par}]", {par: {"reparameterisation": name, **extra}}, model)
            if cls not in ("Angle", "ToCartesian"):
                job(f"reparam[{name}:all]", {name: {"parameters": ["x", "y"], **extra}}, model)
        if cls not in done_sub:
            done_sub.add(cls)
            for sub in CLASS_SUB.get(cls, []):
                if par == "xy":
                    job(f"reparam[{name}:x+y,{_sub_label(sub)}]", {name: {"parameters": ["x", "y"], **sub}}, model)
                else:
                    job(f"reparam[{name}:{par},{_sub_label(sub)}]", {par: {"reparameterisation": name, **sub}}, model)
                    if cls not in ("Angle", "ToCartesian"):
                        job(f"reparam[{name}:all,{_sub_label(sub)}]", {name: {"parameters": ["x", "y"], **sub}}, model)
    for rl, rep in REPARAM_POP:
        for partner in REPARAM_PARTNERS:
            job(f"reparam[{rl}] x {compact(partner)}", rep, "gauss2", extra=partner, stream="pair")
    return out


def mini_array(n, sampler, axes, tier, seed0, model, seeds_for_singles=1):
    out = []
    suffix = "" if model == "gauss2" else f"@{model}"
    for _, vals in axes:
        for v in vals:
            for k in range(seeds_for_singles):
                out.append(mkjob(f"j{next(n)}", sampler, compact(v) + suffix, v, {}, tier, seed0 + k, model=model))
    for (na, va), (nb, vb) in itertools.combinations(axes, 2):
        for a in va:
            for b in vb:
                out.append(mkjob(f"j{next(n)}", sampler, f"{compact(a)} x {compact(b)}{suffix}", merge(merge({}, a), b), {},
                                 tier, seed0, stream="pair", model=model))
    return out


def compact(kw):
    """{'flow_config': {'ftype': 'maf'}, 'x': 1} -> 'flow_config.ftype=maf,x=1' (same style as the single-option labels)"""
    out = []
    for k, v in sorted(kw.items()):
        if isinstance(v, dict) and k in ("flow_config", "training_config"):
            out += [f"{k}.{kk}={vv}" for kk, vv in sorted(v.items())]
        elif isinstance(v, dict):
            out.append(f"{k}=" + "+".join(f"{kk}:{vv}" for kk, vv in sorted(v.items())))
        else:
            out.append(f"{k}={v}")
    return ",".join(out)


def merge(base, extra):
    out = json.loads(json.dumps(base))
    for k, v in extra.items():
        if k in ("flow_config", "training_config") and isinstance(v, dict) and isinstance(out.get(k), dict):
            out[k].update(v)
        else:
            out[k] = v
    return out


def mkjob(jid, sampler, label, kw, rkw, tier, seed, stream="valid", model="gauss2"):
    kwargs = merge(base_kwargs(sampler, tier), kw)
    kwargs["seed"] = seed
    run_kwargs = {"plot": False, "save": False}
    run_kwargs.update(rkw)
    return {"id": jid, "sampler": sampler, "label": label, "stream": stream, "kwargs": kwargs, "run_kwargs": run_kwargs,
            "model": model, "seed": seed, "wall": 100 if tier == "quick" else 240,      # budget in CPU seconds of the worker
            "draw_cap": 300_000, "like_cap": 100_000, "stall_cap": 300, "max_traces": 8}


# tolerance used with each stopping criterion on its own (criterion <= tolerance stops the run); a criterion
# added to nessai later gets the default.  Chosen so that the canonical run does NOT stop at the first
# iteration: a spelling that reads a different quantity then shows in the iteration count.
CRITERION_TOLERANCE = {"ratio": 0.0, "ratio_ns": 0.0, "Z_err": 0.05, "log_dZ": 0.001, "ess": 0.0, "fractional_error": 0.05}
FALLBACK_ALIASES = [("ratio", ["ratio"])]


def alias_jobs(n, tier, seed0, alias_tbl):
    """every spelling of every stopping criterion, taken from the alias table REGENERATED from the source
    (a new alias is picked up automatically).  quick: the canonical name (if it is one of its own aliases) and
    the first other spelling of each criterion; thorough: all spellings, and each non-canonical one inside a
    two-criterion list.  Jobs of one criterion share seed and tolerance: they must behave identically."""
    out = []
    for crit, als in alias_tbl:
        tol = CRITERION_TOLERANCE.get(crit, 0.5)
        others = [a for a in als if a != crit]
        spellings = ([crit] if crit in als else []) + (others if tier == "thorough" else others[:1])
        ref = spellings[0] if spellings else None
        for a in spellings:
            j = mkjob(f"j{next(n)}", "ins", f"stopping_criterion={a}", {"stopping_criterion": a, "tolerance": tol}, {}, tier, seed0)
            j["alias"] = {"criterion": crit, "spelling": a, "reference": ref, "form": "single"}
            out.append(j)
        if tier == "thorough":
            partner = "ess" if crit != "ess" else "ratio"
            for a in ([crit] if crit in als else []) + others:
                kw = {"stopping_criterion": [a, partner], "tolerance": [tol, CRITERION_TOLERANCE.get(partner, 0.5)], "check_criteria": "any"}
                j = mkjob(f"j{next(n)}", "ins", f"stopping_criterion=[{a},{partner}]", kw, {}, tier, seed0)
                j["alias"] = {"criterion": crit, "spelling": a, "reference": crit if crit in als else others[0], "form": "list"}
                out.append(j)
    return out


def build_jobs(chk, alias_tbl=None, registry=None):
    tier, jobs = chk.tier, []
    seed0 = 1000 + chk.seed
    n = itertools.count()
    for sampler, opts, inval, axes in (("std", STD_OPTIONS, STD_INVALID, STD_PAIR_AXES),
                                       ("ins", INS_OPTIONS, INS_INVALID, INS_PAIR_AXES)):
        jobs.append(mkjob(f"j{next(n)}", sampler, "<base>", {}, {}, tier, seed0))
        for label, kw, rkw, main in opts:
            if tier == "quick" and (main == "thorough" or (not main and ("plot=True" in label or "n_pool" in label))):
                continue                # the slow ones (plots, process pools, known hangs) are left to the thorough tier
            jobs.append(mkjob(f"j{next(n)}", sampler, label, kw, rkw, tier, seed0))
            if main == "thorough":
                jobs[-1]["wall"] = 75
                continue
            if tier == "thorough":
                jobs.append(mkjob(f"j{next(n)}", sampler, label, kw, rkw, tier, seed0 + 1,
                                  model="gauss3" if "reparameterisations" not in kw else "gauss2"))
        for label, kw, rkw in inval:
            jobs.append(mkjob(f"j{next(n)}", sampler, label, kw, rkw, tier, seed0, stream="invalid"))
        if sampler == "ins":
            jobs += alias_jobs(n, tier, seed0, alias_tbl or FALLBACK_ALIASES)
            for label, calls in INS_POST:
                j = mkjob(f"j{next(n)}", "ins", label, {}, {}, tier, seed0)
                j["post_calls"] = calls
                jobs.append(j)
        jobs += mini_array(n, sampler, TRAIN_AXES, tier, seed0, "gauss2")
        jobs += mini_array(n, sampler, SCHED_AXES if sampler == "std" else INS_LEVEL_AXES, tier, seed0, "gauss2")
        jobs.append(mkjob(f"j{next(n)}", sampler, "<base>@corner2", {}, {}, tier, seed0, model="corner2"))
        if sampler == "std":
            jobs += mini_array(n, "std", POP_AXES, tier, seed0, "corner2", seeds_for_singles=2 if tier == "quick" else 3)
            jobs += reparam_jobs(n, tier, seed0, registry or FALLBACK_REGISTRY)
        if tier == "thorough":
            for (na, va), (nb, vb) in itertools.combinations(axes, 2):
                for a in va:
                    for b in vb:
                        if not a or not b:
                            continue        # value `default` of an axis is covered by the singles
                        kw = merge(merge({}, a), b)
                        label = f"{compact(a)} x {compact(b)}"
                        jobs.append(mkjob(f"j{next(n)}", sampler, label, kw, {}, tier, seed0 + 2, stream="pair"))
    return jobs


# =====================================================================================================
# classification of one run (the direct predicate)
# =====================================================================================================
ATTR_RE = re.compile(r"'(\w+)' object has no attribute '(\w+)'")
KW_RE = re.compile(r"([\w.]+)\(\) got an unexpected keyword argument '(\w+)'")
UP_FRONT = ("construct", "run-config")


def failure_key(job, r):
    """None when the run satisfies the property; else (key, what)"""
    st, ph = r.get("status"), r.get("phase")
    label, sampler = job["label"], job["sampler"]
    if st == "harness-error":
        return None
    if st in ("timeout", "died", "cap"):
        it = (r.get("loop_stats") or {}).get("interrupted_traces") or []
        if st == "cap" and it and all(t["kind"] == "populate" and t["accumulate"] and t["empty_passes"] == 0
                                      and t["n_proposed"] <= (t["max_samples"] or 0) for t in it):
            # accumulate_weights: the loop the harness cut is the one C20_populate_accumulate_bounded bounds by
            # max_samples + drawsize draws (its hypothesis - no pass skipped by `continue` - was observed);
            # slow, not endless.  Counted in the distribution.
            return None
        where = (r.get("where") or ["?"])
        if st != "cap":
            # faulthandler lines (`File ".../nessai/a/b.py", line N in f`, most recent call first) -> a/b.py:f, outermost first
            fr = [re.search(r'/nessai/([^"]+)", line \d+ in (\w+)', w) for w in where]
            where = [f"{m.group(1)}:{m.group(2)}" for m in fr if m][::-1] or ["?"]
        last = where[-1]
        loop = next((w for w in reversed(where) if w.endswith((":populate", ":draw", ":_train"))), last)
        # the identity of a no-termination finding is the sampler and the option values only: WHERE the cap happened
        # to land (which loop, which frame the wall clock sampled) depends on load and goes into the description
        return (f"C20:no-termination:{sampler}:{label}",
                f"{sampler} run with {label}: {st} ({r.get('exc_msg', 'CPU-time budget used up')}) in {loop}; "
                f"loop stats {r.get('loop_stats')}")
    if st == "raised":
        msg = r.get("exc_msg", "")
        if ph in UP_FRONT:
            # rejected before any sampling started (whatever the exception class: the base configuration is
            # required to complete, so a stale default path cannot hide here)
            return None
        m = ATTR_RE.search(msg) if r.get("exc_type") == "AttributeError" else None
        if m and m.group(1) != "NoneType":
            return (f"C20:attr:{m.group(1)}:{m.group(2)}",
                    f"{sampler} run with {label}: AttributeError {m.group(1)}.{m.group(2)} in phase `{ph}` after "
                    f"{r.get('n_like')} likelihood evaluations")
        m = KW_RE.search(msg) if r.get("exc_type") == "TypeError" else None
        if m:
            return (f"C20:call:{m.group(1)}:{m.group(2)}",
                    f"{sampler} run with {label}: {m.group(1)}() got unexpected keyword {m.group(2)} in phase `{ph}` "
                    f"after {r.get('n_like')} likelihood evaluations")
        if job["stream"] == "invalid":
            return (f"C20:late-rejection:{sampler}:{label}",
                    f"{sampler}: invalid value for {label} is rejected ({r.get('exc_type')}: {msg[:80]}) only in phase "
                    f"`{ph}`, after {r.get('n_like')} likelihood evaluations")
        return (f"C20:late-failure:{sampler}:{r.get('exc_type')}@{(r.get('where') or ['?'])[-1]}:{label}",
                f"{sampler} run with {label} raised {r.get('exc_type')}: {msg[:120]} in phase `{ph}` after "
                f"{r.get('n_like')} likelihood evaluations (at {(r.get('where') or ['?'])[-1]})")
    if st == "completed":
        if job["stream"] == "invalid" and job["label"] not in ("training_config.noise_scale",):
            # an invalid value that is silently accepted is not covered by the property text (it speaks of
            # documented options); recorded in the distribution only
            pass
        res = r.get("result", {})
        bad = []
        for f in ("logZ", "logZ_error"):
            v = res.get(f)
            if f == "logZ_error" and v is not None and v != v:
                # tiny runs (nlive 50, 10 epochs) can end with a negative information estimate, whose square
                # root is the reported error: a quality artefact of the harness's settings, counted in the
                # distribution (`run-with-NaN-logZ_error`), not a failure of the option
                continue
            if v is None or not math.isfinite(v):
                bad.append(f"{f}={v}")
        if res.get("logZ_error") is not None and math.isfinite(res["logZ_error"]) and res["logZ_error"] < 0:
            bad.append("negative logZ_error")
        if not res.get("n_post", 0) >= 1:
            bad.append("no posterior samples")
        if not res.get("post_finite", False):
            bad.append("non-finite posterior samples")
        if not res.get("post_in_bounds", False):
            bad.append("posterior samples outside the prior bounds")
        if sampler == "std":
            if res.get("n_nested", 0) < min(res.get("iteration", 0), 1):
                bad.append("no nested samples")
            if res.get("n_nested", 0) not in (res.get("iteration", -1), res.get("iteration", -1) + res.get("nlive", 0)):
                bad.append(f"nested samples {res.get('n_nested')} != iteration {res.get('iteration')} (+ nlive)")
        else:
            if res.get("n_nested", 0) < res.get("nlive", 0):
                bad.append("fewer samples than nlive")
            if "n_final" in res and (res["n_final"] < 1 or not math.isfinite(res.get("final_logZ", float("nan")))):
                bad.append("bad final samples")
        if bad:
            return (f"C20:result:{sampler}:{label}", f"{sampler} run with {label} completed with {'; '.join(bad)}")
    return None


# =====================================================================================================
# tie A (iii): call table
# =====================================================================================================
def sig_lit(s):
    return (f"(mkSig {sL(s.pos)} {cN(s.nposonly)} {sL(s.kwonly)} {sL(s.required)} {cB(s.vararg)} {cB(s.varkw)})")


def call_lit(c):
    return f"(mkCall {cL(cN(i) for i in c['callee_ids'])} {cN(c['npos'])} {cB(c['star'])} {sL(c['kws'])} {cB(c['dstar'])})"


def table_text(tb, calls, reads):
    cls = cL(f"(mkCls {cStr(c['name'])} {sL(c['assigned'])} {sL(c['family'])})" for c in tb.classes)
    return ("Definition sigs : list sig := " + cL(sig_lit(s) for s in tb.sigs) + ".\n"
            "Definition calls : list call := " + cL(call_lit(c) for c in calls) + ".\n"
            "Definition classes : list cls := " + cls + ".\n"
            "Definition ext : list string := " + sL(sorted(tb.ext_assigned)) + ".\n"
            "Definition reads : list (string * string) := " + cL(cT(cStr(a), cStr(b)) for a, b in reads) + ".\n"
            "Definition tbl := mkTable sigs calls classes ext reads.\n")


def call_table(chk):
    import c20_calls
    from pyast import Declined
    try:
        t0 = time.time()
        tb = c20_calls.build()
        chk.translator["call_table"] = (f"translated: {len(tb.sigs)} signatures, {len(tb.calls)} resolved calls of "
                                        f"{tb.stats['calls_seen']} seen, {tb.stats['reads_emitted']} attribute reads on "
                                        f"closed classes ({tb.stats['reads_open_class']} on open classes skipped, "
                                        f"{tb.stats['reads_guarded']} guarded), {len(tb.classes)} classes, "
                                        f"{time.time() - t0:.1f}s")
    except Declined as e:
        chk.translator["call_table"] = f"declined: {e}"
        return None
    on_path = c20_calls.reachable(tb)
    reads_u, read_sites = [], {}
    for r in tb.reads:
        k = (r["cls"], r["attr"])
        if k not in read_sites:
            read_sites[k] = []
            reads_u.append(k)
        read_sites[k].append(r)
    txt = HDR + table_text(tb, tb.calls, reads_u) + \
        "Eval vm_compute in (explain_calls tbl).\nEval vm_compute in (failing_reads tbl).\nEval vm_compute in (failing_calls tbl).\n"
    ok, evals, err = chk.coq_run("call_table", txt, timeout=600)
    if not ok or len(evals) != 3:
        chk.oblige("call table evaluates inside Coq", "today", False, err)
        return None
    expl = [(int(a), int(b), w) for a, b, w in re.findall(r'\((\d+)(?:%nat)?, (\d+)(?:%nat)?, "([^"]*)"(?:%string)?\)', evals[0])]
    bad_reads = common.parse_nat_list(evals[1])
    bad_calls = common.parse_nat_list(evals[2])
    excluded_calls, excluded_reads, unknown, static_keys = set(), set(), [], {}
    by_call = {}
    for ci, si, w in expl:
        by_call.setdefault(ci, []).append((si, w))
    for ci in bad_calls:
        c = tb.calls[ci]
        keys = [f"C20:call:{tb.sigs[si].key}:{w}" for si, w in by_call.get(ci, [(0, '?')])]
        site = {"kind": "call", "caller": c["caller"], "file": c["file"], "line": c["line"], "text": c["text"], "keys": keys}
        if c["caller"] not in on_path:
            chk.count("static:off-path-entry")
            chk.notes.append(f"dismissed (function not reachable by name from FlowSampler - dead code): {site}")
            excluded_calls.add(ci)
            continue
        if all(is_known(chk, k) for k in keys):
            excluded_calls.add(ci)
            for k in keys:
                static_keys.setdefault(k, site)
        else:
            unknown.append(site)
    for ri in bad_reads:
        k = reads_u[ri]
        sites = read_sites[k]
        key = f"C20:attr:{k[0]}:{k[1]}"
        live = [s for s in sites if s["func"] in on_path]
        site = {"kind": "read", "cls": k[0], "attr": k[1], "keys": [key],
                "sites": [f"{s['file']}:{s['line']} in {s['func']} (via {s['via']})" for s in sites][:6]}
        if not live:
            chk.count("static:off-path-entry")
            chk.notes.append(f"dismissed (function not reachable by name from FlowSampler - dead code): {site}")
            excluded_reads.add(ri)
            continue
        if is_known(chk, key):
            excluded_reads.add(ri)
            static_keys.setdefault(key, site)
        else:
            unknown.append(site)
    chk.count("static:calls-checked", len(tb.calls))
    chk.count("static:reads-checked", len(reads_u))
    chk.count("static:false-entries", len(bad_calls) + len(bad_reads))
    # today lemma: everything that is not a recorded defect / dead code passes the proven-sound checker
    calls2 = [c for i, c in enumerate(tb.calls) if i not in excluded_calls]
    reads2 = [r for i, r in enumerate(reads_u) if i not in excluded_reads]
    txt = HDR + table_text(tb, calls2, reads2) + \
        "Lemma today_calls_well_formed : calls_well_formed tbl = true.\nProof. vm_compute. reflexivity. Qed.\n"
    ok2, _, err2 = chk.coq_run("today_calls", txt, timeout=600)
    detail = err2
    if unknown:
        detail = "entries rejected by the checker that are not recorded findings: " + json.dumps(unknown)[:1500]
    chk.oblige(f"today: calls_well_formed holds of the call/attribute table regenerated from the package "
               f"({len(calls2)} calls, {len(reads2)} reads; {len(excluded_calls) + len(excluded_reads)} entries "
               f"set aside: recorded defects and dead code)", "today", ok2 and not unknown, detail)
    return {"tb": tb, "static_keys": static_keys, "unknown": unknown}


def validate_sigs(chk, tb):
    """oracle validation: the signatures the translator read from the source = inspect.signature of the real objects"""
    req = [{"key": s.key, "module": s.module, "qual": s.qual, "drop_first": s.drop_first} for s in tb.sigs]
    rc, out, err = chk.child("c20_child.py", ["sigs"], timeout=300, inp=json.dumps({"sigs": req}))
    if rc != 0:
        chk.oblige("signature validation child ran", "harness", False, err[-1500:])
        return
    res = json.loads(out)["sigs"]
    lits, skipped = [], 0
    for s, r in zip(tb.sigs, res):
        if "error" in r:
            skipped += 1
            chk.count("sig-validation:unimportable")
            continue
        pos = r["pos"]
        real = (f"(mkSig {sL(pos)} {cN(r['nposonly'])} {sL(r['kwonly'])} {sL(r['required'])} "
                f"{cB(r['vararg'])} {cB(r['varkw'])})")
        lits.append(cT(sig_lit(s), real))
    txt = HDR + f"Definition cs := {cL(lits)}.\nEval vm_compute in (mism chk_sig cs).\n"
    ok, evals, e2 = chk.coq_run("sigs", txt, timeout=300)
    bad = common.parse_nat_list(evals[0]) if ok and evals else [-1]
    chk.oracle_validations += len(lits)
    chk.oblige(f"correspondence: signatures read from the source = inspect.signature of the imported objects "
               f"({len(lits)} callees, {skipped} not importable by name)", "correspondence", ok and not bad,
               e2 or "mismatching: " + "; ".join(lits[i] for i in bad[:3]))


# =====================================================================================================
# tie A (ii): validators
# =====================================================================================================
REQ = {
    "std": [("V", "get_flow_proposal_class", "C", "ProposalClass"), ("V", "check_proposal_kwargs", "C", "ProposalClass"),
            ("V", "get_flow_proposal_class", "S", "populate_live_points"),
            ("V", "check_proposal_kwargs", "S", "populate_live_points"),
            ("V", "update_config", "S", "populate_live_points")],
    "ins": [("V", "configure_stopping_criterion", "S", "populate_live_points"),
            ("V", "check_configuration", "S", "populate_live_points"),
            ("V", "configure_stopping_criterion", "C", "<FlowSampler.__init__ returns>"),
            ("V", "check_configuration", "C", "<FlowSampler.__init__ returns>"),
            ("V", "update_config", "S", "populate_live_points")],
}
EV = {"V": "PValidate", "C": "PConstruct", "S": "PSample"}


def ev_lit(k, n):
    return f"({EV[k]} {cStr(n)})"


def validators_static(chk):
    import c20_options
    from pyast import Declined
    out = {"gen": None, "aliases": None, "base": None}
    try:
        gen, n = c20_options.check_configuration()
        out["gen"] = gen
        chk.translator["check_configuration"] = f"translated ({n} rejecting tests)"
        txt = HDR + gen + ("Lemma today_cc : P_cc_safe gen_check_configuration.\n"
                           "Proof. unfold P_cc_safe. cc_safe_tac gen_check_configuration. Qed.\n")
        ok, _, err = chk.coq_run("today_cc", txt, timeout=300)
        chk.oblige("today: every configuration accepted by the regenerated check_configuration has min_samples <= nlive, "
                   "min_remove <= nlive and max_samples unset or > nlive (split ifs + lia)", "today", ok, err)
        txt = HDR + gen + ("Lemma today_cc_bridge : forall a b c d, gen_check_configuration a b c d = check_configuration a b c d.\n"
                           "Proof. intros; cbv beta delta [gen_check_configuration check_configuration]; split_ifs; "
                           "try reflexivity; exfalso; lia. Qed.\n")
        ok, _, err = chk.coq_run("today_cc_bridge", txt, timeout=300)
        chk.notes.append("regenerated check_configuration = hand model (bridging lemma): " + ("proved" if ok else "NOT proved"))
    except Declined as e:
        chk.translator["check_configuration"] = f"declined: {e}"
    for name, fn in (("aliases", c20_options.aliases), ("base", c20_options.base_proposals)):
        try:
            out[name] = fn()
            chk.translator[name] = f"translated ({len(out[name])} entries)"
        except Declined as e:
            chk.translator[name] = f"declined: {e}"
    try:
        chk.translator["shapes"] = c20_options.shapes()
    except Declined as e:
        chk.translator["shapes"] = f"declined: {e}"
    # (iv) the batch size of the validation DataLoader, regenerated from FlowModel.prep_data
    out["gen_vb"] = None
    try:
        gen_vb, expr = c20_options.val_batch_size()
        out["gen_vb"] = gen_vb
        chk.translator["prep_data.val_batch_size"] = f"translated: {expr}"
        txt = HDR + gen_vb + ("Lemma today_val_loader : P_val_loader gen_val_batch_size.\n"
                              "Proof. unfold P_val_loader. val_loader_tac gen_val_batch_size. Qed.\n")
        ok, _, err = chk.coq_run("today_val_loader", txt, timeout=300)
        chk.oblige("today: the validation batch size regenerated from FlowModel.prep_data is None or >= 1 for every "
                   "validation-set size >= 0 and batch size >= 1 (hypothesis of C20_loader_never_rejects; split ifs + lia)",
                   "today", ok, err)
    except Declined as e:
        chk.translator["prep_data.val_batch_size"] = f"declined: {e}"
    # (v) emptiness guards of one pass of FlowProposal.populate
    try:
        paths = c20_options.populate_guard_paths()
        chk.translator["populate.guard_paths"] = "translated: " + " ".join("".join(p) for p in paths)
        lev = {"S": "LShrink", "G": "LGuard", "R": "LReduce"}
        pl = cL(cL(lev[e] for e in p) for p in paths)
        txt = HDR + f"Lemma today_guards : paths_guarded {pl} = true.\nProof. vm_compute. reflexivity. Qed.\n"
        ok, _, err = chk.coq_run("today_guards", txt, timeout=120)
        chk.oblige(f"today: on every path through one pass of FlowProposal.populate's loop ({len(paths)} event lists regenerated "
                   "from the source) each reduction (max / nanmax ...) of a batch-length array comes after an emptiness guard "
                   "that follows the last shrinking step (paths_guarded; C20_reductions_guarded)", "today", ok,
                   err or "paths: " + " ".join("".join(p) for p in paths))
    except Declined as e:
        chk.translator["populate.guard_paths"] = f"declined: {e}"
    # pipeline order
    for sampler in ("std", "ins"):
        try:
            ev = c20_options.pipeline(sampler)
        except Declined as e:
            chk.translator[f"pipeline:{sampler}"] = f"declined: {e}"
            continue
        chk.translator[f"pipeline:{sampler}"] = f"translated ({len(ev)} events): " + " ".join(f"{k}:{n}" for k, n in ev)[:600]
        evl = cL(ev_lit(k, n) for k, n in ev)
        req_ok, req_known = [], []
        txt = HDR + "".join(f"Eval vm_compute in (pipeline_ok [({ev_lit(ka, na)}, {ev_lit(kb, nb)})] {evl}).\n"
                            for (ka, na, kb, nb) in REQ[sampler])
        ok, evals, err = chk.coq_run(f"pipe_{sampler}", txt, timeout=120)
        for i, (ka, na, kb, nb) in enumerate(REQ[sampler]):
            key = f"C20:late-validation:{sampler}:{na}"
            holds = ok and len(evals) == len(REQ[sampler]) and evals[i].strip() == "true"
            if holds:
                req_ok.append((ka, na, kb, nb))
            elif kb == "S" and is_known(chk, key):
                req_known.append(key)
                chk.fail(key, f"{sampler}: {na} is not called before {nb} on the construct-then-run pipeline "
                              f"(event list regenerated from the source)", {"kind": "pipeline", "sampler": sampler, "events": ev})
            else:
                req_ok.append((ka, na, kb, nb))     # goes into the today lemma and breaks it
        reql = cL(cT(ev_lit(ka, na), ev_lit(kb, nb)) for ka, na, kb, nb in req_ok)
        txt = HDR + (f"Lemma today_pipeline : pipeline_ok {reql} {evl} = true.\nProof. vm_compute. reflexivity. Qed.\n")
        ok, _, err = chk.coq_run(f"today_pipeline_{sampler}", txt, timeout=120)
        chk.oblige(f"today: {sampler} pipeline regenerated from FlowSampler.__init__ + run_*: "
                   + ", ".join(f"{na} before {nb}" for _, na, _, nb in req_ok)
                   + (f" (set aside as recorded findings: {req_known})" if req_known else ""), "today", ok, err)
        first = next(i for i, e in enumerate(ev) if e[0] == "S")
        later = sorted({n for k, n in ev[first:] if k == "V"})
        if later:
            chk.notes.append(f"{sampler}: validators that also appear after the first sampling step (path-insensitive "
                             f"inlining; guarded re-initialisation or post-sampling constructions): {later}")
    return out


def gen_validator_cases(rng, tier, alias_tbl, base_tbl):
    n = 250 if tier == "quick" else 2500
    cc = []
    for _ in range(n):
        nlive = rng.choice([1, 5, 10, 50, 60, 100])
        pick = lambda: rng.choice([0, 1, nlive - 1, nlive, nlive + 1, 2 * nlive, rng.randint(0, 3 * nlive)])
        cc.append({"nlive": nlive, "min_s": pick(), "min_r": pick(), "max_s": rng.choice([None, 0, pick(), pick()])})
    names = [a for _, al in (alias_tbl or []) for a in al] + [c for c, _ in (alias_tbl or [])] + ["nosuch", "", "RATIO"]
    sc = []
    for _ in range(n):
        k = rng.choice([1, 1, 2, 3])
        crit = [rng.choice(names) for _ in range(k)]
        crit_arg = crit[0] if (k == 1 and rng.random() < 0.6) else crit
        nt = rng.choice([1, k, k, k + 1, 2])
        tol = [rng.choice([0.0, 0.1, 5.0]) for _ in range(nt)]
        tol_arg = tol[0] if (nt == 1 and rng.random() < 0.6) else tol
        sc.append({"criterion": crit_arg, "tolerance": tol_arg, "check": rng.choice(["any", "all", "any", "all", "some", "ANY", ""])})
    keys = [k for k, _ in (base_tbl or [])]
    pc = []
    for _ in range(n // 2):
        kind = rng.choice(["none", "str", "str", "str", "subclass", "other"])
        c = {"kind": kind}
        if kind == "str":
            v = rng.choice(keys + ["nosuchproposal", "flow proposal", ""])
            v = "".join(ch.upper() if rng.random() < 0.3 else ch for ch in v)
            c["value"] = v
        pc.append(c)
    vocab = ["poolsize", "latent_prior", "fuzz", "drawsize", "truncate_log_q", "constant_volume_mode", "reparameterisations",
             "augment_dims", "generate_augment", "marginalise_augment", "n_marg", "model", "flow_config", "output",
             "no_such_option", "Poolsize", "", "plot", "kwargs", "self"]
    cpk = []
    for _ in range(n // 2):
        ks = rng.sample(vocab, rng.randint(0, 6))
        cpk.append({"cls": rng.choice(["flowproposal", "augmentedflowproposal", "gwflowproposal", "augmentedgwflowproposal"]),
                    "keys": ks, "strict": rng.random() < 0.3})
    tc = []
    for t in (None, "constant", "adaptive", "nosuch"):
        for sk in (0, 1, 2):
            for sv in ("big", 1, [0.1]):
                tc.append({"type": t, "scale_kind": sk, "scale_value": sv})
    cbs, prep = [], []
    for _ in range(n):
        bs = rng.choice([0, 1, 2, 3, 7, 10, 20, 50, 100, 1000, rng.randint(2, 300)])
        nn = rng.choice([0, 1, 2, bs, bs + 1, 2 * bs + 1, 10 * bs + 3, rng.randint(0, 400)])
        cbs.append({"n": max(0, nn), "bs": bs})
    for _ in range(n // 2):
        prep.append({"n": rng.choice([2, 3, 10, 45, 50, 100, rng.randint(2, 300)]),
                     "val_size": rng.choice([0, 0, None, 0.1, 0.3, 0.5, 0.9]),
                     "batch_size": rng.choice(["all", None, 2, 7, 50, 1000, 10000, 1, 0, "big", rng.randint(2, 200)]),
                     "use_dataloader": rng.random() < 0.6, "weights": rng.random() < 0.4})
    return {"cc": cc, "sc": sc, "pc": pc, "cpk": cpk, "tc": tc, "cbs": cbs, "prep": prep}


def validators_dynamic(chk, st):
    cases = gen_validator_cases(chk.rng, chk.tier, st["aliases"], st["base"])
    rc, out, err = chk.child("c20_child.py", ["validators"], timeout=300, inp=json.dumps(cases))
    if rc != 0:
        chk.oblige("validator child ran", "harness", False, err[-1500:])
        return
    res = json.loads(out)
    hdr = HDR + (st["gen"] or "")
    fn = "gen_check_configuration" if st["gen"] else "check_configuration"
    # check_configuration -------------------------------------------------------------------------
    lits = []
    for c, r in zip(cases["cc"], res["cc"]):
        obs = "Accept" if r.get("ok") else ("(Reject 0%nat)" if r.get("error") == "ValueError" else None)
        if obs is None:
            chk.fail("C20:validator:check_configuration-raised", f"check_configuration raised {r.get('error')}", {"kind": "validator", "case": c, "observed": r})
            continue
        lits.append(cT(cZ(c["min_s"]), cZ(c["min_r"]), cZ(c["max_s"] or 0), cZ(c["nlive"]), obs))
        chk.count("cc:" + ("accept" if r.get("ok") else "reject"))
        if not r.get("ok"):
            chk.nontriv(("cc", c))
        # direct predicate: what is accepted satisfies the C17 hypotheses
        if r.get("ok") and not (c["min_s"] <= c["nlive"] and c["min_r"] <= c["nlive"] and (not c["max_s"] or c["max_s"] > c["nlive"])):
            chk.fail("C20:validator:check_configuration-accepts", f"check_configuration accepts {c}", {"kind": "validator", "case": c})
    corr(chk, "cc", hdr, f"(chk_cc {fn})", lits, f"real check_configuration accepts/rejects = {fn}")
    # configure_stopping_criterion ------------------------------------------------------------------
    alias_tbl = st["aliases"] or [(k, v) for k, v in res["aliases"].items()]
    al_lit = cL(cT(cStr(k), sL(v)) for k, v in alias_tbl)
    lits = []
    for c, r in zip(cases["sc"], res["sc"]):
        req = [c["criterion"]] if isinstance(c["criterion"], str) else c["criterion"]
        ntol = len(c["tolerance"]) if isinstance(c["tolerance"], list) else 1
        if "error" in r:
            if r["error"] != "ValueError":
                chk.fail("C20:validator:stopping-raised", f"configure_stopping_criterion raised {r['error']}", {"kind": "validator", "case": c, "observed": r})
                continue
            b = 0 if "Unknown stopping" in r["msg"] else (1 if "must match" in r["msg"] else 2)
            obs = f"(SCerr {cN(b)})"
            chk.nontriv(("sc", json.dumps(c)))
        else:
            obs = f"(SCok {sL(r['criteria'])} {cB(r['stop_any'])})"
            if len(r["criteria"]) != r["n_tol"]:
                chk.fail("C20:validator:stopping-lengths", "criteria and tolerances of different length accepted", {"kind": "validator", "case": c, "observed": r})
        chk.count("sc:" + ("error" if "error" in r else "ok"))
        lits.append(cT(sL(req), cN(ntol), cStr(c["check"]), obs))
    corr(chk, "sc", hdr, f"(chk_sc {al_lit})", lits, "real configure_stopping_criterion = model configure_stopping over the regenerated alias table")
    # get_flow_proposal_class ----------------------------------------------------------------------
    base_tbl = st["base"]
    if base_tbl:
        base_lit = cL(cT(cStr(k), cStr(v)) for k, v in base_tbl)
        lits = []
        for c, r in zip(cases["pc"], res["pc"]):
            if c["kind"] == "none":
                i = "PCnone"
            elif c["kind"] == "str":
                i = f"(PCstr {cStr(c['value'].lower())})"
            elif c["kind"] == "subclass":
                i = f"(PCsubclass {cStr('Sub')})"
            else:
                i = "PCother"
            if "cls" in r:
                obs = f"(PCclass {cStr(r['cls'])})"
            elif r["error"] == "ValueError":
                obs = "PCvalue_error"
                chk.nontriv(("pc", json.dumps(c)))
            elif r["error"] == "TypeError":
                obs = "PCtype_error"
            else:
                chk.fail("C20:validator:proposal-class-raised", f"get_flow_proposal_class raised {r['error']}", {"kind": "validator", "case": c, "observed": r})
                continue
            chk.count("pc:" + c["kind"])
            lits.append(cT(i, obs))
        corr(chk, "pc", hdr, f"(chk_pc {base_lit} {sL(res['external'])})", lits,
             "real get_flow_proposal_class = model over the regenerated class table")
    # check_proposal_kwargs ------------------------------------------------------------------------
    lits = []
    for c, r in zip(cases["cpk"], res["cpk"]):
        if "error" in r:
            if r["error"] != "RuntimeError":
                chk.fail("C20:validator:kwargs-raised", f"check_proposal_kwargs raised {r['error']}", {"kind": "validator", "case": c, "observed": r})
                continue
            obs = f"(CPKerr {cN(0 if 'unknown keys' in r['msg'] else 1)})"
            chk.nontriv(("cpk", json.dumps(c)))
        else:
            obs = f"(CPKok {sL(r['kept'])})"
            if any(k not in r["class_keys"] for k in r["kept"]):
                chk.fail("C20:validator:kwargs-kept-unknown", "check_proposal_kwargs lets through a keyword the class does not take",
                         {"kind": "validator", "case": c, "observed": r})
        chk.count("cpk:" + ("error" if "error" in r else "ok"))
        lits.append(cT(sL(r["class_keys"]), sL(r["allowed"]), sL(c["keys"]), cB(c["strict"]), obs))
    corr(chk, "cpk", hdr, "chk_cpk", lits, "real check_proposal_kwargs = model over the real signature key sets")
    # update_training_config -----------------------------------------------------------------------
    lits = []
    for c, r in zip(cases["tc"], res["tc"]):
        if "error" in r:
            obs = f"(TCerr {cN(0 if r['error'] == 'RuntimeError' else 1)})"
            if r["error"] not in ("RuntimeError", "TypeError"):
                chk.fail("C20:validator:training-raised", f"update_training_config raised {r['error']}", {"kind": "validator", "case": c, "observed": r})
                continue
        else:
            obs = f"(TCok {cB(r['noise_type_set'])})"
        lits.append(cT(cB(c["type"] is not None), cN(c["scale_kind"]), obs))
    corr(chk, "tc", hdr, "chk_tc", lits, "real update_training_config (noise options) = model")
    # check_batch_size ------------------------------------------------------------------------------
    lits = []
    for c, r in zip(cases["cbs"], res.get("cbs", [])):
        lits.append(cT(cZ(c["n"]), cZ(c["bs"]), "None" if "error" in r else f"(Some {cZ(r['b'])})"))
        chk.count("cbs:" + ("raised" if "error" in r else ("adjusted" if r["b"] != c["bs"] else "kept")))
        if "error" not in r and r["b"] != c["bs"]:
            chk.nontriv(("cbs", c["n"], c["bs"]))
        if "error" not in r and c["bs"] >= 1 and r["b"] < 1:
            chk.fail("C20:validator:check_batch_size-nonpositive", f"check_batch_size({c}) returned {r['b']}", {"kind": "validator", "case": c, "observed": r})
    corr(chk, "cbs", hdr, "chk_cbs", lits, "real FlowModel.check_batch_size = model check_batch_size")
    # prep_data: batch sizes that reach the DataLoaders -----------------------------------------------
    vb_hdr = hdr + (st.get("gen_vb") or "")
    vb_fn = "gen_val_batch_size" if st.get("gen_vb") else "val_batch_size"
    lits_dl, lits_t = [], []
    for c, r in zip(cases["prep"], res.get("prep", [])):
        vs = c["val_size"] or 0
        nt = int((1 - vs) * c["n"])
        nv = c["n"] - nt
        b = c["batch_size"]
        spec = "BSall" if b in ("all", None) else (f"(BSint {cZ(b)})" if isinstance(b, int) and not isinstance(b, bool) else "BSother")
        dl = c["use_dataloader"] or c["weights"]
        if nt == 0:
            chk.count("prep:empty-training-set(skipped)")      # torch refuses to shuffle an empty dataset: outside the model
            continue
        chk.count("prep:" + ("raised" if "error" in r else "ok") + (":dataloader" if dl else ":tensor") + (":no-validation" if nv == 0 else ""))
        valid = nt >= 2 and spec != "BSother" and (b in ("all", None) or b >= 2)
        if "error" in r:
            obs = "None"
            if nv == 0 or not valid:
                chk.nontriv(("prep", json.dumps(c)))
            # direct predicate: a configuration inside the documented domain must not fail at the loaders
            if valid and (r.get("where") or [""])[-1].endswith(":prep_data"):
                chk.fail(f"C20:prep_data-raised:{r['error']}:empty-validation-set={nv == 0}:dataloader={dl}",
                         f"FlowModel.prep_data raised {r['error']} ({r.get('msg')}) for n={c['n']} val_size={c['val_size']} "
                         f"batch_size={c['batch_size']} dataloader={dl}: the training data of an accepted configuration cannot be loaded",
                         {"kind": "validator", "case": c, "observed": r})
        elif r["dataloader"]:
            obs = f"(Some ({cZ(r['train_bs'])}, {'None' if r['val_bs'] is None else '(Some ' + cZ(r['val_bs']) + ')'}))"
            if r["train_bs"] is None or r["train_bs"] < 1 or (r["val_bs"] is not None and r["val_bs"] < 1):
                chk.fail("C20:prep_data-nonpositive-batch", f"prep_data built a loader with batch sizes {r['train_bs']}, {r['val_bs']}",
                         {"kind": "validator", "case": c, "observed": r})
        else:
            obs = f"(Some ({cZ(r['b'])}, None))"
        (lits_dl if dl else lits_t).append(cT(cZ(nt), cZ(nv), spec, obs))
    corr(chk, "prep_dl", vb_hdr, f"(chk_loaders {vb_fn})", lits_dl,
         f"batch sizes of the two DataLoaders built by the real FlowModel.prep_data = model data_loaders {vb_fn}",
         ty="Z * Z * bs_spec * option (Z * option Z)")
    corr(chk, "prep_t", hdr, "(chk_loaders (fun (_ _ : Z) => @None Z))", lits_t,
         "batch size returned by the real FlowModel.prep_data (tensor path) = model", ty="Z * Z * bs_spec * option (Z * option Z)")
    chk.evaluations += sum(len(v) for v in cases.values())
    # which documented keyword arguments (nessai.utils.settings.get_all_kwargs) the covering array touches
    doc = res.get("documented") or {}
    for sampler, opts, inval in (("std", STD_OPTIONS, STD_INVALID), ("ins", INS_OPTIONS, INS_INVALID)):
        if sampler not in doc:
            continue
        used = set(base_kwargs(sampler, chk.tier))
        for _, kw, rkw, *_ in list(opts) + [(a, b, c, None) for a, b, c in inval]:
            used |= set(kw) | set(rkw)
        missing = [k for k in doc[sampler] if k not in used]
        chk.count(f"documented-kwargs:{sampler}", len(doc[sampler]))
        chk.count(f"documented-kwargs-not-varied:{sampler}", len(missing))
        chk.notes.append(f"{sampler}: documented keyword arguments not varied by the covering array (I/O, logging, "
                         f"checkpointing, plotting switches, deprecated aliases): {missing}")


def corr(chk, name, hdr, fn, lits, what, ty=None):
    bad_all, ok_all, errs = [], True, ""
    for k in range(0, len(lits), 500):
        txt = hdr + f"Definition cs{' : list (' + ty + ')' if ty else ''} := {cL(lits[k:k + 500])}.\nEval vm_compute in (mism {fn} cs).\n"
        ok, evals, err = chk.coq_run(f"{name}_{k}", txt, timeout=600)
        if not ok or len(evals) != 1:
            ok_all, errs = False, err
            break
        bad_all += [k + i for i in common.parse_nat_list(evals[0])]
    chk.oblige(f"correspondence: {what} ({len(lits)} cases)", "correspondence", ok_all and not bad_all,
               errs or "mismatching: " + "; ".join(lits[i] for i in bad_all[:3]))
    chk.traces += len(lits)


# =====================================================================================================
# tie B: covering array
# =====================================================================================================
def run_jobs(chk, jobs, timeout):
    outdir = os.path.join(chk.build, "runs")
    inp = json.dumps({"outdir": outdir, "parallel": int(os.environ.get("C20_PARALLEL", "14")), "jobs": jobs})
    rc, out, err = chk.child("c20_child.py", ["runs"], timeout=timeout, inp=inp)
    if rc != 0:
        return None, err[-2000:]
    try:
        return json.loads(out)["results"], ""
    except Exception as e:
        return None, f"{e}: {out[-500:]} {err[-500:]}"


def alias_difference(ref, r):
    """None when the run with an alias spelling behaves like the reference spelling (same seed, same
    tolerance); else a description"""
    if ref.get("status") != r.get("status") or (ref.get("status") == "raised" and ref.get("phase") != r.get("phase")):
        return (f"reference: {ref.get('status')} in phase {ref.get('phase')}; alias: {r.get('status')} in phase {r.get('phase')} "
                f"({r.get('exc_type')}: {(r.get('exc_msg') or '')[:100]})")
    if ref.get("status") != "completed":
        return None
    a, b = ref.get("result") or {}, r.get("result") or {}
    diffs = []
    for f in ("iteration", "n_nested", "n_training", "n_post"):
        if a.get(f) != b.get(f):
            diffs.append(f"{f}: {a.get(f)} vs {b.get(f)}")
    la, lb = a.get("logZ"), b.get("logZ")
    if la is None or lb is None or not (abs(la - lb) <= 1e-9 * max(1.0, abs(la))):
        diffs.append(f"logZ: {la} vs {lb}")
    if ref.get("n_like") != r.get("n_like"):
        diffs.append(f"likelihood evaluations: {ref.get('n_like')} vs {r.get('n_like')}")
    return "; ".join(diffs) or None


def check_aliases(chk, jobs, results):
    byref = {}
    for job, r in zip(jobs, results):
        al = job.get("alias")
        if al and al["spelling"] == al["reference"]:
            byref[(al["criterion"], al["form"])] = (job, r)
    for job, r in zip(jobs, results):
        al = job.get("alias")
        if not al or al["spelling"] == al["reference"]:
            continue
        ref = byref.get((al["criterion"], al["form"]))
        if ref is None:
            continue
        chk.count("alias-runs-compared-with-canonical-spelling")
        d = alias_difference(ref[1], r)
        if d:
            small = lambda x: {k: v for k, v in x.items() if k not in ("traces", "attrs", "stack")}
            chk.fail(f"C20:alias-differs:ins:{al['criterion']}:{al['spelling']}",
                     f"ins run with stopping_criterion spelled `{al['spelling']}` ({al['form']}) does not behave like the same run "
                     f"spelled `{al['reference']}` (same seed, same tolerance): {d}",
                     {"kind": "alias_pair", "reference": ref[0], "job": job, "observed": {"reference": small(ref[1]), "alias": small(r)}})


def lres_lit(k, a, p):
    return f"(Done {cN(k)} {cZ(a)} {cZ(p)})"


def start_array(chk):
    """the bounded runs start first (they need only the two regenerated tables) and go on in a thread while the Coq
    obligations are compiled"""
    import threading
    import c20_options
    from pyast import Declined
    tables = {}
    for name, fn in (("aliases", c20_options.aliases), ("registry", c20_options.reparam_registry)):
        try:
            tables[name] = fn()
        except Declined as e:
            tables[name] = None
            chk.translator[name + "(for the array)"] = f"declined: {e}"
    chk.translator["reparam_registry"] = (f"translated ({len(tables['registry'])} names)" if tables["registry"] else "declined")
    jobs = build_jobs(chk, tables["aliases"], tables["registry"])
    box = {"jobs": jobs, "t0": time.time()}

    def work():
        box["results"], box["err"] = run_jobs(chk, jobs, timeout=1500 if chk.tier == "quick" else 5400)
        box["t1"] = time.time()

    box["thread"] = threading.Thread(target=work, daemon=True)
    box["thread"].start()
    return box


def covering_array(chk, static, box):
    box["thread"].join()
    jobs, results, err = box["jobs"], box.get("results"), box.get("err")
    t0 = time.time() - (box.get("t1", time.time()) - box["t0"])
    if results is None:
        chk.oblige("covering-array child ran", "harness", False, err)
        return
    chk.notes.append(f"covering array: {len(jobs)} bounded runs in {time.time() - t0:.0f}s")
    check_aliases(chk, jobs, results)
    pop_lits, ins_lits = [], []
    runtime_attrs = {}
    lines = next((r.get("loop_lines") for r in results if r.get("loop_lines")), {}) or {}
    chk.translator["loop_tracer"] = {k: v for k, v in lines.items()}
    for k, v in lines.items():
        if k.endswith("_declined"):
            chk.notes.append(f"loop tracer declined ({k}: {v}): no trace correspondence for that loop in this run; the bounded runs decide alone")
    confirmed = set()
    for job, r in zip(jobs, results):
        chk.evaluations += 1
        st = r.get("status")
        chk.count(f"{job['sampler']}:{job['stream']}:{st}" + (f":{r.get('phase')}" if st == "raised" else ""))
        if st == "harness-error":
            chk.oblige(f"run {job['label']} executed", "harness", False, r.get("exc_msg", ""))
            continue
        if st == "raised" and r.get("phase") in UP_FRONT and job["stream"] != "invalid":
            chk.notes.append(f"rejected up front: {job['sampler']} {job['label']}: {r.get('exc_type')}: {r.get('exc_msg', '')[:90]}")
        if st == "cap" and failure_key(job, r) is None:
            chk.count("accumulate-run-cut-by-harness-cap(bounded by the max_samples guard)")
            chk.notes.append(f"cut by the harness cap but bounded by the max_samples guard (theorem C20_populate_accumulate_bounded): "
                             f"{job['sampler']} {job['label']}: {(r.get('loop_stats') or {}).get('interrupted_traces')}")
        if st == "completed" and (r.get("result") or {}).get("logZ_error") != (r.get("result") or {}).get("logZ_error"):
            chk.count("run-with-NaN-logZ_error")
        if st == "completed" and job["stream"] == "invalid":
            chk.notes.append(f"invalid value accepted silently: {job['sampler']} {job['label']}")
        if job["label"] != "<base>":
            chk.nontriv((job["sampler"], job["label"], job["seed"]))
        fk = failure_key(job, r)
        if job["label"] == "<base>" and st != "completed" and fk is None:
            fk = (f"C20:base-config:{job['sampler']}", f"the base configuration of the {job['sampler']} sampler did not complete: {r.get('exc_type')} {r.get('exc_msg')}")
        if fk:
            key, what = fk
            confirmed.add(key)
            small = {k: v for k, v in r.items() if k not in ("traces", "attrs", "stack")}
            chk.fail(key, what, {"kind": "run", "job": job, "expect_key": key, "observed": small,
                                 "stack": r.get("stack", "")[-1500:]})
        ls = r.get("loop_stats") or {}
        chk.count("loop:populate_calls", ls.get("populate_calls", 0))
        chk.count("loop:ins_draw_calls", ls.get("ins_draw_calls", 0))
        chk.count("loop:passes", ls.get("passes", 0))
        chk.count("loop:passes-without-progress", ls.get("stalled_passes", 0))
        chk.count("loop:passes-with-every-draw-discarded", ls.get("empty_passes", 0))
        chk.distribution["loop:max_passes_in_one_call"] = max(chk.distribution.get("loop:max_passes_in_one_call", 0), ls.get("max_passes", 0))
        for t in r.get("traces", []):
            if not t.get("complete"):
                continue
            if t["kind"] == "populate":
                bs = cL(f"(bt {cB(b['empty'])} {cB(b['try'])} {cZ(b['acc'])})" for b in t["batches"])
                pop_lits.append(cT(cB(t["accumulate"]), cZ(t["N"]), cZ(t["drawsize"]), cZ(t["max_samples"]), bs,
                                   lres_lit(t["k"], t["n_accepted"], t["n_proposed"])))
                # monitored hypothesis + direct bound of the theorem
                if not t["accumulate"] and all((not b["empty"]) and b["acc"] >= 1 for b in t["batches"]):
                    chk.count("loop:populate-calls-with-progress-in-every-pass")
                    if t["k"] > t["N"] or t["n_proposed"] > t["N"] * t["drawsize"]:
                        chk.fail("C20:populate-bound", f"populate used {t['k']} passes / {t['n_proposed']} draws for N={t['N']} although every pass accepted a point",
                                 {"kind": "run", "job": job, "trace": t})
            else:
                bs = cL(cZ(b["acc"]) for b in t["batches"])
                ins_lits.append(cT(cZ(t["n"]), cZ(t["n_draw"]), bs, lres_lit(t["k"], t["n_accepted"], t["n_proposed"])))
        for cls, names in (r.get("attrs") or {}).items():
            runtime_attrs.setdefault(cls, set()).update(names)
        if len(chk.samples) < 6 and job["label"] != "<base>":
            chk.sample({"job": {k: job[k] for k in ("sampler", "label", "stream")}, "status": st, "phase": r.get("phase"),
                        "result": r.get("result"), "loop_stats": ls, "n_like": r.get("n_like"), "draws": r.get("draws")})
    corr(chk, "populate", HDR, "chk_populate", pop_lits[:3000],
         "FlowProposal.populate loop traced in real runs (passes, n_accepted, n_proposed at exit) = model populate on the recorded batch stream")
    corr(chk, "ins_draw", HDR, "chk_ins_draw", ins_lits[:3000],
         "ImportanceFlowProposal.draw loop traced in real runs = model ins_draw on the recorded batch stream")
    # recorded static defects that no run of this tier reproduced
    if static:
        for key, site in static["static_keys"].items():
            chk.fail(key, f"call/attribute table: {json.dumps(site)[:300]}", {"kind": "site", "site": site})
            if key not in confirmed:
                chk.notes.append(f"recorded static entry {key} was not itself reproduced by a run of this tier "
                                 "(masked by an earlier failure of the same option, see its replay)")
        # run-time attributes the translator does not know about would be a source of false alarms
        tb = static["tb"]
        cls = {c["name"]: c for c in tb.classes}
        for cname, names in runtime_attrs.items():
            if cname not in cls:
                continue
            bound = set(tb.ext_assigned)
            for f in cls[cname]["family"]:
                bound |= set(cls[f]["assigned"])
            missing = sorted(n for n in names if n not in bound)
            chk.oracle_validations += len(names)
            if missing:
                chk.notes.append(f"run-time attributes of {cname} unknown to the translator: {missing}")
                chk.count("attr-table:runtime-names-unknown", len(missing))


# =====================================================================================================
def run(chk):
    chk.rule = ("covering array over the documented options of both samplers on 2-parameter (and, thorough, 3-parameter) "
                "Gaussian models: the base configuration, every option value on its own, "
                "every spelling of every stopping criterion from the regenerated alias table (quick: canonical + one alias each), all pairs of values over an 11/12-axis subset (thorough), a separate stream of invalid values; "
                "one bounded child per configuration (wall-clock, proposal-draw, likelihood-evaluation and "
                "no-progress caps); non-trivial = any configuration other than the base one, distinct by "
                "(sampler, option label, seed); validator cases are generated around the decision boundaries")
    chk.assumptions += [
        "oracle: per-pass outcomes of the population loops (accepted counts, empty batches) - theorems are proved for every stream; "
        "the progress hypothesis of C20_populate_terminates is monitored in every real run (sys.monitoring on the loop head)",
        "call table: calls are resolved BY NAME inside nessai; unresolved calls (numpy, torch, dynamically bound names) and reads on classes "
        "with an external attribute-bearing base are not modelled; `bound somewhere in the family` is necessary, not sufficient, for a read to succeed",
        "names assigned through a non-self receiver anywhere in the package (obj.attr = ...) count as bound for every class",
        "phase of a failure is observed by wrapping populate_live_points (sampling starts) and finalise (sampling finished) of both samplers",
    ]
    box = start_array(chk)
    chk.static_props(["C20"], ["C20_run"])
    static = call_table(chk)
    if static:
        validate_sigs(chk, static["tb"])
    st = validators_static(chk)
    validators_dynamic(chk, st)
    covering_array(chk, static, box)


# =====================================================================================================
def replay(data):
    rp = data["replay"]
    kind = rp.get("kind")
    rc_out = 0
    if kind in ("run", "finding") and rp.get("job"):
        job = dict(rp["job"])
        outdir = f"/tmp/c20_replay_{os.getpid()}"
        inp = json.dumps({"outdir": outdir, "parallel": 1, "jobs": [job]})
        r = subprocess.run(["timeout", "-k", "5", str(4 * job.get("wall", 150) + 60), common.PY,
                            os.path.join(common.VERIF, "harness", "c20_child.py"), "runs"],
                           input=inp, capture_output=True, text=True, env=common.child_env())
        subprocess.run(["rm", "-rf", outdir])
        try:
            res = json.loads(r.stdout)["results"][0]
        except Exception:
            print("replay child failed:", r.stderr[-800:])
            return 1
        fk = failure_key(job, res)
        small = {k: v for k, v in res.items() if k not in ("traces", "attrs")}
        print(json.dumps({"job": {k: job[k] for k in ("sampler", "label", "kwargs", "run_kwargs")}, "observed": small}, indent=1)[:4000])
        if fk:
            print(f"phase of the failure: {res.get('phase')} after {res.get('n_like')} likelihood evaluations "
                  f"({'BEFORE' if res.get('phase') in UP_FRONT else 'AFTER'} sampling started)")
            print(f"VIOLATION property={PID} replay=(replayed) {fk[0]}: {fk[1]}")
            rc_out = 1
    if kind == "alias_pair":
        outdir = f"/tmp/c20_replay_{os.getpid()}"
        jobs = [dict(rp["reference"], id="ref"), dict(rp["job"], id="alias")]
        inp = json.dumps({"outdir": outdir, "parallel": 2, "jobs": jobs})
        r = subprocess.run(["timeout", "-k", "5", "400", common.PY, os.path.join(common.VERIF, "harness", "c20_child.py"), "runs"],
                           input=inp, capture_output=True, text=True, env=common.child_env())
        subprocess.run(["rm", "-rf", outdir])
        try:
            res = json.loads(r.stdout)["results"]
        except Exception:
            print("replay child failed:", r.stderr[-800:])
            return 1
        for j, x in zip(jobs, res):
            print(j["label"], "->", json.dumps({k: x.get(k) for k in ("status", "phase", "exc_type", "exc_msg", "n_like", "result")})[:600])
        d = alias_difference(res[0], res[1])
        fk = failure_key(jobs[1], res[1])
        if d or fk:
            print(f"VIOLATION property={PID} replay=(replayed) alias `{jobs[1]['label']}` vs `{jobs[0]['label']}`: {d or fk[1]}")
            return 1
        return 0
    if rp.get("site"):
        import c20_calls
        tb = c20_calls.build()
        site = rp["site"]
        still = False
        cls = {c["name"]: c for c in tb.classes}
        if site["kind"] == "read":
            fam = cls.get(site["cls"], {}).get("family", [])
            bound = site["attr"] in tb.ext_assigned or any(site["attr"] in cls[f]["assigned"] for f in fam)
            reads = [r for r in tb.reads if r["cls"] == site["cls"] and r["attr"] == site["attr"]]
            still = bool(reads) and not bound
        else:
            for c in tb.calls:
                if c["caller"] == site["caller"] and c["text"] == site["text"]:
                    for i in c["callee_ids"]:
                        s = tb.sigs[i]
                        if any(k not in s.pos[s.nposonly:] + s.kwonly and not s.varkw for k in c["kws"]):
                            still = True
        print(json.dumps({"site": site, "still_rejected_by_the_rule": still}, indent=1))
        if still:
            print(f"VIOLATION property={PID} replay=(replayed) static entry still present: {site['keys']}")
            rc_out = 1
    if kind == "pipeline":
        import c20_options
        ev = c20_options.pipeline(rp["sampler"])
        first = next(i for i, e in enumerate(ev) if e[0] == "S")
        late = [n for k, n in ev[first:] if k == "V" and not any(e == ("V", n) for e in ev[:first])]
        print(json.dumps({"events": ev, "validators first met after sampling started": late}, indent=1))
        if late:
            print(f"VIOLATION property={PID} replay=(replayed) validators after the first sampling step: {late}")
            rc_out = 1
    if kind == "validator":
        print(json.dumps(rp, indent=1)[:2000])
        print("validator cases are re-generated by ./check C20; the recorded case is shown above")
    return rc_out
