"""Runs the real INS threshold code on generated live sets; JSON in, JSON out."""
import functools
import json
import sys
import types

import numpy as np

import nessai.samplers.importancesampler as M
from nessai.samplers.importancesampler import ImportanceNestedSampler as INS
from nessai.utils.stats import weighted_quantile

DT = np.dtype([("x", "f8"), ("y", "f8"), ("logP", "f8"), ("logL", "f8"), ("it", "i4"),
               ("logW", "f8"), ("logQ", "f8"), ("logU", "f8")])


def mkself(c):
    o = types.SimpleNamespace(plot=False, _plot_level_cdf=False, min_samples=c["min_s"], min_remove=c["min_r"],
                              max_samples=c["max_s"], draw_constant=c["dc"], nlive=c["nlive"])
    o.determine_threshold_quantile = functools.partial(INS.determine_threshold_quantile, o)
    o.determine_threshold_entropy = functools.partial(INS.determine_threshold_entropy, o)
    return o


def samples(logL, logW):
    a = np.zeros(len(logL), dtype=DT)
    a["logL"] = logL
    a["logW"] = logW
    a["x"] = np.arange(len(logL))
    return a


class ArgmaxSpy:
    """Records the mask handed to np.argmax inside the threshold methods."""

    def __init__(self):
        self.calls = []
        self.real = np.argmax

    def __call__(self, a, *args, **kw):
        r = self.real(a, *args, **kw)
        arr = np.asarray(a)
        if arr.dtype == bool and arr.ndim == 1:
            self.calls.append(([bool(v) for v in arr], int(r)))
        return r


def err(e):
    return type(e).__name__


def run_thr(c):
    o = mkself(c)
    out = {}
    try:
        INS.check_configuration(o)
    except ValueError:
        return {"rejected": True}
    s = samples(c["logL"], c["logW"])
    s_before = s.tobytes()
    spy = ArgmaxSpy()
    M.np.argmax = spy
    try:
        with np.errstate(all="ignore"):
            try:
                if c["method"] == "quantile":
                    out["n"] = int(o.determine_threshold_quantile(s, **c["kwargs"]))
                else:
                    out["n"] = int(o.determine_threshold_entropy(s, **c["kwargs"]))
            except Exception as e:
                return {"method_error": err(e)}
            out["masks"] = list(spy.calls)
            try:
                thr = INS.determine_log_likelihood_threshold(o, s, method=c["method"], **c["kwargs"])
                out["thr"] = float(thr)
                out["thr_is_int0"] = isinstance(thr, int) and thr == 0
            except Exception as e:
                out["error"] = err(e)
    finally:
        M.np.argmax = spy.real
    out["input_unchanged"] = bool(s.tobytes() == s_before)
    return out


def run_ntrain(c):
    s = samples(c["logL"], np.zeros(len(c["logL"])))
    trained = {}

    def train(x, plot=None, weights=None):
        trained["n"] = len(x)

    o = types.SimpleNamespace(
        training_samples=types.SimpleNamespace(samples=s, log_q=np.zeros((len(s), 2))),
        log_likelihood_threshold=c["thr"], min_samples=c["min_s"], replace_all=False, weighted_kl=False,
        plot_training_data=False, proposal=types.SimpleNamespace(train=train), iid_samples=None, draw_iid_live=False,
        n_update=None, iteration=1, max_samples=None, nlive=len(s), draw_constant=True,
        training_time=__import__("datetime").timedelta())
    try:
        with np.errstate(all="ignore"):
            INS.add_new_proposal(o)
        return {"n": trained["n"]}
    except Exception as e:
        return {"error": err(e)}


def run_wq(c):
    try:
        with np.errstate(all="ignore"):
            sh = float(c.get("shift", 0.0))
            r = weighted_quantile(np.array(c["values"]), np.array(c["qs"]), log_weights=np.array(c["logw"]) + sh,
                                  values_sorted=True)
            out = {"q": [float(v) for v in np.ravel(r)]}
            if sh != 0.0:
                r0 = weighted_quantile(np.array(c["values"]), np.array(c["qs"]), log_weights=np.array(c["logw"]),
                                       values_sorted=True)
                out["q0"] = [float(v) for v in np.ravel(r0)]
            if c.get("perm"):
                # the same data handed over in another order, not declared sorted: same answer
                pm = np.array(c["perm"])
                rp = weighted_quantile(np.array(c["values"])[pm], np.array(c["qs"]), log_weights=(np.array(c["logw"]) + sh)[pm])
                out["qp"] = [float(v) for v in np.ravel(rp)]
            if c.get("kind") == "equal":
                ru = weighted_quantile(np.array(c["values"]), np.array(c["qs"]), values_sorted=True)
                out["qu"] = [float(v) for v in np.ravel(ru)]
        return out
    except Exception as e:
        return {"error": err(e)}


def run_real_ins(c):
    """A short real importance-sampler run; records the size of every training set and every threshold."""
    import torch
    torch.set_num_threads(1)
    from nessai.flowsampler import FlowSampler
    from nessai.model import Model
    from nessai.utils.logging import setup_logger
    setup_logger(output=None, log_level="CRITICAL")

    class G(Model):
        def __init__(self):
            self.names = ["x", "y"]
            self.bounds = {"x": [-5.0, 5.0], "y": [-5.0, 5.0]}

        def log_prior(self, x):
            return np.log(self.in_bounds(x), dtype=float) - np.log(100.0)

        def log_likelihood(self, x):
            return -0.5 * (x["x"] ** 2 + x["y"] ** 2)

        def to_unit_hypercube(self, x):
            y = x.copy()
            for n in self.names:
                y[n] = (x[n] + 5.0) / 10.0
            return y

        def from_unit_hypercube(self, x):
            y = x.copy()
            for n in self.names:
                y[n] = 10.0 * x[n] - 5.0
            return y

    rec = {"train_sizes": [], "thresholds": [], "live_has_thr": []}
    fs = FlowSampler(G(), output=c["output"], importance_nested_sampler=True, nlive=c["nlive"],
                     min_samples=c["min_s"], min_remove=c["min_r"], max_iteration=c["max_it"], plot=False,
                     resume=False, seed=c["seed"], checkpointing=False, signal_handling=False,
                     draw_constant=c["dc"], max_samples=c["max_s"], strict_threshold=c["strict"],
                     flow_config={"n_blocks": 2, "n_neurons": 8}, training_config={"max_epochs": 20, "patience": 5})
    ns = fs.ns
    # wrap at class level (instance attributes would be pickled by the final checkpoint)
    pcls = type(ns.proposal)
    real_train = pcls.train

    def train(self, x, **kw):
        rec["train_sizes"].append(int(len(x)))
        return real_train(self, x, **kw)

    pcls.train = train
    real_det = INS.determine_log_likelihood_threshold

    def det(self, samples, **kw):
        t = real_det(self, samples, **kw)
        rec["thresholds"].append(float(t))
        rec["live_has_thr"].append(bool(np.any(samples["logL"] == t)))
        return t

    INS.determine_log_likelihood_threshold = det
    fs.run(plot=False, save=False)
    rec["iterations"] = int(ns.iteration)
    return rec


def main():
    import logging
    logging.disable(logging.CRITICAL)
    job = json.load(sys.stdin)
    out = {"thr": [run_thr(c) for c in job.get("thr", [])],
           "ntrain": [run_ntrain(c) for c in job.get("ntrain", [])],
           "wq": [run_wq(c) for c in job.get("wq", [])]}
    if job.get("real"):
        try:
            out["real"] = run_real_ins(job["real"])
        except Exception as e:
            import traceback
            out["real"] = {"error": err(e), "trace": traceback.format_exc()[-1500:]}
    json.dump(out, sys.stdout)


if __name__ == "__main__":
    main()
