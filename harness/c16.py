"""C16: posterior resampling follows the posterior weights."""
import json
import math
import os
import re
import subprocess
import sys
from concurrent.futures import ThreadPoolExecutor

import common
from common import cB, cL, cN, cT, float_dyadic

PID = "C16"
INF = float("inf")
U53 = 2.0 ** -53
K_ESS = 256.0         # mirrors K_ess in coq/Model/C16_Resample.v (direct predicate only)
STATE_LABEL = "state ESS = Kish's ESS of the state's own log_posterior_weights (every state class, with and without live points)"
KNOWN_STATE_CLASSES = ["_INSIntegralState", "_NSIntegralState"]
ONE_M = 1.0 - 2.0 ** -53      # largest float below 1: the largest value np.random.rand can return is 1 - 2^-53


# ---------------------------------------------------------------------------
# generators
# ---------------------------------------------------------------------------
def grid(rng, lo, hi, bits):
    s = 2 ** bits
    return rng.randint(int(lo * s), int(hi * s)) / s


def gen_lw(rng, n, kind):
    if kind == "gauss":
        lw = [-0.5 * rng.gauss(0, 1) ** 2 * rng.choice([1, 10, 100]) for _ in range(n)]
    elif kind == "alphabet":          # ties everywhere, also at the maximum
        lw = [rng.choice([-3.0, -1.5, 0.0, 0.0, -0.25]) for _ in range(n)]
    elif kind == "equal":             # ESS = n exactly: the int() boundary
        lw = [rng.choice([0.0, -2.5, 7.0])] * n
    elif kind == "range":             # dynamic range 1e-300
        lw = [rng.uniform(-690.0, 0.0) for _ in range(n)]
    elif kind == "beyond":            # ratios below the smallest float: exp(lw - max) underflows
        lw = [rng.choice([0.0, -800.0, -5000.0, rng.uniform(-2000, 0)]) for _ in range(n)]
    elif kind == "grid":
        lw = [grid(rng, -40, 5, 16) for _ in range(n)]
    elif kind == "normalised":
        raw = [rng.uniform(-20.0, 0.0) for _ in range(n)]
        m = max(raw)
        s = m + math.log(sum(math.exp(v - m) for v in raw))
        lw = [v - s for v in raw]
    else:
        raise ValueError(kind)
    return lw


def with_ninf(rng, lw, frac):
    lw = list(lw)
    k = int(frac * len(lw))
    for i in rng.sample(range(len(lw)), min(k, len(lw) - 1)):
        lw[i] = -INF
    return lw


def gen_us(rng, lw):
    """scripted uniforms: boundary values are frequent"""
    fin = [v for v in lw if v != -INF]
    mx = max(fin)
    us = []
    for v in lw:
        r = rng.random()
        q = math.exp(v - mx) if v != -INF else 0.0
        if r < 0.12:
            u = 0.0
        elif r < 0.2:
            u = 5e-324
        elif r < 0.32:
            u = ONE_M
        elif r < 0.42 and 0.0 < q < 1.0:
            u = q                                   # on the boundary (either decision is within rounding)
        elif r < 0.5 and 0.0 < q < 1.0:
            u = math.nextafter(q, 0.0)
        elif r < 0.58 and 0.0 < q < 1.0:
            u = min(math.nextafter(q, 1.0), ONE_M)
        elif r < 0.66 and 0.0 < q:
            u = min(q * (1 + rng.choice([-1, 1]) * 1e-9), ONE_M)
        elif r < 0.72:
            u = 0.5
        else:
            u = rng.random()
        us.append(float(u))
    return us


def gen_cases(chk):
    rng = chk.rng
    quick = chk.tier == "quick"
    cases = []

    def add(**c):
        cases.append(c)
        return len(cases) - 1

    kinds = ["gauss", "alphabet", "equal", "range", "beyond", "grid", "normalised"]
    lengths = [1, 2, 3, 5, 8, 20, 60, 200] if quick else [1, 2, 3, 5, 8, 20, 60, 200, 200, 600, 2000]
    for n in lengths:
        for kind in kinds:
            for off in ([0.0, rng.choice([1e5, -1e5])] if kind != "normalised" else [0.0]):
                if quick and n >= 60 and rng.random() < 0.5:
                    continue
                lw = [v + off for v in gen_lw(rng, n, kind)]
                lw = with_ninf(rng, lw, rng.choice([0.0, 0.0, 0.3, 0.9]))
                tag = f"{kind}/off={off:g}"
                add(kind="ess", lw=lw, tag=tag, as_list=rng.random() < 0.3)
                add(kind="rej", lw=lw, us=gen_us(rng, lw), tag=tag, n=rng.choice([None, None, 7]),
                    fields=rng.choice(["std", "ins"]))
                nreq = rng.choice([None, None, 0, 1, n, 3 * n + 1])
                add(kind="mult", lw=lw, n=nreq, choice_idx=[rng.randrange(n) for _ in range(min(3 * n + 1, 64))], tag=tag,
                    method=rng.choice(["multinomial_resampling", "importance_sampling"]), fields=rng.choice(["std", "ins"]))
                if n <= 60 and rng.random() < (0.3 if quick else 1.0):
                    # a caller reusing the same sample / weight arrays for several calls
                    ops = [rng.choice(["mult", "rej", "ess"]) for _ in range(rng.choice([2, 3, 4]))]
                    if "mult" not in ops:
                        ops[0] = "mult"
                    add(kind="seq", ops=ops + ["ess", "rej", "mult"], lw=lw, us=gen_us(rng, lw), n=rng.choice([None, None, n]),
                        choice_idx=[rng.randrange(n) for _ in range(min(3 * n + 1, 64))], tag="seq:" + kind,
                        method=rng.choice(["multinomial_resampling", "importance_sampling"]), fields=rng.choice(["std", "ins"]))
    # corpus: boundaries named in the property
    add(kind="rej", lw=[0.0], us=[ONE_M], tag="single sample, largest u")
    add(kind="rej", lw=[0.0, 0.0, -INF], us=[ONE_M, 0.0, 0.0], tag="ties at the maximum, u = 0 on a -inf weight")
    add(kind="rej", lw=[-1e5, -1e5 - 700.0, -INF, -1e5 - 800.0], us=[0.5, 5e-324, 0.0, 5e-324], tag="offset -1e5, underflowing ratios")
    add(kind="mult", lw=[0.0, 0.0, 0.0], n=None, choice_idx=[2, 0, 1], tag="equal weights: ESS = 3 exactly", method="multinomial_resampling",
        fields="ins")
    add(kind="seq", ops=["mult", "ess", "rej", "mult"], lw=[0.0, -1.5, -INF, -0.25], us=[0.5, 0.3, 0.0, ONE_M], n=None,
        choice_idx=[3, 0, 1], tag="seq:corpus", method="multinomial_resampling", fields="ins")
    add(kind="mult", lw=[0.0, -INF], n=None, choice_idx=[0], tag="one effective sample", method="multinomial_resampling")
    add(kind="ess_empty", tag="empty state")
    # exact shift pairs for ESS
    for n in ([1, 4, 30, 150] if quick else [1, 4, 30, 150, 1000, 4000]):
        lw = with_ninf(rng, gen_lw(rng, n, "grid"), rng.choice([0.0, 0.3]))
        c = rng.choice([1.0, -1.0, 1e5, -1e5, grid(rng, -100000, 100000, 8)])
        a = add(kind="ess", lw=lw, tag="shift-base")
        add(kind="ess", lw=[v + c for v in lw], tag=f"shift+{c:g}", pair=a, c=c)
    # ESS of every integral-state class that offers effective_n_posterior_samples, in every state it can be in:
    # _NSIntegralState during the run and after finalise; _INSIntegralState after update_evidence(nested, live)
    # without and with live points (a running importance sampler); -inf entries; exact constant shifts
    for n0, m in ([(1, 3), (5, 30), (50, 120)] if quick else [(1, 3), (5, 30), (50, 120), (500, 1500)]):
        for mode in ("logt", "t"):
            ls = sorted(grid(rng, -60, 0, 16) for _ in range(m))
            sched = [n0] * (m - n0) + list(range(n0, 0, -1))
            cs = rng.choice([1.0, 1e5, -1e5, grid(rng, -100000, 100000, 8)])
            for state in ("ns", "ns_running"):
                a = add(kind="ess_state", state=state, ls=ls, ns=sched, mode=mode, tag="state:" + state)
                add(kind="ess_state", state=state, ls=[v + cs for v in ls], ns=sched, mode=mode, tag="state:" + state + " shift",
                    pair=a, c=cs)
    for n_ns, n_lp in ([(1, 0), (1, 6), (2, 1), (40, 0), (40, 15), (90, 60)] if quick else
                       [(1, 0), (1, 6), (2, 1), (40, 0), (40, 15), (90, 60), (500, 200), (1200, 0), (1200, 800)]):
        for where in ("live-heavy", "comparable", "nested-heavy"):
            if n_lp == 0 and where != "comparable":
                continue
            loc_ns, loc_lp = {"live-heavy": (-20.0, 0.0), "comparable": (0.0, 0.5), "nested-heavy": (0.0, -20.0)}[where]
            ns_l = [grid(rng, loc_ns - 3, loc_ns + 3, 16) for _ in range(n_ns)]
            ns_w = [grid(rng, -8, -4, 16) for _ in range(n_ns)]
            lp_l = [grid(rng, loc_lp - 3, loc_lp + 3, 16) for _ in range(n_lp)] if n_lp else None
            lp_w = [grid(rng, -8, -4, 16) for _ in range(n_lp)] if n_lp else None
            if rng.random() < 0.5 and n_ns > 1:
                for i in rng.sample(range(n_ns), max(1, n_ns // 4)):
                    ns_l[i] = -INF
                if n_lp > 1:
                    lp_l[rng.randrange(n_lp)] = -INF
            cs = rng.choice([1.0, 250.0, -700.0, 1e5, -1e5, grid(rng, -100000, 100000, 8)])
            tag = "state:ins " + ("nested+live" if n_lp else "nested only") + " " + where
            a = add(kind="ess_state", state="ins", ns_logL=ns_l, ns_logW=ns_w, lp_logL=lp_l, lp_logW=lp_w, tag=tag)
            add(kind="ess_state", state="ins", ns_logL=[v + cs for v in ns_l], ns_logW=ns_w,
                lp_logL=None if lp_l is None else [v + cs for v in lp_l], lp_logW=lp_w, tag=tag + " shift", pair=a, c=cs)
    add(kind="state_classes", tag="state classes")
    # weights from nlive (log_w=None path)
    for n0, m in ([(2, 6), (10, 40)] if quick else [(2, 6), (10, 40), (100, 500)]):
        ls = sorted(-0.5 * rng.gauss(0, 1) ** 2 * 5 for _ in range(m))
        add(kind="nlive", ls=ls, nlive=n0, us=[rng.random() for _ in range(m)], mode=rng.choice(["logt", "t"]), tag="nlive path",
            fields=rng.choice(["std", "ins"]))
    # long vectors: direct predicate only (not sent to Coq)
    for n in ([20000] if quick else [100000, 100000]):
        lw = with_ninf(rng, gen_lw(rng, n, rng.choice(["gauss", "range"])), 0.1)
        add(kind="ess", lw=lw, tag="long", no_coq=True)
        add(kind="rej", lw=lw, us=[rng.random() for _ in range(n)], tag="long", no_coq=True, n=None)
        add(kind="mult", lw=lw, n=None, choice_idx=[rng.randrange(n) for _ in range(64)], tag="long", no_coq=True,
            method="multinomial_resampling")
    # oracle validation with numpy's real generators
    freq = []
    reps = 400 if quick else 6000
    for k in range(3 if quick else 10):
        n = rng.choice([3, 6, 10])
        lw = with_ninf(rng, gen_lw(rng, n, rng.choice(["gauss", "alphabet", "grid"])), rng.choice([0.0, 0.3]))
        freq.append({"kind": "freq", "lw": lw, "method": "rejection_sampling", "reps": reps, "seed": rng.randrange(2 ** 31), "tag": "freq"})
        freq.append({"kind": "freq", "lw": lw, "method": "multinomial_resampling", "n": rng.choice([None, 5]), "reps": reps,
                     "seed": rng.randrange(2 ** 31), "tag": "freq"})
    mal = [{"kind": "malformed", "what": "method", "lw": [0.0, -1.0], "tag": "malformed"},
           {"kind": "malformed", "what": "all_ninf_rej", "lw": [-INF, -INF], "us": [0.0, 0.5], "tag": "malformed"},
           {"kind": "malformed", "what": "all_ninf_mult", "lw": [-INF, -INF], "tag": "malformed"}]
    return cases, freq, mal


# ---------------------------------------------------------------------------
# direct predicate: the property on the implementation alone
# ---------------------------------------------------------------------------
def tol_rel(lw):
    fin = [abs(v) for v in lw if v != -INF]
    return K_ESS * U53 * (len(lw) + (max(fin) if fin else 0.0) + 1.0)


def direct_predicate(c, r, partner=None):
    bad = []
    if "error" in r:
        return [(f"raises:{c['kind']}:{r['error']}", f"{c['kind']} raised {r['error']}: {r.get('msg', '')}")]
    kind = c["kind"]
    if kind == "seq":
        # every call of the sequence must satisfy the clauses with respect to the weights the caller passed
        for j, (sc, sr) in enumerate(sub_cases(c, r)):
            for key, what in direct_predicate(sc, sr):
                bad.append((key, f"call {j + 1} ({sc['kind']}) of the sequence {c['ops']} on the same arrays: {what}"))
        return bad
    # no function of the property may write to its inputs
    if r.get("inputs_changed"):
        bad.append((f"inputs-mutated:{kind}", f"{kind} call changed its input array(s) {r['inputs_changed']} "
                    "(compared bit by bit before / after)"))
    # returned records are elements of the nested samples: every field, bit by bit
    for fk in ("fields_bad", "fields_bad_noidx"):
        if r.get(fk):
            bad.append((f"subset:fields:{kind}", f"returned samples differ from nested_samples[indices] in field(s) {r[fk]} "
                        f"({r.get('n_fields')} fields, {c.get('fields', 'std')} dtype)"))
    lw = c.get("lw", [])
    n = len(lw)
    fin = [v for v in lw if v != -INF]
    if kind == "ess":
        e = r["ess"]
        t = tol_rel(lw)
        if not (e == e and 1.0 - t * 2 <= e <= n * (1.0 + 2 * t)):
            bad.append(("ess:bounds", f"ESS {e!r} outside [1, {n}]"))
        if "ess_list" in r and r["ess_list"] != e:
            bad.append(("ess:list-vs-array", f"ESS of a list {r['ess_list']!r} differs from the array's {e!r}"))
        if partner is not None:
            pc, pr = partner
            if "error" not in pr and not abs(e - pr["ess"]) <= 2 * (t + tol_rel(pc["lw"])) * max(e, pr["ess"]):
                bad.append(("ess:shift", f"ESS moved from {pr['ess']!r} to {e!r} under a shift of {c['c']!r}"))
    elif kind == "ess_state":
        w = r["w"]
        t = tol_rel(w)
        fin = [v for v in w if v != -INF]
        if any(v != v or v == INF for v in w) or not fin:
            return [("ess:state-weights", f"{r['cls']}: log_posterior_weights not usable: {w[:8]}")]
        # Kish's ESS of the state's OWN posterior weights, recomputed here: (sum w)^2 / sum w^2
        mx = max(fin)
        s1 = math.fsum(math.exp(v - mx) for v in fin)
        s2 = math.fsum(math.exp(2 * (v - mx)) for v in fin)
        kish = s1 * s1 / s2
        e = r["ess"]
        if not (e == e and abs(e - kish) <= 2 * t * kish):
            bad.append(("ess:state-not-kish", f"{r['cls']}.effective_n_posterior_samples = {e!r} but Kish's ESS of its "
                        f"log_posterior_weights ({len(w)} samples) is {kish!r}"))
        if not abs(e - r["ess_fn"]) <= 2 * t * max(r["ess_fn"], 1.0):
            bad.append(("ess:state-vs-function", f"effective_n_posterior_samples {e!r} vs effective_sample_size {r['ess_fn']!r}"))
        if not (e == e and 1.0 - 2 * t <= e <= len(w) * (1 + 2 * t)):
            bad.append(("ess:bounds", f"{r['cls']} ESS {e!r} outside [1, {len(w)}]"))
        if r["ess_again"] != e or not r["weights_stable"]:
            bad.append(("ess:state-mutated", f"{r['cls']}: reading effective_n_posterior_samples / editing a returned weight "
                        f"array changed the state (ESS {e!r} -> {r['ess_again']!r}, weights stable: {r['weights_stable']})"))
        if partner is not None:
            pc, pr = partner
            if "error" not in pr and not abs(e - pr["ess"]) <= 2 * (t + tol_rel(pr["w"])) * max(e, pr["ess"]):
                bad.append(("ess:state-shift", f"{r['cls']} ESS moved from {pr['ess']!r} to {e!r} when every log-likelihood "
                            f"was shifted by {c['c']!r}"))
    elif kind == "state_classes":
        pass
    elif kind == "ess_empty":
        if r["ess"] != 0:
            bad.append(("ess:empty", f"empty state reports {r['ess']!r} effective samples"))
    elif kind in ("rej", "nlive"):
        idx, ids = r["idx"], r["ids"]
        m = len(c["us"])
        if any(not (0 <= i < m) for i in idx) or any(idx[k] >= idx[k + 1] for k in range(len(idx) - 1)):
            bad.append(("rejection:indices", f"indices not strictly increasing within range: {idx[:20]}"))
        elif ids != idx:
            bad.append(("rejection:subset", f"returned samples {ids[:20]} are not the samples at the returned indices {idx[:20]}"))
        if kind == "nlive":
            if idx != r["idx_explicit"]:
                bad.append(("rejection:nlive-path", "weights from nlive give different samples than the same weights passed explicitly"))
            lw = r["w"]
            fin = [v for v in lw if v != -INF]
        else:
            if r["ids_noidx"] != ids:
                bad.append(("rejection:return_indices", "samples differ between return_indices=True and False"))
            if r["rand_calls"] != [[n], [n]]:
                bad.append(("rejection:rand-size", f"np.random.rand called with {r['rand_calls']} for {n} samples"))
        if fin:
            mx = max(fin)
            kept = set(idx)
            for i, (v, u) in enumerate(zip(lw, c["us"])):
                if v == -INF:
                    if i in kept:
                        bad.append(("rejection:zero-weight-kept", f"sample {i} with weight -inf kept (u = {u!r})"))
                        break
                    continue
                if v == mx and u < 1.0 and i not in kept:
                    bad.append(("rejection:max-dropped", f"maximum-weight sample {i} dropped with u = {u!r}"))
                    break
                q = math.exp(v - mx)          # w_i / w_max
                if q > 1e-300:
                    if u < q * (1 - 1e-12) and i not in kept:
                        bad.append(("rejection:keep-iff", f"sample {i}: u = {u!r} < w/wmax = {q!r} but dropped"))
                        break
                    if u > q * (1 + 1e-12) and i in kept:
                        bad.append(("rejection:keep-iff", f"sample {i}: u = {u!r} > w/wmax = {q!r} but kept"))
                        break
    elif kind == "mult":
        idx, ids, call = r["idx"], r["ids"], r["call"]
        if r["n_calls"] != 1 or call is None:
            return [("multinomial:choice-calls", f"np.random.choice called {r['n_calls']} times")]
        want = c["n"] if c["n"] is not None else int(r["ess"])
        if call["size"] != want or len(idx) != want or len(ids) != want:
            bad.append(("multinomial:n", f"requested {c['n']} (ESS {r['ess']!r}): choice size {call['size']}, {len(idx)} indices, {len(ids)} samples"))
        if call["a"] != n or call["replace"] is not True:
            bad.append(("multinomial:choice-args", f"choice(a={call['a']}, replace={call['replace']}) for {n} samples"))
        exp_idx = [c["choice_idx"][k % len(c["choice_idx"])] for k in range(len(idx))]
        if idx != exp_idx or ids != idx:
            bad.append(("multinomial:subset", "returned samples / indices are not the ones np.random.choice selected"))
        p = call["p"]
        if p is None or len(p) != n or any(not (0.0 <= v <= 1.0 + 1e-12) for v in p) or not abs(sum(p) - 1.0) <= 1e-9:
            bad.append(("multinomial:p-normalised", f"p does not sum to one: {sum(p) if p else None!r}"))
        elif fin:
            j = max(range(n), key=lambda i: lw[i])
            for i in range(n):
                if lw[i] == -INF:
                    if p[i] != 0.0:
                        bad.append(("multinomial:zero-weight", f"p[{i}] = {p[i]!r} for weight -inf"))
                        break
                    continue
                q = math.exp(lw[i] - lw[j])
                if q > 1e-290 and not abs(p[i] - q * p[j]) <= 1e-9 * q * p[j]:
                    bad.append(("multinomial:p-proportional", f"p[{i}]/p[{j}] = {p[i] / p[j]!r} but w ratio = {q!r}"))
                    break
    return bad


def sub_cases(c, r):
    """the calls of a `seq` case as stand-alone (case, result) pairs"""
    out = []
    for op, sr in zip(c["ops"], r.get("ops", [])):
        sc = {"kind": op, "lw": c["lw"], "tag": c["tag"], "fields": c.get("fields", "std")}
        if op == "rej":
            sc.update(us=c["us"], n=c.get("n"))
        elif op == "mult":
            sc.update(n=c.get("n"), choice_idx=c["choice_idx"], method=c.get("method"))
        out.append((sc, sr))
    return out


def freq_predicate(c, r):
    """exact binomial bounds at total false-alarm probability below 1e-9 per case"""
    from scipy.stats import binom
    if "error" in r:
        return [(f"raises:freq:{r['error']}", r.get("msg", ""))], 0
    lw = c["lw"]
    n = len(lw)
    fin = [v for v in lw if v != -INF]
    mx = max(fin)
    alpha = 1e-9 / (2 * n)
    bad, tests = [], 0
    if r.get("inputs_changed"):
        bad.append(("inputs-mutated:freq", f"repeated {c['method']} draws changed the input array(s) {r['inputs_changed']}"))
    if c["method"] == "rejection_sampling":
        trials = c["reps"]
        qs = [math.exp(v - mx) if v != -INF else 0.0 for v in lw]
    else:
        s = mx + math.log(sum(math.exp(v - mx) for v in fin))
        qs = [math.exp(v - s) if v != -INF else 0.0 for v in lw]
        if r["lens_min"] != r["lens_max"]:
            bad.append(("freq:multinomial-length", f"draw counts vary: {r['lens_min']}..{r['lens_max']}"))
        trials = c["reps"] * r["lens_max"]
    for i, (q, k) in enumerate(zip(qs, r["counts"])):
        tests += 1
        if q <= 0.0:
            ok = k == 0
        elif q >= 1.0:
            ok = k == trials
        else:
            lo, hi = binom.ppf(alpha, trials, q), binom.isf(alpha, trials, q)
            ok = lo <= k <= hi
        if not ok:
            bad.append((f"freq:{c['method']}", f"sample {i} selected {k} times in {trials} trials, expected probability {q!r}"))
    return bad, tests


# ---------------------------------------------------------------------------
# Coq literals and batches
# ---------------------------------------------------------------------------
def cdy(x):
    if x == -INF:
        return "None"
    m, e = float_dyadic(x)
    return f"Some ({m}, {e})%Z"


def cdy1(x):
    m, e = float_dyadic(x)
    return f"({m}, {e})%Z"


def record_codes(n, n_fields):
    """integer checksum of pristine record i over all fields (child: field k of row i = (i + 1)(k + 2), x = i)"""
    tot = sum(k + 2 for k in range(n_fields))
    return [(i + 1) * tot - (i + 1) * 2 + i for i in range(n)]


def evs_for(c, r):
    """-> (size, [(label, coq expression)]) for one call"""
    k = c["kind"]
    ev, size = [], 0
    if "error" in r:
        return 0, []
    if k in ("ess", "ess_state"):
        lw = c["lw"] if k == "ess" else r["w"]
        if all(v == -INF for v in lw) or any(v != v or v == INF for v in lw) or r["ess"] != r["ess"] \
                or abs(r["ess"]) == INF:
            return 0, []
        label = "ESS within tol of the enclosure" if k == "ess" else STATE_LABEL
        ev.append((label, f"check_ess P100 {cL(cdy(v) for v in lw)} {cdy1(r['ess'])}"))
        size = 2 * len(lw)
    elif k == "rej":
        lw, n = c["lw"], len(c["lw"])
        idx = cL(cN(j) for j in r["idx"])
        lab = "rejection: indices increasing, in range, samples = samples[indices] (ids and all-field record codes)"
        ev.append((lab, f"check_subset true {cN(n)} {idx} {cL(cN(j) for j in range(n))} {cL(cN(j) for j in r['ids'])}"))
        if all(v >= 0 for v in r["codes"]):
            ev.append((lab, f"check_subset true {cN(n)} {idx} {cL(cN(j) for j in record_codes(n, r['n_fields']))} "
                            f"{cL(cN(j) for j in r['codes'])}"))
        ev.append(("rejection: every decision agrees with log_w - max > log u",
                   f"check_rej P100 {cL(cdy(v) for v in lw)} {cL(cdy1(u) for u in c['us'])} {idx}"))
        size = n
    elif k == "mult":
        lw, n = c["lw"], len(c["lw"])
        if r["call"] is None or r["call"]["p"] is None or any(v != v or abs(v) == INF for v in r["call"]["p"]):
            return 0, []
        idx = cL(cN(j) for j in r["idx"])
        lab = "multinomial: samples = samples[indices], indices in range (ids and all-field record codes)"
        ev.append((lab, f"check_subset false {cN(n)} {idx} {cL(cN(j) for j in range(n))} {cL(cN(j) for j in r['ids'])}"))
        if all(v >= 0 for v in r["codes"]):
            ev.append((lab, f"check_subset false {cN(n)} {idx} {cL(cN(j) for j in record_codes(n, r['n_fields']))} "
                            f"{cL(cN(j) for j in r['codes'])}"))
        ev.append(("multinomial: p handed to choice = exp(log_w - lse) within tol",
                   f"check_probs P100 {cL(cdy(v) for v in lw)} {cL(cdy1(v) for v in r['call']['p'])}"))
        size = 2 * n
        if c["n"] is None:
            ev.append(("multinomial: default n = integer part of ESS",
                       f"check_default_n P100 {cL(cdy(v) for v in lw)} {cN(r['call']['size'])}"))
            size += 2 * n
    return size, ev


def coq_items(cases, res):
    """-> list of (case index, size, [(label, coq expression returning bool or (bool * list nat))]);
    the calls of a `seq` case are judged one by one against the weights the caller passed"""
    items = []
    for i, (c, r) in enumerate(zip(cases, res)):
        if c.get("no_coq") or "error" in r:
            continue
        pairs = sub_cases(c, r) if c["kind"] == "seq" else [(c, r)]
        size, ev = 0, []
        for sc, sr in pairs:
            s1, e1 = evs_for(sc, sr)
            size += s1
            ev += e1
        if ev:
            items.append((i, size, ev))
    return items


def run_coq(chk, items, workers=12):
    nb = max(1, min(workers, len(items)))
    bins = [[0, []] for _ in range(nb)]
    for it in sorted(items, key=lambda t: -t[1]):
        b = min(bins, key=lambda x: x[0])
        b[0] += it[1]
        b[1].append(it)
    shards = [b[1] for b in bins if b[1]]
    hdr = common.COQ_HEADER + "From NessaiV Require Import Lib.Enclose Model.C16_Resample Run.C16_run.\n"

    def one(k):
        txt = hdr
        for (i, _, ev) in shards[k]:
            for (_, expr) in ev:
                txt += f"Eval vm_compute in ({expr}).\n"
        ok, evals, err = chk.coq_run(f"cases_{k}", txt, timeout=1700)
        return k, ok, evals, err

    out = {}
    with ThreadPoolExecutor(max_workers=workers) as ex:
        for k, ok, evals, err in ex.map(one, range(len(shards))):
            want = sum(len(ev) for (_, _, ev) in shards[k])
            if not ok or len(evals) != want:
                return None, f"shard {k}: {err[-1500:]}"
            pos = 0
            for (i, _, ev) in shards[k]:
                for (label, _) in ev:
                    out.setdefault(i, []).append((label, evals[pos]))
                    pos += 1
    return out, ""


def verdict(s):
    """'true' / 'false' / '(true, [])' / '(true, [3; 4])' -> (ok, detail)"""
    s = s.strip()
    if s in ("true", "false"):
        return s == "true", ""
    m = re.match(r"\((true|false), \[(.*)\]\)", s)
    if not m:
        return False, "unparsed: " + s[:100]
    return (m.group(1) == "true" and m.group(2).strip() == ""), f"no finite weight: {m.group(1) == 'false'}; positions: [{m.group(2)[:200]}]"


# ---------------------------------------------------------------------------
def run_impl(chk, cases, timeout=900):
    rc, out, err = chk.child("c16_child.py", timeout=timeout, inp=json.dumps(cases))
    if rc != 0:
        chk.oblige("implementation child ran", "harness", False, err[-1500:])
        return None
    return json.loads(out)


def run(chk):
    chk.rule = ("weight vectors of length 1..200 (quick) / ..2000 in Coq, ..1e5 direct (thorough): gaussian, 5-value alphabet "
                "(ties, also at the maximum), all equal (ESS = n: the int() boundary), range 1e-300, ratios below the smallest "
                "float, dyadic grid, normalised; -inf entries (0%, 30%, 90%); offsets 0, +-1e5; scripted uniforms with 0, 5e-324, "
                "1-2^-53 and values on / next to the acceptance boundary; requested n in {None, 0, 1, len, 3 len + 1}; both "
                "multinomial method names; exact ESS shift pairs; effective_n_posterior_samples of every integral-state class "
                "(_NSIntegralState during the run and after finalise, _INSIntegralState after update_evidence with and without "
                "live points: live-heavy / comparable / nested-heavy mass, -inf entries, shifted pairs; values read twice with "
                "the returned weight array overwritten in between); the nlive path. Samples are structured arrays built by "
                "nessai's get_dtype with every field its samples carry (x, y, logP, logL, it and - half of the cases - the "
                "registered extras logW, logQ, logU), all non-zero and distinct per row; returned records are compared with "
                "nested_samples[indices] field by field bit-exactly; every input array is compared bit-exactly before/after "
                "each call; `seq` cases make 5-7 calls (multinomial / rejection / ESS in random order) on the SAME arrays. "
                "non-trivial = at least two finite distinct weights; distinct by full case description")
    chk.assumptions += [
        "oracle: np.random.rand returns independent uniforms in [0, 1); validated by exact binomial bounds on selection counts "
        "with numpy's real generator (false-alarm probability < 1e-9 per case)",
        "oracle: np.random.choice(a, size, p) returns `size` indices below `a` with frequencies p (same validation); the model "
        "only uses length and range",
        "float64 rounding is not modelled: ESS and the probabilities are shown within an explicit relative tolerance of the real "
        "values, acceptance decisions agree with the real test up to an explicit slack on the margin, for the sampled inputs only",
    ]
    chk.static_props(["C16"], ["C16_run"])
    chk.translator = {"tie A": "not applicable (numeric numpy code; DESIGN: tie B only)"}
    cases, freq, mal = gen_cases(chk)
    res = run_impl(chk, cases)
    res_f = run_impl(chk, freq, timeout=1500) if res is not None else None
    res_m = run_impl(chk, mal, timeout=120) if res_f is not None else None
    if res is None or res_f is None or res_m is None:
        return
    chk.evaluations = len(cases) + len(freq) + len(mal)
    chk.notes.append("outside the theorems' domain (recorded, not required): " + json.dumps(
        [(m["what"], r) for m, r in zip(mal, res_m)]))
    # ---- direct predicate on every case ------------------------------------------------------------------
    for i, (c, r) in enumerate(zip(cases, res)):
        partner = (cases[c["pair"]], res[c["pair"]]) if "pair" in c else None
        chk.count("kind:" + c["kind"])
        chk.count("tag:" + c["tag"].split("/")[0].split("+")[0])
        lw = c.get("lw", [])
        if c["kind"] == "ess_state":
            lw = r.get("w", [])
            chk.count("state ESS: " + c["state"] + (" with live points" if c.get("lp_logL") else ""))
        if c["kind"] == "state_classes":
            got = r.get("classes")
            chk.oblige("coverage: every concrete state class of nessai.evidence offering effective_n_posterior_samples is "
                       f"exercised ({', '.join(KNOWN_STATE_CLASSES)})", "coverage", got == KNOWN_STATE_CLASSES,
                       f"classes found: {got}")
        if any(v == -INF for v in lw):
            chk.count("has -inf")
        fin = [v for v in lw if v != -INF]
        mxw = max(fin) if fin else None
        if fin and sum(1 for v in fin if v == mxw) > 1:
            chk.count("ties at the maximum")
        if len(set(fin)) >= 2:
            chk.nontriv((c["kind"], lw, c.get("us"), c.get("n")))
        if c["kind"] == "rej" and "idx" in r:
            chk.count("rejection: kept", len(r["idx"]))
            chk.count("rejection: dropped", len(lw) - len(r["idx"]))
        for key, what in direct_predicate(c, r, partner):
            rep = {"case": c, "observed": r}
            if partner:
                rep["partner"] = partner[0]
            chk.fail(f"C16:{key}", what, rep)
    for c, r in zip(freq, res_f):
        bad, tests = freq_predicate(c, r)
        chk.oracle_validations += tests
        chk.count("kind:freq")
        for key, what in bad:
            chk.fail(f"C16:{key}", what, {"case": c, "observed": r, "freq": True})
    # ---- correspondence inside Coq ----------------------------------------------------------------------
    items = coq_items(cases, res)
    out, err = run_coq(chk, items)
    if out is None:
        chk.oblige("correspondence batch evaluated in Coq", "correspondence", False, err)
        return
    per, badc = {}, {}
    for i, lst in out.items():
        for label, s in lst:
            ok, det = verdict(s)
            per[label] = per.get(label, 0) + 1
            if not ok:
                badc.setdefault(label, []).append((i, det))
    labels = ["ESS within tol of the enclosure", STATE_LABEL,
              "rejection: indices increasing, in range, samples = samples[indices] (ids and all-field record codes)",
              "rejection: every decision agrees with log_w - max > log u",
              "multinomial: samples = samples[indices], indices in range (ids and all-field record codes)",
              "multinomial: p handed to choice = exp(log_w - lse) within tol",
              "multinomial: default n = integer part of ESS"]
    for label in labels:
        b = badc.get(label, [])
        det = ""
        if b:
            i, d = min(b, key=lambda t: len(cases[t[0]].get("lw", [])))
            det = f"{len(b)} cases; smallest: {json.dumps(cases[i])[:600]} observed {json.dumps(res[i])[:400]} {d}"
            # a confirmed disagreement with the real-number model is a failing input of the property
            chk.fail(f"C16:model-disagreement:{label.split(':')[0]}", f"{label}: {d}",
                     {"case": cases[i], "observed": res[i], "coq_check": label})
        chk.oblige(f"correspondence: {label} ({per.get(label, 0)} cases)", "correspondence", not b, det)
    chk.traces = sum(per.values())
    for i in list(range(0, len(cases), max(1, len(cases) // 5)))[:5]:
        c, r = cases[i], res[i]
        chk.sample({"case": {k: (v[:6] if isinstance(v, list) else v) for k, v in c.items()},
                    "observed": {k: (v[:6] if isinstance(v, list) else v) for k, v in r.items() if k != "call"}})


def replay(data):
    import tempfile
    rp = data["replay"]
    cs = [rp["case"]] + ([rp["partner"]] if "partner" in rp else [])
    r = subprocess.run([common.PY, os.path.join(common.VERIF, "harness", "c16_child.py")], input=json.dumps(cs),
                       capture_output=True, text=True, env=common.child_env())
    res = json.loads(r.stdout)
    if rp.get("freq"):
        bad, _ = freq_predicate(cs[0], res[0])
    else:
        partner = (cs[1], res[1]) if len(cs) > 1 else None
        bad = direct_predicate(cs[0], res[0], partner)
    coq = None
    if not bad and rp.get("coq_check"):
        items = coq_items([cs[0]], [res[0]])
        txt = common.COQ_HEADER + "From NessaiV Require Import Lib.Enclose Model.C16_Resample Run.C16_run.\n"
        labs = []
        for (_, _, ev) in items:
            for (label, expr) in ev:
                labs.append(label)
                txt += f"Eval vm_compute in ({expr.replace('P100', 'P200')}).\n"
        with tempfile.TemporaryDirectory() as d:
            path = os.path.join(d, "replay_case.v")
            open(path, "w").write(txt)
            rc = subprocess.run(["timeout", "1700", "coqc", "-Q", common.COQ, "NessaiV", path], capture_output=True,
                                text=True, cwd=d)
        evs = common.parse_evals(rc.stdout)
        coq = dict(zip(labs, evs))
        bad = [("model-disagreement", f"{lab}: {verdict(s)[1]}") for lab, s in zip(labs, evs) if not verdict(s)[0]]
        if rc.returncode != 0:
            bad.append(("coq", rc.stderr[-500:]))
    print(json.dumps({"case": cs[0], "observed": res[0], "coq": coq, "failures": bad}, indent=1)[:6000])
    if bad:
        print(f"VIOLATION property={PID} replay=(replayed) {bad[0][1]}")
        return 1
    return 0
