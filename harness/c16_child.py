"""Runs the real nessai resampling code (nessai.posterior.draw_posterior_samples,
nessai.utils.stats.effective_sample_size, _NSIntegralState.effective_n_posterior_samples) on the cases
given on stdin (JSON).  np.random.rand / np.random.choice are replaced by scripted streams except in the
"freq" cases, which use numpy's real generators to validate the oracle hypotheses."""
import json
import logging
import sys
import warnings

import numpy as np


def err_name(e):
    n = type(e).__name__
    return n if n in ("ValueError", "TypeError", "IndexError", "RuntimeError", "ZeroDivisionError") else "Other:" + n


_DTYPES = {}


def sample_dtype(fields):
    """dtype of nessai samples built by nessai itself: parameters x, y + the non-sampling parameters (logP, logL, it)
    and, for fields == "ins", the extra parameters an importance sampler registers (logW, logQ, logU)."""
    if not _DTYPES:
        from nessai.livepoint import (add_extra_parameters_to_live_points, get_dtype,
                                      reset_extra_live_points_parameters)
        reset_extra_live_points_parameters()
        _DTYPES["std"] = np.dtype(get_dtype(["x", "y"]))
        add_extra_parameters_to_live_points(["logW", "logQ", "logU"])
        _DTYPES["ins"] = np.dtype(get_dtype(["x", "y"]))
        reset_extra_live_points_parameters()
    return _DTYPES[fields]


def samples_of(n, logl=None, fields="std"):
    """every field carries non-zero values that differ from row to row: field k of row i = (i + 1) * (k + 2);
    x is the sample id i; logL may be given"""
    a = np.zeros(n, dtype=sample_dtype(fields))
    for k, f in enumerate(a.dtype.names):
        a[f] = (np.arange(n) + 1) * (k + 2)
    a["x"] = np.arange(n, dtype=float)
    if logl is not None:
        a["logL"] = logl
    return a


def row_codes(a, skip=()):
    """integer checksum of each record over all fields except `skip` (the generated values are integers)"""
    tot = np.zeros(len(a), dtype=np.int64)
    for f in a.dtype.names:
        if f not in skip:
            tot = tot + np.asarray(a[f], dtype=np.int64)
    return [int(v) for v in tot]


class Guard:
    """bit-exact snapshot of the input arrays of a call; .changed() names those that differ afterwards"""

    def __init__(self, **arrays):
        self.arrays = arrays
        self.before = {k: (v.dtype, v.shape, v.tobytes()) for k, v in arrays.items()}

    def changed(self):
        return sorted(k for k, v in self.arrays.items() if (v.dtype, v.shape, v.tobytes()) != self.before[k])


def same_records(post, pristine, idx):
    """field-by-field, bit-exact: post == pristine[idx]; returns the fields that differ (or ['<dtype>'])"""
    if post.dtype != pristine.dtype:
        return ["<dtype>"]
    want = pristine[np.asarray(idx, dtype=int)]
    if post.shape != want.shape:
        return ["<shape>"]
    return [f for f in pristine.dtype.names if post[f].tobytes() != want[f].tobytes()]


class Scripted:
    """context manager replacing np.random.rand / np.random.choice"""

    def __init__(self, us=None, choice_idx=None):
        self.us, self.choice_idx = us, choice_idx
        self.rand_calls, self.choice_calls = [], []

    def __enter__(self):
        self._rand, self._choice = np.random.rand, np.random.choice

        def rand(*shape):
            self.rand_calls.append([int(s) for s in shape])
            u = np.array(self.us, dtype=float)
            if tuple(shape) != u.shape:
                raise RuntimeError(f"rand called with shape {shape}, script has {u.shape}")
            return u

        def choice(a, size=None, replace=True, p=None):
            self.choice_calls.append({"a": int(a) if np.ndim(a) == 0 else "array", "size": None if size is None else int(size),
                                      "replace": bool(replace), "p": None if p is None else [float(v) for v in p]})
            n = int(size)
            return np.array([self.choice_idx[k % len(self.choice_idx)] for k in range(n)], dtype=int)

        np.random.rand, np.random.choice = rand, choice
        return self

    def __exit__(self, *a):
        np.random.rand, np.random.choice = self._rand, self._choice


def structured(logl, logw):
    a = np.zeros(len(logl), dtype=[("x", "f8"), ("logL", "f8"), ("logW", "f8")])
    a["logL"] = [float(v) for v in logl]
    a["logW"] = [float(v) for v in logw]
    return a


def ess_state_case(c):
    """effective_n_posterior_samples of a real integral state, in the state the case asks for.
    Every public value is read twice and the returned weight array is overwritten in between: the
    ESS property must neither change nor depend on previously returned arrays."""
    from nessai.evidence import _INSIntegralState, _NSIntegralState
    from nessai.utils.stats import effective_sample_size

    which = c["state"]
    if which in ("ns", "ns_running"):
        st = _NSIntegralState(int(c["ns"][0]), track_gradients=False, expectation=c.get("mode", "logt"))
        for l, n in zip(c["ls"], c["ns"]):
            st.increment(float(l), nlive=int(n))
        if which == "ns":
            st.finalise()
    elif which == "ins":
        st = _INSIntegralState()
        lp = None if c.get("lp_logL") is None else structured(c["lp_logL"], c["lp_logW"])
        st.update_evidence(structured(c["ns_logL"], c["ns_logW"]), lp)
    else:
        raise SystemExit("unknown state " + which)
    w1 = np.array(st.log_posterior_weights, dtype=float)
    e1 = float(st.effective_n_posterior_samples)
    w2 = st.log_posterior_weights
    same12 = bool(np.array_equal(w1, np.asarray(w2), equal_nan=True))
    try:
        w2[...] = 0.0            # a caller editing the returned array must not reach the state
    except Exception:
        pass
    e2 = float(st.effective_n_posterior_samples)
    w3 = np.array(st.log_posterior_weights, dtype=float)
    same13 = bool(np.array_equal(w1, w3, equal_nan=True))
    return {"w": [float(v) for v in w1], "ess": e1, "ess_again": e2, "weights_stable": same12 and same13,
            "ess_fn": float(effective_sample_size(w1.copy())), "cls": type(st).__name__}


def do_ess(c, lw):
    from nessai.utils.stats import effective_sample_size
    g = Guard(log_w=lw)
    out = {"ess": float(effective_sample_size(lw))}
    if c.get("as_list"):
        out["ess_list"] = float(effective_sample_size([float(v) for v in lw]))
    out["inputs_changed"] = g.changed()
    return out


def do_rej(c, ns, lw):
    from nessai.posterior import draw_posterior_samples
    pristine = ns.copy()
    g = Guard(nested_samples=ns, log_w=lw)
    with Scripted(us=c["us"]) as sc:
        post, idx = draw_posterior_samples(ns, log_w=lw, method="rejection_sampling", return_indices=True, n=c.get("n"))
        post_only = draw_posterior_samples(ns, log_w=lw, method="rejection_sampling")
    return {"idx": [int(i) for i in idx], "ids": [int(v) for v in post["x"]], "codes": row_codes(post),
            "ids_noidx": [int(v) for v in post_only["x"]], "rand_calls": sc.rand_calls,
            "fields_bad": same_records(post, pristine, idx), "fields_bad_noidx": same_records(post_only, pristine, idx),
            "n_fields": len(ns.dtype.names), "inputs_changed": g.changed()}


def do_mult(c, ns, lw):
    from nessai.posterior import draw_posterior_samples
    from nessai.utils.stats import effective_sample_size
    pristine = ns.copy()
    ess = float(effective_sample_size(lw.copy()))
    g = Guard(nested_samples=ns, log_w=lw)
    with Scripted(choice_idx=c["choice_idx"]) as sc:
        post, idx = draw_posterior_samples(ns, log_w=lw, method=c.get("method", "multinomial_resampling"),
                                           n=c.get("n"), return_indices=True)
    call = sc.choice_calls[0] if sc.choice_calls else None
    return {"idx": [int(i) for i in idx], "ids": [int(v) for v in post["x"]], "codes": row_codes(post), "call": call,
            "n_calls": len(sc.choice_calls), "ess": ess, "fields_bad": same_records(post, pristine, idx),
            "n_fields": len(ns.dtype.names), "inputs_changed": g.changed()}


def run_case(c):
    from nessai.posterior import compute_weights, draw_posterior_samples
    from nessai.utils.stats import effective_sample_size

    kind = c["kind"]
    lw = np.array([float(v) for v in c.get("lw", [])], dtype=float)
    try:
        if kind == "ess":
            return do_ess(c, lw)
        if kind == "ess_state":
            return ess_state_case(c)
        if kind == "state_classes":
            import inspect
            import nessai.evidence as ev
            names = []
            for name, obj in inspect.getmembers(ev, inspect.isclass):
                if obj.__module__ == ev.__name__ and hasattr(obj, "effective_n_posterior_samples") \
                        and not inspect.isabstract(obj):
                    names.append(name)
            return {"classes": sorted(names)}
        if kind == "ess_empty":
            from nessai.evidence import _NSIntegralState
            st = _NSIntegralState(5, track_gradients=False)
            return {"ess": float(st.effective_n_posterior_samples)}
        if kind == "rej":
            return do_rej(c, samples_of(len(lw), fields=c.get("fields", "std")), lw)
        if kind == "mult":
            return do_mult(c, samples_of(len(lw), fields=c.get("fields", "std")), lw)
        if kind == "seq":
            # several calls on the SAME sample and weight arrays, as a caller would make them
            ns = samples_of(len(lw), fields=c.get("fields", "std"))
            ops = []
            for op in c["ops"]:
                try:
                    if op == "rej":
                        ops.append(do_rej(c, ns, lw))
                    elif op == "mult":
                        ops.append(do_mult(c, ns, lw))
                    elif op == "ess":
                        ops.append(do_ess(c, lw))
                    else:
                        raise SystemExit("unknown op " + op)
                except Exception as e:
                    ops.append({"error": err_name(e), "msg": str(e)[:300]})
            return {"ops": ops}
        if kind == "nlive":
            # log_w=None: the weights come from compute_weights(nested_samples["logL"], nlive)
            ls = np.array([float(v) for v in c["ls"]])
            ns = samples_of(len(ls), ls, fields=c.get("fields", "std"))
            pristine = ns.copy()
            g = Guard(nested_samples=ns)
            with Scripted(us=c["us"]):
                post, idx = draw_posterior_samples(ns, nlive=int(c["nlive"]), method="rejection_sampling",
                                                   return_indices=True, expectation=c.get("mode", "logt"))
            changed = g.changed()
            _, w = compute_weights(ls, int(c["nlive"]), expectation=c.get("mode", "logt"))
            with Scripted(us=c["us"]):
                post2, idx2 = draw_posterior_samples(ns, log_w=w, method="rejection_sampling", return_indices=True)
            return {"idx": [int(i) for i in idx], "ids": [int(v) for v in post["x"]], "idx_explicit": [int(i) for i in idx2],
                    "w": [float(v) for v in w], "fields_bad": same_records(post, pristine, idx),
                    "codes": row_codes(post, skip=("logL",)), "n_fields": len(ns.dtype.names), "inputs_changed": changed}
        if kind == "freq":
            # numpy's real generators: how often is each sample selected?
            ns = samples_of(len(lw))
            np.random.seed(int(c["seed"]))
            counts = np.zeros(len(lw), dtype=int)
            lens = []
            g = Guard(nested_samples=ns, log_w=lw)
            for _ in range(int(c["reps"])):       # repeated draws from the SAME arrays
                post, idx = draw_posterior_samples(ns, log_w=lw, method=c["method"], n=c.get("n"), return_indices=True)
                np.add.at(counts, idx, 1)
                lens.append(len(idx))
            return {"counts": [int(v) for v in counts], "lens_min": int(min(lens)), "lens_max": int(max(lens)),
                    "inputs_changed": g.changed()}
        if kind == "malformed":
            ns = samples_of(len(lw))
            with Scripted(us=c.get("us"), choice_idx=[0]):
                if c["what"] == "method":
                    draw_posterior_samples(ns, log_w=lw.copy(), method="bogus")
                    return {"rejected": None}
                if c["what"] == "all_ninf_rej":
                    post, idx = draw_posterior_samples(ns, log_w=lw.copy(), method="rejection_sampling", return_indices=True)
                    return {"rejected": None, "n_samples": len(idx), "ess": float(effective_sample_size(lw.copy()))}
                if c["what"] == "all_ninf_mult":
                    post, idx = draw_posterior_samples(ns, log_w=lw.copy(), method="multinomial_resampling", return_indices=True)
                    return {"rejected": None, "n_samples": len(idx)}
        raise SystemExit("unknown kind " + kind)
    except Exception as e:
        if kind == "malformed":
            return {"rejected": err_name(e)}
        return {"error": err_name(e), "msg": str(e)[:300]}


def main():
    cases = json.load(sys.stdin)
    logging.disable(logging.CRITICAL)
    warnings.filterwarnings("ignore")
    np.seterr(all="ignore")
    json.dump([run_case(c) for c in cases], sys.stdout)


if __name__ == "__main__":
    main()
