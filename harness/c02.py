"""C02: evidence and posterior weights equal the documented nested-sampling quadrature."""
import json
import math
import os
import re
import subprocess
import sys
from concurrent.futures import ThreadPoolExecutor

import common
from common import cL, cT, float_dyadic

sys.path.insert(0, common.VERIF + "/translator")

PID = "C02"
U53 = 2.0 ** -53
K_Q = 2048.0          # mirrors K_q in coq/Model/C02_Quadrature.v (used by the direct predicate only)
INF = float("inf")


# ---------------------------------------------------------------------------
# tie A: expressions read from the source
# ---------------------------------------------------------------------------
def translate(chk):
    import c02_exprs
    from pyast import Declined

    status, sk = {}, {}
    for name, fn in (("increment", c02_exprs.increment_exprs), ("compute_weights", c02_exprs.compute_weights_exprs)):
        try:
            sk[name] = fn()
            status[name] = "translated: " + json.dumps(sk[name]["src"])
        except Declined as e:
            status[name] = f"declined: {e}"
    try:
        sk["finalise"] = c02_exprs.finalise_schedule()
        status["NestedSampler.finalise"] = "translated: " + sk["finalise"]["src"]
    except Declined as e:
        status["NestedSampler.finalise"] = f"declined: {e}"
    try:
        sk["arange"] = c02_exprs.compute_weights_arange()
        status["compute_weights.arange"] = "translated: " + sk["arange"]["src"]
    except Declined as e:
        status["compute_weights.arange"] = f"declined: {e}"
    chk.translator = status
    return sk


def today(chk, sk):
    hdr = common.COQ_HEADER + ("From Coq Require Import Reals.\n"
                               "From NessaiV Require Import Lib.Enclose Model.C02_Quadrature Proofs.C02_Quadrature_proofs.\n")
    for name in ("increment", "compute_weights"):
        if name not in sk:
            continue
        txt = hdr
        txt += f"Definition e_logt : sexp := {sk[name]['logt']}.\nDefinition e_t : sexp := {sk[name]['t']}.\n"
        txt += ("Lemma today : shrink_ok LogT e_logt = true /\\ shrink_ok TT e_t = true.\n"
                "Proof. vm_compute. split; reflexivity. Qed.\n"
                "Lemma today_property : forall n : positive,\n"
                "  sden e_logt (nR n) = logt LogT n /\\ sden e_t (nR n) = logt TT n.\n"
                "Proof. intro n. split; [exact (shrink_ok_sound LogT e_logt n (proj1 today))"
                "|exact (shrink_ok_sound TT e_t n (proj2 today))]. Qed.\n")
        ok, _, err = chk.coq_run("today_shrink_" + name, txt)
        chk.oblige(f"today: the two shrinkage expressions of {name} are -1/n and -log(1+1/n) "
                   "(shrink_ok on the regenerated expressions + instantiated soundness)", "today", ok, err)
    if "finalise" in sk:
        txt = hdr + f"Definition e_sched : zexp := {sk['finalise']['zexp']}.\n"
        txt += ("Lemma today : sched_ok e_sched = true.\nProof. vm_compute. reflexivity. Qed.\n"
                "Lemma today_property : forall n iters, (1 <= n)%nat ->\n"
                "  repeat (Z.of_nat n) iters ++ final_schedule e_sched n = map Zpos (cw_schedule n (iters + n)).\n"
                "Proof. intros n iters Hn. exact (sched_ok_sound e_sched today n iters Hn). Qed.\n")
        ok, _, err = chk.coq_run("today_schedule", txt)
        chk.oblige("today: the live counts passed by NestedSampler.finalise (nlive - i) continue the run's constant "
                   "schedule into compute_weights' schedule n,..,n,n-1,..,1", "today", ok, err)
    if "arange" in sk:
        a = sk["arange"]
        chk.oblige("today: compute_weights fills the last nlive entries with arange(nlive, 0, -1)", "today",
                   a["triple"] == ["nlive", "0", "-1"] and a["slice"] == "-nlive:", json.dumps(a))


# ---------------------------------------------------------------------------
# generators
# ---------------------------------------------------------------------------
def grid(rng, lo, hi, bits):
    """a float on the grid 2^-bits in [lo, hi] (sums with grid offsets stay exact in float64)"""
    s = 2 ** bits
    return rng.randint(int(lo * s), int(hi * s)) / s


def gen_ls(rng, m, kind, off):
    if kind == "gauss":
        sc = rng.choice([1, 10, 100])
        ls = sorted(-0.5 * sc * rng.gauss(0, 1) ** 2 for _ in range(m))
    elif kind == "ties":
        ls = sorted(rng.choice([-3.0, -1.5, 0.0, 2.25]) for _ in range(m))
    elif kind == "alltied":
        ls = [rng.choice([-2.5, 0.0, 7.0])] * m
    elif kind == "huge":          # likelihoods from 1e-300 to 1e300
        ls = sorted(rng.uniform(-690.0, 690.0) for _ in range(m))
    elif kind == "tiny":          # dynamic range 1e-12
        ls = sorted(rng.uniform(0.0, 1e-12) for _ in range(m))
    elif kind == "grid":
        ls = sorted(grid(rng, -500, 500, 16) for _ in range(m))
    elif kind == "unsorted":
        ls = [rng.choice([-3.0, -1.5, 0.0, 2.25, rng.uniform(-50, 50)]) for _ in range(m)]
    else:
        raise ValueError(kind)
    return [l + off for l in ls]


def gen_ns(rng, m, sched):
    """-> (ns, int_nlive or None, use_default)"""
    if sched == "const":
        n0 = rng.choice([1, 2, 5, 50, 500, 2000])
        return [n0] * m, None, rng.random() < 0.5
    if sched == "vary":
        return [rng.randint(1, 2000) for _ in range(m)], None, False
    if sched == "varysmall":
        return [rng.randint(1, 4) for _ in range(m)], None, False
    if sched == "smallbig":
        return [1] * (m // 2) + [2000] * (m - m // 2), None, False
    if sched == "final":         # the sampler's schedule = compute_weights' integer-nlive schedule
        n0 = min(rng.choice([1, 2, 5, 50, 500, 2000, m]), m)
        return [n0] * (m - n0) + list(range(n0, 0, -1)), n0, True
    raise ValueError(sched)


def gen_cases(chk):
    rng = chk.rng
    quick = chk.tier == "quick"
    cases = []

    def add(mode, ls, ns, int_n=None, use_default=False, tag="", **kw):
        sp = {"logt": ["logt", "logt", "LogT", "LOGT", "logT"], "t": ["t", "t", "T"]}[mode]
        c = {"mode": mode, "spelling": sp[(len(cases) + len(ls)) % len(sp)], "ls": ls, "ns": ns, "tag": tag, "base_nlive": ns[0] if ns else 1,
             "use_default": use_default}
        if int_n:
            c["int_nlive"] = int_n
        c.update(kw)
        cases.append(c)
        return len(cases) - 1

    # boundary corpus
    for mode in ("logt", "t"):
        add(mode, [0.0], [1], 1, True, "one point, one live point")
        add(mode, [-1e5], [1], 1, True, "one point at -1e5")
        add(mode, [1e5, 1e5], [2, 1], 2, True, "two tied points at +1e5")
        add(mode, [-INF, 0.5], [2, 1], 2, True, "leading -inf")
        add(mode, [-INF, -INF, -INF, 3.0], [3, 3, 2, 1], 3, True, "only the last point has likelihood")
        add(mode, [-700.0, 0.0, 700.0], [1, 1, 1], None, False, "1e-304 .. 1e304 with one live point")
        add(mode, [0.25] * 7, [2000] * 7, None, True, "ties, 2000 live points")
        # prior volume far below the float64 underflow of exp (log X < -745) while the likelihood keeps rising:
        # the mass sits where exp(log_vol) is 0.0 in double precision (seeded change C02-logsubexp-linear-underflow)
        add(mode, [0.75 * i for i in range(1200)], [1] * 1200, 1, True, "deep volume: log X below -745, rising likelihood")
        # a broad prior: the first dead points lie thousands of nats below the bulk, each new shell outweighs everything
        # accumulated so far by far more than exp() can represent (seeded change C02-increment-relative-update-overflow)
        steep = [-1.0e5, -4.2e4, -9.5e3, -2.2e3, -800.0] + [-60.0 + 0.5 * i for i in range(120)]
        add(mode, steep, [50] * (len(steep) - 50) + list(range(50, 0, -1)), 50, True, "steep start: jumps of more than 709 nats")
        add(mode, [l + 1.0e5 for l in steep], [3] * len(steep), None, False, "steep start shifted by +1e5, three live points")
    lengths = [1, 2, 3, 5, 8, 13, 30, 60, 120, 300] if quick else \
        [1, 2, 3, 5, 8, 13, 30, 60, 120, 300, 300, 700, 1500, 3000, 5000]
    reps = 2 if quick else 4
    kinds = ["gauss", "ties", "alltied", "huge", "tiny", "grid"]
    scheds = ["const", "vary", "varysmall", "smallbig", "final", "final"]
    for m in lengths:
        for r in range(reps if m <= 300 else 1):
            for mode in ("logt", "t"):
                kind = rng.choice(kinds)
                sched = rng.choice(scheds)
                off = rng.choice([0.0, 0.0, 1e5, -1e5, float(rng.randint(-100000, 100000))])
                ls = gen_ls(rng, m, kind, off)
                k = rng.choice([0, 0, 1, m // 2])
                for i in range(min(k, m - 1)):
                    ls[i] = -INF
                ns, int_n, dflt = gen_ns(rng, m, sched)
                add(mode, ls, ns, int_n, dflt, f"{kind}/{sched}/off={off:g}/ninf={min(k, m - 1)}")
    # through the real NestedSampler.finalise loop (stand-in sampler object, real state)
    for n0, iters in ([(1, 0), (1, 3), (3, 0), (4, 9), (25, 40)] if quick else
                      [(1, 0), (1, 3), (3, 0), (4, 9), (25, 40), (200, 300), (1000, 1500)]):
        for mode in ("logt", "t"):
            m = n0 + iters
            ls = gen_ls(rng, m, rng.choice(["gauss", "ties", "huge"]), rng.choice([0.0, 1e5, -1e5]))
            add(mode, ls, [n0] * iters + list(range(n0, 0, -1)), n0, True, "via NestedSampler.finalise",
                via_sampler=n0)
    # not sorted: the theorems do not need monotonicity
    for m in ([4, 25] if quick else [4, 25, 200]):
        for mode in ("logt", "t"):
            ns, int_n, dflt = gen_ns(rng, m, rng.choice(scheds))
            add(mode, gen_ls(rng, m, "unsorted", 0.0), ns, int_n, dflt, "unsorted")
    # shift pairs (values on a dyadic grid so that ls + c is exact in float64)
    for m in ([1, 4, 20, 90] if quick else [1, 4, 20, 90, 400, 2000]):
        for mode in ("logt", "t"):
            ls = gen_ls(rng, m, "grid", 0.0)
            k = rng.choice([0, 1])
            for i in range(min(k, m - 1)):
                ls[i] = -INF
            ns, int_n, dflt = gen_ns(rng, m, rng.choice(scheds))
            cshift = rng.choice([1.0, -1.0, 1e5, -1e5, grid(rng, -100000, 100000, 8)])
            a = add(mode, ls, ns, int_n, dflt, "shift-base")
            ls2 = [l + cshift for l in ls]
            assert all(l2 - cshift == l1 or l1 == -INF for l1, l2 in zip(ls, ls2))
            b = add(mode, ls2, ns, int_n, dflt, f"shift+{cshift:g}", pair=a, c=cshift)
            cases[a]["pair_of"] = b
    # malformed stream (guards of the theorems: what the code rejects)
    mal = []
    for mode in ("logt", "t"):
        for kind in ("len", "mode", "mode_state", "int_too_large"):
            mal.append({"mode": mode, "ls": [0.0, 1.0, 2.0], "ns": [3, 2, 1], "malformed": kind, "tag": "malformed"})
    return cases, mal


# ---------------------------------------------------------------------------
# direct predicate: the property on the implementation alone
# ---------------------------------------------------------------------------
def finite_or_ninf(x):
    return x == x and x != INF


def tol_py(c, lv_m):
    fin = [abs(l) for l in c["ls"] if l != -INF]
    return K_Q * U53 * (max(c["ns"]) * (1.0 + abs(lv_m)) + (max(fin) if fin else 0.0) + len(c["ls"]))


def degenerate(c):
    return all(l == -INF for l in c["ls"])


def wdiff(a, b):
    """largest |a_i - b_i| over finite entries; inf if the -inf patterns differ or a NaN occurs"""
    if len(a) != len(b):
        return INF
    d = 0.0
    for x, y in zip(a, b):
        if x != x or y != y:
            return INF
        if x == -INF or y == -INF:
            if x != y:
                return INF
            continue
        d = max(d, abs(x - y))
    return d


def direct_predicate(c, r, partner=None):
    """-> list of (key, description)"""
    bad = []
    m = len(c["ls"])
    for k in ("st", "cw", "cwi", "cwn"):
        if k in r and "error" in r[k]:
            bad.append((f"raises:{k}:{r[k]['error']}", f"{k} raised {r[k]['error']}: {r[k].get('msg', '')}"))
    if r.get("stable") is False:
        bad.append(("read-mutates", "the state's reported weights / evidence changed after merely reading its public properties "
                    "(and editing the returned arrays)"))
    if bad or degenerate(c):
        return bad
    st, cw = r["st"], r["cw"]
    lv = st["log_vols"]
    if len(lv) != m + 1 or lv[0] != 0.0:
        bad.append(("log_vols:start", f"log_vols has {len(lv)} entries starting at {lv[:1]} for {m} points"))
    if any(not (lv[i + 1] < lv[i]) for i in range(len(lv) - 1)):
        i = next(i for i in range(len(lv) - 1) if not (lv[i + 1] < lv[i]))
        bad.append(("log_vols:decreasing", f"log_vols not strictly decreasing at {i}: {lv[i]} -> {lv[i + 1]}"))
    if st["logLs"][1:] != c["ls"] or st["nlive"] != c["ns"]:
        bad.append(("state:history", "state.logLs / state.nlive differ from what was passed to increment"))
    tol = 2 * tol_py(c, lv[-1])
    vals = [st["ztrap"], st["logZ_attr"], cw["z"]] + st["w"] + cw["w"] + ([st["zrect"]] if st["zrect"] is not None else [])
    if any(not finite_or_ninf(v) for v in vals) or not math.isfinite(st["ztrap"]) or not math.isfinite(cw["z"]):
        bad.append(("nonfinite", "NaN / +inf / -inf evidence in the outputs of a non-degenerate case"))
        return bad
    if st["logZ_attr"] != st["ztrap"] or st["log_evidence"] != st["ztrap"]:
        bad.append(("finalise:attr", "finalise() return value differs from state.logZ / log_evidence"))
    if abs(st["ztrap"] - cw["z"]) > tol:
        bad.append(("incremental-vs-onepass:logZ", f"state {st['ztrap']!r} vs compute_weights {cw['z']!r} (tol {tol:.3g})"))
    d = wdiff(st["w"], cw["w"])
    if d > tol:
        bad.append(("incremental-vs-onepass:weights", f"log-weights differ by {d:.3g} (tol {tol:.3g})"))
    if "cwi" in r:
        if abs(r["cwi"]["z"] - cw["z"]) > tol or wdiff(r["cwi"]["w"], cw["w"]) > tol:
            bad.append(("int-nlive-vs-array-nlive", f"compute_weights(nlive={c['int_nlive']}) {r['cwi']['z']!r} vs per-iteration "
                        f"schedule {cw['z']!r}"))
    if "cwn" in r:
        # the dtype of the live-count array is not part of the quadrature: identical results
        if not abs(r["cwn"]["z"] - cw["z"]) <= tol or not wdiff(r["cwn"]["w"], cw["w"]) <= tol:
            bad.append(("nlive-dtype", f"compute_weights with an integer-dtype nlive array gives {r['cwn']['z']!r}, with the same "
                        f"counts as floats {cw['z']!r}"))
    # weights are normalised against the trapezoid evidence: sum of rectangle weights = Zrect / Ztrap
    if partner is not None:
        pc, pr = partner
        if "error" not in pr["st"] and "error" not in pr["cw"]:
            cs = c["c"]
            t2 = tol + 2 * tol_py(pc, pr["st"]["log_vols"][-1])
            for k, z1, z2 in (("state", pr["st"]["ztrap"], st["ztrap"]), ("compute_weights", pr["cw"]["z"], cw["z"])):
                if not abs((z2 - z1) - cs) <= t2:
                    bad.append((f"shift:logZ:{k}", f"logZ moved by {z2 - z1!r} for a shift of {cs!r} ({k}, tol {t2:.3g})"))
            for k, w1, w2 in (("state", pr["st"]["w"], st["w"]), ("compute_weights", pr["cw"]["w"], cw["w"])):
                d = wdiff(w1, w2)
                if d > t2:
                    bad.append((f"shift:weights:{k}", f"weights moved by {d:.3g} under a shift of {cs!r} ({k})"))
    return bad


# ---------------------------------------------------------------------------
# Coq literals
# ---------------------------------------------------------------------------
def cdy(x):
    if x == -INF:
        return "None"
    m, e = float_dyadic(x)
    return f"Some ({m}, {e})%Z"


def encodable(vals):
    return all(v == v and v != INF for v in vals)


def case_literal(c, r):
    """-> (coq text, group labels) ; groups with NaN/+inf are left out (the direct predicate reports them)"""
    groups, labels = [], []

    def grp(kind, vals, label):
        if encodable(vals):
            groups.append(cT(f"{kind}%nat", cL(cdy(v) for v in vals)))
            labels.append(label)

    st = r["st"]
    grp(0, st["log_vols"], "state.log_vols")
    if st["zrect"] is not None:
        grp(1, [st["zrect"]], "state.logZ before finalise (rectangle)")
    grp(2, [st["ztrap"]], "state.finalise() (trapezoid)")
    grp(3, st["w"], "state.log_posterior_weights")
    grp(2, [r["cw"]["z"]], "compute_weights log-evidence")
    grp(3, r["cw"]["w"], "compute_weights log-weights")
    if "cwi" in r and "error" not in r["cwi"]:
        grp(2, [r["cwi"]["z"]], "compute_weights(int nlive) log-evidence")
        grp(3, r["cwi"]["w"], "compute_weights(int nlive) log-weights")
    md = "LogT" if c["mode"] == "logt" else "TT"
    txt = cT(md, cL(cdy(l) for l in c["ls"]), cL(f"{n}%positive" for n in c["ns"]), cL(groups))
    return txt, labels


FLOAT_RE = re.compile(r"(?:Basic\.)?(Fzero|Fnan|Float (true|false) (\d+) \(?(-?\d+)\)?)")


def parse_diag(s):
    """'([2; 3], [Basic.Float false 3 (-2); Basic.Fzero])' -> ([2,3], [0.75, 0.0])"""
    k = s.index("]")
    idx = common.parse_nat_list(s[s.index("["):k + 1])
    ratios = []
    for mt in FLOAT_RE.finditer(s[k + 1:]):
        if mt.group(1) == "Fzero":
            ratios.append(0.0)
        elif mt.group(1) == "Fnan":
            ratios.append(float("nan"))
        else:
            v = int(mt.group(3)) * 2.0 ** int(mt.group(4))
            ratios.append(-v if mt.group(2) == "true" else v)
    return idx, ratios


def coq_shards(chk, items, prec="P100", name="cases", workers=12):
    """items: list of (case index, literal, size). The cases are spread over `workers` generated files
    (largest first onto the lightest file) compiled concurrently.
    Returns ({case index: (failing groups, ratios)}, "") or (None, error)."""
    nb = max(1, min(workers, len(items)))
    bins = [[0, []] for _ in range(nb)]
    for i, lit, n in sorted(items, key=lambda t: -t[2]):
        b = min(bins, key=lambda x: x[0])
        b[0] += n
        b[1].append((i, lit))
    shards = [b[1] for b in bins if b[1]]
    hdr = common.COQ_HEADER + "From NessaiV Require Import Lib.Enclose Model.C02_Quadrature Run.C02_run.\n"

    def one(k):
        txt = hdr
        for j, (i, lit) in enumerate(shards[k]):
            txt += f"Definition c{j} : case := {lit}.\nEval vm_compute in (diag_case {prec} c{j}).\n"
        ok, evals, err = chk.coq_run(f"{name}_{prec}_{k}", txt, timeout=1700)
        return k, ok, evals, err

    out = {}
    with ThreadPoolExecutor(max_workers=workers) as ex:
        for k, ok, evals, err in ex.map(one, range(len(shards))):
            if not ok or len(evals) != len(shards[k]):
                return None, f"shard {k}: {err[-1500:]}"
            for (i, _), ev in zip(shards[k], evals):
                out[i] = parse_diag(ev)
    return out, ""


# ---------------------------------------------------------------------------
def run_impl(chk, cases, timeout=900):
    rc, out, err = chk.child("c02_child.py", timeout=timeout, inp=json.dumps(cases))
    if rc != 0:
        chk.oblige("implementation child ran", "harness", False, err[-1500:])
        return None
    return json.loads(out)


def run(chk):
    chk.rule = ("log-likelihood sequences of length 1..300 (quick) / ..5000 (thorough): gaussian, 4-value alphabet (ties), "
                "all tied, range 1e-300..1e300, range 1e-12, dyadic grid, unsorted; leading -inf; offsets 0, +-1e5, random "
                "in +-1e5; live counts 1..2000: constant, varying, 1 then 2000, and the sampler's n..n,n-1..1; both "
                "expectation modes; exact shift pairs (ls, ls + c). non-trivial = at least 2 points and not all "
                "log-likelihoods -inf; distinct by full case description")
    chk.assumptions += [
        "float64 rounding of the implementation is NOT modelled: each output is shown to lie within an explicit tolerance "
        "(tol_q / tol_lv in coq/Model/C02_Quadrature.v) of the real-number quadrature, for the sampled inputs only",
        "Interval library operators (I.exp, I.ln, I.add, ...) are verified enclosures (their proofs are part of coq-interval)",
        "numpy.logaddexp / log1p / exp / cumsum and scipy.special.logsumexp are not modelled; they are exercised through "
        "the real functions and bounded by the tolerance",
    ]
    chk.static_props(["C02"], ["C02_run"])
    sk = translate(chk)
    today(chk, sk)
    cases, mal = gen_cases(chk)
    res = run_impl(chk, cases)
    res_mal = run_impl(chk, mal, timeout=120) if res is not None else None
    if res is None or res_mal is None:
        return
    chk.evaluations = len(cases) + len(mal)
    # ---- malformed stream: what the code rejects (guards of the theorems); recorded only -------------
    rej = sum(1 for r in res_mal if r.get("rejected"))
    chk.notes.append(f"malformed stream (length mismatch, unknown expectation, int nlive > len): {rej}/{len(mal)} rejected "
                     + json.dumps(sorted({(m['malformed'], str(r.get('rejected'))) for m, r in zip(mal, res_mal)})))
    chk.count("malformed", len(mal))
    # ---- direct predicate on every case ----------------------------------------------------------------
    for i, (c, r) in enumerate(zip(cases, res)):
        partner = (cases[c["pair"]], res[c["pair"]]) if "pair" in c else None
        chk.count("mode:" + c["mode"])
        chk.count("len:" + ("1" if len(c["ls"]) == 1 else "2-9" if len(c["ls"]) < 10 else "10-99" if len(c["ls"]) < 100
                            else "100-999" if len(c["ls"]) < 1000 else ">=1000"))
        chk.count("tag:" + c["tag"].split("/")[0].split("+")[0])
        if any(l == -INF for l in c["ls"]):
            chk.count("has -inf")
        if len(set(c["ls"])) < len(c["ls"]):
            chk.count("has ties")
        if len(set(c["ns"])) > 1:
            chk.count("varying live counts")
        if len(c["ls"]) >= 2 and not degenerate(c):
            chk.nontriv((c["mode"], c["ls"], c["ns"]))
        for key, what in direct_predicate(c, r, partner):
            rep = {"case": c, "observed": r}
            if partner:
                rep["partner"] = partner[0]
            chk.fail(f"C02:{key}", what, rep)
    # ---- correspondence inside Coq: every output within tol of the enclosure of the real quadrature -----
    items, labels = [], {}
    for i, (c, r) in enumerate(zip(cases, res)):
        if degenerate(c) or any("error" in r.get(k, {}) for k in ("st", "cw")):
            chk.count("not sent to Coq (degenerate or raised)")
            continue
        lit, labs = case_literal(c, r)
        labels[i] = labs
        items.append((i, lit, len(c["ls"]) + 5))
    out, err = coq_shards(chk, items, "P100")
    if out is None:
        chk.oblige("correspondence batch evaluated in Coq", "correspondence", False, err)
        return
    failing = {i: v for i, v in out.items() if v[0]}
    confirmed = {}
    if failing:
        # rule out an evaluator artefact: the same cases at 200 bits
        again, err2 = coq_shards(chk, [(i, lit, n) for (i, lit, n) in items if i in failing], "P200", name="recheck")
        confirmed = failing if again is None else {i: v for i, v in again.items() if v[0]}
    per_label_bad, per_label_n, worst = {}, {}, {}
    for i, (badidx, ratios) in out.items():
        for g, lab in enumerate(labels[i]):
            per_label_n[lab] = per_label_n.get(lab, 0) + 1
            if g < len(ratios) and ratios[g] == ratios[g]:
                worst[lab] = max(worst.get(lab, 0.0), ratios[g])
        if i in confirmed:
            for g in confirmed[i][0]:
                lab = "evaluator produced no enclosure" if g >= 1000 else labels[i][g]
                per_label_bad.setdefault(lab, []).append(i)
    # an output outside the tolerance of the enclosure (confirmed at 200 bits) IS a failing input of the property:
    # the implementation disagrees with the independent arbitrary-precision evaluation of the documented quadrature
    for i in sorted(confirmed, key=lambda j: len(cases[j]["ls"]))[:6]:
        for g in confirmed[i][0]:
            if g >= 1000:
                continue
            lab = labels[i][g]
            rt = confirmed[i][1][g] if g < len(confirmed[i][1]) else float("nan")
            chk.fail(f"C02:outside-enclosure:{lab}",
                     f"{lab} differs from the real-number quadrature by {rt:.3g} x tolerance "
                     f"(mode={cases[i]['mode']}, {len(cases[i]['ls'])} points, tag {cases[i]['tag']})",
                     {"case": cases[i], "observed": res[i], "coq_check": True, "group": g, "label": lab})
    all_labels = ["state.log_vols", "state.logZ before finalise (rectangle)", "state.finalise() (trapezoid)",
                  "state.log_posterior_weights", "compute_weights log-evidence", "compute_weights log-weights",
                  "compute_weights(int nlive) log-evidence", "compute_weights(int nlive) log-weights"]
    for lab in all_labels + [l for l in per_label_bad if l not in all_labels]:
        badc = per_label_bad.get(lab, [])
        det = ""
        if badc:
            i = min(badc, key=lambda j: len(cases[j]["ls"]))
            det = (f"{len(badc)} cases outside tolerance; smallest: mode={cases[i]['mode']} ls={cases[i]['ls'][:12]} "
                   f"ns={cases[i]['ns'][:12]} tag={cases[i]['tag']} ratios={out[i][1]}")
        chk.oblige(f"correspondence: {lab} within tol of the enclosure of the real quadrature "
                   f"({per_label_n.get(lab, 0)} vectors)", "correspondence", not badc, det)
    chk.traces = sum(per_label_n.values())
    chk.notes.append("largest observed |output - enclosure| / tolerance per output kind: "
                     + json.dumps({k: float(f"{v:.3g}") for k, v in sorted(worst.items())}))
    if failing and not confirmed:
        chk.notes.append(f"{len(failing)} cases failed at 100 bits but passed at 200 bits (evaluator width, not the code)")
    for i in list(range(0, len(cases), max(1, len(cases) // 5)))[:5]:
        c, r = cases[i], res[i]
        chk.sample({"case": {"mode": c["mode"], "tag": c["tag"], "ls": c["ls"][:6], "ns": c["ns"][:6], "len": len(c["ls"])},
                    "observed": {"ztrap": r.get("st", {}).get("ztrap"), "cw_z": r.get("cw", {}).get("z"),
                                 "coq": out.get(i)}})


def replay(data):
    import tempfile
    rp = data["replay"]
    cs = [rp["case"]] + ([rp["partner"]] if "partner" in rp else [])
    r = subprocess.run([common.PY, os.path.join(common.VERIF, "harness", "c02_child.py")], input=json.dumps(cs),
                       capture_output=True, text=True, env=common.child_env())
    res = json.loads(r.stdout)
    partner = (cs[1], res[1]) if len(cs) > 1 else None
    bad = direct_predicate(cs[0], res[0], partner)
    coq = None
    if not bad and rp.get("coq_check") and not any("error" in res[0].get(k, {}) for k in ("st", "cw")):
        # re-decide inside Coq (200 bits) whether today's outputs lie within tol of the real quadrature
        lit, labs = case_literal(cs[0], res[0])
        txt = (common.COQ_HEADER + "From NessaiV Require Import Lib.Enclose Model.C02_Quadrature Run.C02_run.\n"
               f"Definition c0 : case := {lit}.\nEval vm_compute in (diag_case P200 c0).\n")
        with tempfile.TemporaryDirectory() as d:
            path = os.path.join(d, "replay_case.v")
            open(path, "w").write(txt)
            rc = subprocess.run(["timeout", "1700", "coqc", "-Q", common.COQ, "NessaiV", path], capture_output=True,
                                text=True, cwd=d)
        evs = common.parse_evals(rc.stdout)
        if rc.returncode != 0 or len(evs) != 1:
            print(rc.stderr[-2000:])
            bad = [("coq", "the case could not be evaluated in Coq")]
        else:
            idx, ratios = parse_diag(evs[0])
            coq = {"failing_groups": [labs[g] if g < len(labs) else g for g in idx], "ratios": ratios}
            bad = [("outside-enclosure:" + str(labs[g] if g < len(labs) else g),
                    f"{labs[g] if g < len(labs) else g} outside the tolerance of the real quadrature "
                    f"({ratios[g] if g < len(ratios) else '?'} x tol)") for g in idx]
    print(json.dumps({"case": cs[0], "observed": res[0], "coq": coq, "failures": bad}, indent=1)[:6000])
    if bad:
        print(f"VIOLATION property={PID} replay=(replayed) {bad[0][1]}")
        return 1
    return 0
