"""C11: a process kill during checkpointing never leaves the run unresumable."""
import json
import os
import re
import sys
import threading

import common
from common import cL, cT

sys.path.insert(0, common.VERIF + "/translator")

PID = "C11"
IMPORTS = "From NessaiV Require Import Lib.FSModel Model.C11_Checkpoint Proofs.C11_FS_proofs Proofs.C11_Checkpoint_proofs Run.C11_run.\n"

KWARGS = {
    "std": {"nlive": 50, "plot": False, "seed": 1, "signal_handling": False, "checkpoint_on_iteration": True,
            "checkpoint_interval": 40, "max_iteration": 200},
    "ins": {"importance_nested_sampler": True, "nlive": 100, "min_samples": 20, "plot": False, "seed": 1,
            "signal_handling": False, "max_iteration": 3, "flow_config": {"n_blocks": 2, "n_neurons": 8},
            "training_config": {"max_epochs": 20}, "checkpoint_interval": 1, "checkpoint_on_iteration": True},
}
BASES = {
    "std_late": {"sampler": "std"},                                     # flow phase, 3 trainings, pickle + .old, model.pt + .old
    "std_early": {"sampler": "std", "kwargs": {"max_iteration": 30, "checkpoint_interval": 10}},   # uninformed phase, no weights yet
    "ins": {"sampler": "ins"},                                          # 3 levels, pickle without .old
    # still running (2 levels done, will not stop before iteration 5): the resumed sampler has to train again
    "ins_mid": {"sampler": "ins", "kwargs": {"max_iteration": 6, "min_iteration": 5}, "stop_after": 2},
    # one directory per training (training/block_k/model.pt) and a training every 25 iterations
    "std_blocks": {"sampler": "std", "kwargs": {"save_training_data": True, "training_frequency": 25,
                                                "max_iteration": 150}},
}

HAND = {
    "sk_dump_keep": "(safe_file_dump_ops true)",
    "sk_dump_nokeep": "(safe_file_dump_ops false)",
    "sk_save_w": "save_weights_ops",
    "sk_save_w_ins": "save_weights_ops",
    "rc_now": "rc_today",
    "rh_now": "KeepPickled",
    "sk_train_ins": "train_ops_today",
    "sk_train_std": "train_ops_today",
}


# ---------------------------------------------------------------------------------------------
# tie A
# ---------------------------------------------------------------------------------------------
def translate(chk):
    import c11_ops
    from pyast import Declined
    status, defs = {}, dict(HAND)
    for key, fn in (("sk_dump_keep", lambda: c11_ops.safe_file_dump(True)[0]),
                    ("sk_dump_nokeep", lambda: c11_ops.safe_file_dump(False)[0]),
                    ("sk_save_w", lambda: c11_ops.flowmodel_save_weights()[0]),
                    ("sk_save_w_ins", lambda: c11_ops.importance_save_weights()[0]),
                    ("rc_now", c11_ops.reader_config),
                    ("rh_now", lambda: c11_ops.resume_holder()[0]),
                    ("sk_train_ins", lambda: c11_ops.training_ops("ins")),
                    ("sk_train_std", lambda: c11_ops.training_ops("std"))):
        try:
            defs[key] = fn()
            status[key] = "translated: " + defs[key]
        except Declined as e:
            status[key] = f"declined: {e} (hand copy used; correspondence decides)"
        except Exception as e:  # a translator crash is a decline, never a verdict
            status[key] = f"declined: translator error {type(e).__name__}: {e}"
    try:
        status["checkpoint_call"] = c11_ops.checkpoint_call()
    except Declined as e:
        status["checkpoint_call"] = f"declined: {e}"
    chk.translator = status
    return defs


def defs_text(defs):
    t = ""
    for k in ("sk_dump_keep", "sk_dump_nokeep", "sk_save_w", "sk_save_w_ins"):
        t += f"Definition {k} : writer := {defs[k]}.\n"
    t += f"Definition rc_now : rcfg := {defs['rc_now']}.\n"
    t += f"Definition rh_now : rholder := {defs['rh_now']}.\n"
    t += f"Definition sk_train_ins : trainer := {defs['sk_train_ins']}.\n"
    t += f"Definition sk_train_std : trainer := {defs['sk_train_std']}.\n"
    return t


def today(chk, defs):
    txt = common.COQ_HEADER + IMPORTS + defs_text(defs)
    txt += ("Lemma today : c11_ok rc_now sk_dump_keep sk_dump_nokeep sk_save_w sk_save_w_ins = true.\n"
            "Proof. vm_compute. reflexivity. Qed.\n")
    # two kills: the resumed sampler checkpoints to the file name it holds after the resume
    txt += ("Lemma today_two : c11_two_ok rc_now rh_now sk_dump_keep sk_dump_nokeep = true.\n"
            "Proof. vm_compute. reflexivity. Qed.\n")
    # a killed training (directory creation + weights save) can be run again by the resumed sampler
    txt += ("Lemma today_train : train_reusable_ins sk_train_ins && train_reusable_std sk_train_std = true.\n"
            "Proof. vm_compute. reflexivity. Qed.\n")
    # instantiating the soundness theorems on today's skeletons = the property for this source
    txt += """
Lemma today_parts :
  pickle_checker rc_now sk_dump_keep std_pickle_scens = true /\\
  pickle_checker rc_now sk_dump_nokeep std_pickle_scens = true /\\
  pickle_checker rc_now sk_dump_keep ins_pickle_scens = true /\\
  pickle_checker rc_now sk_dump_nokeep ins_pickle_scens = true /\\
  weights_writer_ok rc_now sk_save_w WT std_weights_scens = true /\\
  ins_weights_writer_ok rc_now sk_save_w_ins ins_weights_scens = true.
Proof. repeat split; vm_compute; reflexivity. Qed.

Section TodayProperty.
Variable B : Type.
Variable bytes : payload -> list B.
Variable decode : list B -> option payload.
Hypothesis H1 : forall p, decode (bytes p) = Some p.
Hypothesis H2 : forall p j, j < List.length (bytes p) -> decode (firstn j (bytes p)) = None.
Hypothesis H3 : decode [] = None.

Lemma today_property_pickle : forall mk scens,
  In (mk, scens) [(sk_dump_keep, std_pickle_scens); (sk_dump_nokeep, std_pickle_scens);
                  (sk_dump_keep, ins_pickle_scens); (sk_dump_nokeep, ins_pickle_scens)] ->
  forall s, In s scens -> forall c0 : cstate B,
    ahnd (s_init s) = None -> chnd c0 = None -> (forall f, classify decode (cfs c0) f = afs (s_init s) f) ->
  forall n j o, In o (resume rc_now (classify decode (crash_exec bytes (mk PKL (s_new s)) c0 n j))) ->
    property_outcome s o.
Proof.
  intros mk scens Hin. destruct today_parts as (P1 & P2 & P3 & P4 & _).
  assert (Hc : pickle_checker rc_now mk scens = true).
  { simpl in Hin. destruct Hin as [E|[E|[E|[E|[]]]]]; inversion E; subst; assumption. }
  exact (pickle_checker_sound_closed B bytes decode H1 H2 H3 rc_now mk scens Hc).
Qed.

Lemma today_property_two_kills : forall mk scens,
  In (mk, scens) [(sk_dump_keep, std_pickle_scens); (sk_dump_nokeep, std_pickle_scens);
                  (sk_dump_keep, ins_pickle_scens); (sk_dump_nokeep, ins_pickle_scens)] ->
  forall s, In s scens -> legal (s_init s) (mk PKL (s_new s)) = true -> forall c0 : cstate B,
    ahnd (s_init s) = None -> chnd c0 = None -> (forall f, classify decode (cfs c0) f = afs (s_init s) f) ->
  forall n1 j1 o1 src,
    In (o1, src) (resume_src rc_now (classify decode (crash_exec bytes (mk PKL (s_new s)) c0 n1 j1))) ->
  forall n2 j2 o2,
    In o2 (resume rc_now (classify decode
            (crash_exec bytes (mk (holder rh_now src) (next_payload (s_new s)))
               {| cfs := crash_exec bytes (mk PKL (s_new s)) c0 n1 j1; chnd := None |} n2 j2))) ->
    second_outcome o1 (next_payload (s_new s)) o2.
Proof.
  intros mk scens Hin s Hs Hl.
  assert (Hc : two_crash_checker rc_now rh_now mk scens = true).
  { pose proof today_two as T. unfold c11_two_ok in T.
    apply andb_prop in T. destruct T as [T T4]. apply andb_prop in T. destruct T as [T T3].
    apply andb_prop in T. destruct T as [T1 T2].
    simpl in Hin. destruct Hin as [E|[E|[E|[E|[]]]]]; inversion E; subst; assumption. }
  unfold two_crash_checker in Hc. rewrite forallb_forall in Hc.
  exact (two_crash_sound B bytes decode H1 H2 H3 rc_now rh_now mk s _ (Hc s Hs) Hl).
Qed.

Lemma today_property_train_ins : forall ws d0, In ws ins_weights_scens ->
  In d0 [no_dirs; dupd no_dirs (match fst ws with Base (Lvl n) => DLvl n | _ => DLvl 0 end)] ->
  let tops := sk_train_ins (match fst ws with Base (Lvl n) => DLvl n | _ => DLvl 0 end) (fst ws) (s_new (snd ws)) in
  forall c0 : cstate B, sim B bytes decode c0 (s_init (snd ws)) ->
  forall n j, exists v,
    (forall f, classify decode (cview (cexec bytes (tfiles (firstn n tops)) c0) j) f = v f)
    /\\ run_ok (closed v) (dexec (firstn n tops) d0) tops = true.
Proof.
  intros ws d0 Hw Hd tops. pose proof today_train as T. apply andb_prop in T. destruct T as [T _].
  unfold train_reusable_ins in T. rewrite forallb_forall in T. specialize (T ws Hw).
  rewrite forallb_forall in T.
  exact (train_reusable_sound B bytes decode H1 H2 H3 tops _ d0 (T d0 Hd)).
Qed.

Lemma today_property_weights : forall s, In s std_weights_scens -> forall c0 : cstate B,
    ahnd (s_init s) = None -> chnd c0 = None -> (forall f, classify decode (cfs c0) f = afs (s_init s) f) ->
  forall n j o, In o (resume rc_now (classify decode (crash_exec bytes (sk_save_w WT (s_new s)) c0 n j))) ->
    o <> Fail /\\ (In o (resume rc_now (afs (s_init s)))
                  \\/ In o (resume rc_now (afs (aexec (sk_save_w WT (s_new s)) (s_init s))))).
Proof.
  intros s Hs. destruct today_parts as (_ & _ & _ & _ & P5 & _).
  unfold weights_writer_ok in P5. rewrite forallb_forall in P5.
  exact (atomic_sound_closed B bytes decode H1 H2 H3 rc_now _ _ (P5 s Hs)).
Qed.

Lemma today_property_ins_weights : forall ws, In ws ins_weights_scens -> forall c0 : cstate B,
    ahnd (s_init (snd ws)) = None -> chnd c0 = None ->
    (forall f, classify decode (cfs c0) f = afs (s_init (snd ws)) f) ->
  forall n j o,
    In o (resume rc_now (classify decode (crash_exec bytes (sk_save_w_ins (fst ws) (s_new (snd ws))) c0 n j))) ->
    o <> Fail /\\ (In o (resume rc_now (afs (s_init (snd ws))))
                  \\/ In o (resume rc_now (afs (aexec (sk_save_w_ins (fst ws) (s_new (snd ws))) (s_init (snd ws)))))).
Proof.
  intros ws Hs. destruct today_parts as (_ & _ & _ & _ & _ & P6).
  unfold ins_weights_writer_ok in P6. rewrite forallb_forall in P6.
  exact (atomic_sound_closed B bytes decode H1 H2 H3 rc_now _ _ (P6 ws Hs)).
Qed.
End TodayProperty.
"""
    ok, _, err = chk.coq_run("today", txt)
    chk.oblige("today: c11_ok, c11_two_ok (two kills, writer on the file the resumed sampler holds) and train_reusable "
               "(a killed training - makedirs + weights save - can be run again in what the kill left) on the regenerated "
               "writers (safe_file_dump keep/no-keep, FlowModel.save_weights, ImportanceFlowModel.save_weights), reader "
               "configuration and resume_file holder + instantiated soundness theorems",
               "today", ok, err)
    if not ok:
        # explanation output of the checker: which scenario / crash state is unsafe
        ex = common.COQ_HEADER + IMPORTS + defs_text(defs)
        ex += "Eval vm_compute in (firstn 3 (explain rc_now sk_dump_keep PKL std_pickle_scens)).\n"
        ex += "Eval vm_compute in (firstn 3 (explain rc_now sk_dump_nokeep PKL std_pickle_scens)).\n"
        ex += "Eval vm_compute in (firstn 3 (explain rc_now sk_save_w WT std_weights_scens)).\n"
        ok2, evals, _ = chk.coq_run("today_explain", ex)
        chk.notes.append("checker explanation (scenario index, unsafe crash-state indices) for dump_keep / "
                         "dump_nokeep / save_weights: " + " | ".join(evals) if ok2 else "explanation unavailable")
    return ok


# ---------------------------------------------------------------------------------------------
# cases
# ---------------------------------------------------------------------------------------------
def gen_cases(chk):
    q = chk.tier == "quick"
    cuts_q = [0, 1, 0.5, -1]
    cuts_t = [0, 1, 2, 0.1, 0.25, 0.5, 0.75, 0.9, 0.99, -2, -1]
    cuts = cuts_q if q else cuts_t
    stale_torn = ["copy", "PKL", "PKL.temp", 0.5]
    stale_whole = ["copy", "PKL", "PKL.temp", None]
    cases = []

    def add(cid, base, steps, expand=True, **kw):
        for i, st in enumerate(steps):
            st["mark"] = 2 + i
        c = {"id": cid, "base": base, "steps": steps}
        if expand:
            c["expand"] = {"cuts": kw.get("cuts", cuts)}
            if kw.get("only"):
                c["expand"]["only_kinds"] = kw["only"]
        cases.append(c)

    W = lambda writer, manip=(), cont=False: {"writer": writer, "manip": list(manip), "cont": cont}
    # --- standard sampler, late checkpoint (flow phase; pickle + .old, model.pt + .old)
    add("std-late-ckpt", "std_late", [W("checkpoint", cont=not q)])
    add("std-late-ckpt-nokeep", "std_late", [W("checkpoint_nokeep")])
    add("std-late-weights", "std_late", [W("save_weights")])
    add("std-late-train", "std_late", [W("train", cont=True)], only=["write"], cuts=[0.5] if q else cuts)
    add("std-late-ckpt-noold-staletorn", "std_late", [W("checkpoint", [["rm", "PKL.old"], stale_torn])],
        only=["move", "write"] if q else None, cuts=[0.5] if q else cuts)
    # --- standard sampler, early checkpoint (uninformed phase, no weights)
    add("std-early-first-ckpt", "std_early", [W("checkpoint", [["rm", "PKL"], ["rm", "PKL.old"]])])
    add("std-early-ckpt", "std_early", [W("checkpoint", cont=True)], only=["move"] if q else None)
    # --- importance sampler
    add("ins-ckpt", "ins", [W("checkpoint", cont=not q)])
    add("ins-ckpt-keep", "ins", [W("checkpoint_keep")], only=["move", "write"] if q else None,
        cuts=[0.5] if q else cuts)
    add("ins-weights", "ins", [W("save_weights")])
    add("ins-weights-stale-level", "ins", [W("save_weights", [["copy", "LVL2", "LVL3", 0.5]])],
        only=["move", "open", "write"] if q else None, cuts=[0.5] if q else cuts)
    add("ins-train", "ins", [W("train")], only=["write"], cuts=[0.5] if q else cuts)
    # --- kill, resume, kill again inside the next weights save (known finding: residual of D3)
    s1 = dict(W("train"), k=3, j=5000)
    add("std-second-kill", "std_late", [s1, dict(W("train"), k=3, j=7000)], expand=False)
    # --- two kills around a resume: kill during a checkpoint, resume, kill during the RESUMED sampler's next
    #     checkpoint.  First kill before the final rename (second "move" event): the resume file is gone, the
    #     resume goes through the .old fallback.
    via_old = lambda wr: dict(W(wr), kk=["move", 2])
    add("std-two-kills-via-old", "std_late", [via_old("checkpoint"), W("checkpoint", cont=True)],
        only=["move", "open", "write"] if q else None, cuts=[0.5] if q else cuts)
    add("ins-two-kills-via-old", "ins", [via_old("checkpoint_keep"), W("checkpoint_keep")],
        only=["move", "open", "write"] if q else None, cuts=[0.5] if q else cuts)
    # first kill inside the write of the temp file: the resume reads the .old copy as well (keep) / the primary
    add("std-two-kills-in-write", "std_late", [dict(W("checkpoint"), k=3, j=9000), W("checkpoint")],
        only=["move"] if q else None, cuts=[0.5] if q else cuts)
    # --- "sampling can continue": kill inside the weights save of level / block k (or between that save and the
    #     next checkpoint: the reference run), resume, and go on for one more level / training and checkpoint
    add("ins-train-continue", "ins_mid", [W("train", cont=True)], only=["write"], cuts=[0.5] if q else cuts)
    add("std-blocks-train-continue", "std_blocks", [W("train", cont=30)], only=["write"], cuts=[0.5] if q else cuts)
    if not q:
        add("ins-train-continue-all", "ins_mid", [W("train", cont=True)], only=["exists", "move", "open", "close"])
        add("ins-ckpt-continue", "ins_mid", [W("checkpoint", cont=True)], cuts=[0.5])
        add("std-blocks-ckpt-continue", "std_blocks", [W("checkpoint", cont=30)], cuts=[0.5])
        add("std-blocks-train-continue-all", "std_blocks", [W("train", cont=30)], only=["exists", "move", "open", "close"])
        add("std-early-two-kills-via-old", "std_early", [via_old("checkpoint"), W("checkpoint", cont=True)])
        add("std-two-kills-via-old-nokeep", "std_late", [via_old("checkpoint"), W("checkpoint_nokeep")])
        add("ins-two-kills-primary", "ins", [dict(W("checkpoint"), k=1, j=9000), W("checkpoint")])
        add("std-three-kills-via-old", "std_late",
            [via_old("checkpoint"), dict(W("checkpoint"), kk=["move", 1]), W("checkpoint")])
        add("std-late-ckpt-onlyold", "std_late", [W("checkpoint", [["rm", "PKL"]])])
        add("std-late-ckpt-stalewhole", "std_late", [W("checkpoint", [stale_whole])])
        add("std-late-nokeep-onlyold", "std_late", [W("checkpoint_nokeep", [stale_torn, ["rm", "PKL"]])])
        add("std-late-weights-noold", "std_late", [W("save_weights", [["rm", "WT.old"]])])
        add("std-early-first-ckpt-nokeep", "std_early", [W("checkpoint_nokeep", [["rm", "PKL"], ["rm", "PKL.old"]])])
        add("ins-first-ckpt", "ins", [W("checkpoint", [["rm", "PKL"]])])
        add("ins-ckpt-keep-staletorn", "ins", [W("checkpoint_keep", [stale_torn])])
        add("ins-weights-stale-whole", "ins", [W("save_weights", [["copy", "LVL2", "LVL3", None]])])
        # after a torn primary: every later weights save is unsafe (same known finding)
        add("std-second-save-after-torn", "std_late", [s1, W("train")])
        add("std-ckpt-after-torn", "std_late", [s1, W("checkpoint")])
        add("std-torn-ckpt-train-complete", "std_late",
            [s1, dict(W("checkpoint"), k=None), dict(W("train"), k=None)], expand=False)
    return cases


# ---------------------------------------------------------------------------------------------
# Coq literals
# ---------------------------------------------------------------------------------------------
class Names:
    """Renames version strings and weights digests to small numbers, per step."""

    def __init__(self):
        self.v, self.d = {}, {}

    def ver(self, s):
        return self.v.setdefault(s, len(self.v))

    def dig(self, s):
        return self.d.setdefault(s, len(self.d) + 100)


def view_lit(view, nm):
    items = []
    for e in view:
        if e["state"] == "bad":
            c = "Bad"
        elif e["kind"] == "pk":
            c = f"(Whole (PkP {nm.ver(e['ver'])} {e['w']}))"
        else:
            c = f"(Whole (WtP {nm.dig(e['digest'])}))"
        items.append(cT(e["name"], c))
    return cL(items)


def outcome_lit(res, post_view, nm):
    if res["outcome"] == "fail":
        return "Fail"
    if res["outcome"] == "fresh":
        return "Fresh"
    w = None
    for pref in ("(Base Pkl)", "(Old (Base Pkl))"):
        for e in post_view:
            if e["name"] == pref and e["state"] == "whole" and e["ver"] == res["ver"] and w is None:
                w = e["w"]
    if w is None:
        return None
    ws = cL([f"WtP {nm.dig(d)}" for d in res.get("weights", [])])
    return f"(Loaded (PkP {nm.ver(res['ver'])} {w}) {ws})"




def fname_ok(s):
    """Is s a well-formed Coq term of type fname (Base role under Old / Temp)?"""
    s = (s or "").strip()
    while True:
        m = re.fullmatch(r"\((Old|Temp) (.*)\)", s)
        if not m:
            break
        s = m.group(2).strip()
    return bool(re.fullmatch(r"\(Base (Pkl|Wt|\((Lvl|Blk|Other) \d+\))\)", s))


def wspec_ok(s):
    s = (s or "").strip()
    if s == "NoW" or re.fullmatch(r"\(InsW \d+\)", s):
        return True
    m = re.fullmatch(r"\(StdW (.*)\)", s)
    return bool(m and fname_ok(m.group(1)))


def sanitise(step, chk):
    """Every name / weights reference the child reported becomes a well-typed literal (catch-all: Base (Other 0))."""
    n = 0
    for key in ("init_view", "post_view"):
        for e in step.get(key) or []:
            if not fname_ok(e.get("name")):
                e["name"], n = "(Base (Other 0))", n + 1
            if e.get("kind") == "pk" and e.get("state") == "whole" and not wspec_ok(e.get("w")):
                e["w"], n = "(StdW (Base (Other 0)))", n + 1
    if "new_w" in step and not wspec_ok(step["new_w"]):
        step["new_w"], n = "(StdW (Base (Other 0)))", n + 1
    if step.get("held") and not fname_ok(step["held"]):
        step["held"], n = "(Base (Other 0))", n + 1
    for e in step.get("events") or []:
        for k in ("f", "a", "b"):
            if k in e and not fname_ok(e[k]):
                e[k], n = "(Base (Other 0))", n + 1
    if n:
        chk.count("literals mapped to the catch-all name", n)


def role_of(writer):
    return "pickle" if writer.startswith("checkpoint") else "weights"


def ops_term(step, sampler, nm):
    """Coq term for the op list of this step, and the file written."""
    wr = step["writer"]
    if role_of(wr) == "pickle":
        keep = {"checkpoint": sampler == "std", "checkpoint_keep": True, "checkpoint_nokeep": False}[wr]
        sk = "sk_dump_keep" if keep else "sk_dump_nokeep"
        held = step.get("held") or "(Base Pkl)"      # the file this (possibly resumed) sampler checkpoints to
        return f"({sk} {held} (PkP {nm.ver(step['new_ver'])} {step['new_w']}))", held
    target = None
    for e in step["events"]:
        target = e.get("f") or e.get("a")
        if target:
            break
    if target is None:
        return None, None
    m = re.fullmatch(r"\(Base \(Lvl \d+\)\)|\(Base \(Blk \d+\)\)|\(Base Wt\)", target)
    if not m:
        return None, None
    if "new_digest" not in step:
        # killed before torch.save serialised anything: no new content exists yet
        step = dict(step, new_digest="<unborn>")
    sk = "sk_save_w" if sampler == "std" else "sk_save_w_ins"
    return f"({sk} {target} (WtP {nm.dig(step['new_digest'])}))", target


def prim_lit(events):
    out = []
    for e in events:
        if e["ev"] == "move":
            out.append(f"PMove {e['a']} {e['b']}")
        elif e["ev"] == "open":
            out.append(f"POpen {e['f']}")
        elif e["ev"] == "write":
            out.append("PWrite")
        elif e["ev"] == "close":
            out.append("PClose")
        elif e["ev"] in ("exists", "wbytes"):
            pass
        else:
            out.append("PUnknown")      # e.g. os.remove inside a writer: no model operation, decided as a mismatch
    return cL(out)


# ---------------------------------------------------------------------------------------------
# direct predicate (the property on the implementation alone)
# ---------------------------------------------------------------------------------------------
def whole(view, name):
    for e in view or []:
        if e["name"] == name and e["state"] == "whole":
            return e
    return None


def direct_predicate(step):
    """Returns (what, why) for a failure, else None."""
    init, res = step.get("init_view"), step["resume"]
    if init is None:
        return None
    prev = whole(init, "(Base Pkl)") or whole(init, "(Old (Base Pkl))")
    prev_ver = prev["ver"] if prev else None
    role = role_of(step["writer"])
    allowed_ver = {prev_ver} if prev_ver else set()
    if role == "pickle" and "new_ver" in step:
        allowed_ver.add(step["new_ver"])
    good_w = {e["digest"] for e in init if e["state"] == "whole" and e.get("kind") == "wt"}
    if "new_digest" in step:
        good_w.add(step["new_digest"])
    if res["outcome"] == "fail":
        return ("resume-failed:" + str(res.get("exc")), f"FlowSampler(resume=True) raised {res.get('exc')}: {res.get('msg', '')[:160]}")
    if res["outcome"] == "fresh":
        if prev_ver is not None:
            return ("fresh-despite-checkpoint", "a complete checkpoint existed but the run started afresh")
        return None
    if res["ver"] not in allowed_ver:
        return ("loaded-other-checkpoint", f"resumed from {res['ver']}, neither the previous ({prev_ver}) nor the new "
                                           f"({step.get('new_ver') if role == 'pickle' else '-'}) checkpoint")
    for d in res.get("weights", []):
        if d not in good_w:
            return ("weights-not-restored", f"flow weights {d} are neither a previous nor the new complete weights file")
    loaded = None
    for e in step.get("post_view") or []:
        if e["name"] in ("(Base Pkl)", "(Old (Base Pkl))") and e["state"] == "whole" and e["ver"] == res["ver"]:
            loaded = loaded or e
    if loaded and loaded["w"].startswith("(StdW") and not res.get("weights"):
        return ("weights-not-restored", "the checkpoint refers to a weights file but no weights were loaded")
    if loaded and loaded["w"].startswith("(InsW"):
        n = int(loaded["w"][6:-1])
        if len(res.get("weights", [])) != n:
            return ("weights-not-restored", f"{len(res.get('weights', []))} level flows loaded, checkpoint has {n}")
    c = step.get("continued")
    if c is not None and not c.get("continued"):
        return ("cannot-continue:" + str(c.get("exc")),
                f"sampling could not continue after the resume: {c.get('exc')}: {c.get('msg', '')[:160]}")
    if c is not None and not c.get("was_finished"):
        if c["to"] <= c["from"]:
            return ("cannot-continue:no-progress", f"the resumed run did not advance (iteration {c['from']} -> {c['to']})")
        if c.get("checkpoint_iteration") != c["to"]:
            return ("cannot-continue:no-newer-checkpoint", f"after continuing to iteration {c['to']} the checkpoint on disk is "
                                                           f"{c.get('checkpoint_iteration')}")
    return None


def init_cond(step):
    for e in step.get("init_view") or []:
        if e["name"] == "(Base Wt)" and e["state"] == "bad":
            return "weights-primary-torn"
    return "clean"


# ---------------------------------------------------------------------------------------------
def run_children(chk, cases, nworkers):
    # longest-processing-time first: a case costs (number of steps) x (reference + one run per crash point)
    def cost(c):
        exp = c.get("expand")
        if not exp:
            return len(c["steps"]) * 2
        kinds = exp.get("only_kinds") or ["exists", "move", "open", "write", "close", "move"]
        pts = sum(len(exp.get("cuts", [0])) if k == "write" else 1 for k in kinds)
        return len(c["steps"]) * (1 + pts) * 2 + (4 if c["steps"][-1].get("cont") else 0)
    shards, load = [[] for _ in range(nworkers)], [0] * nworkers
    for c in sorted(cases, key=cost, reverse=True):
        i = load.index(min(load))
        shards[i].append(c)
        load[i] += cost(c) + (8 if not any(x["base"] == c["base"] for x in shards[i][:-1]) else 0)
    shards = [s for s in shards if s]
    outs = [None] * len(shards)

    import time as _time
    t_child0 = _time.time()

    def work(i):
        job = {"root": os.path.join(chk.build, f"w{i}"), "timeout": 180, "kwargs": KWARGS,
               "bases": {b: BASES[b] for b in sorted({c["base"] for c in shards[i]})}, "cases": shards[i]}
        rc, out, err = chk.child("c11_child.py", timeout=1500 if chk.tier == "quick" else 3000, inp=json.dumps(job))
        try:
            outs[i] = json.loads(out)
        except ValueError:
            outs[i] = {"error": f"rc={rc} {err[-1500:]}"}
        chk.notes.append(f"worker {i}: {len(shards[i])} cases ({', '.join(c['id'] for c in shards[i])}) "
                         f"{_time.time() - t_child0:.0f} s")

    ths = [threading.Thread(target=work, args=(i,)) for i in range(len(shards))]
    for t in ths:
        t.start()
    for t in ths:
        t.join()
    return outs


def balance(cases):
    """Order cases so that round-robin sharding spreads the expensive ones."""
    return sorted(cases, key=lambda c: (c["base"], c["id"]))


def run(chk):
    chk.rule = ("crash points: every file-system event (exists / move / open / write run / close / rename) of the real "
                "checkpoint and weights writers on real run directories of both samplers (early = uninformed phase, "
                "late = flow phase, importance sampler with 3 levels), write runs cut after j bytes for j over a set of "
                "fractions; initial directories varied (no checkpoint yet, only .old, stale torn/complete .temp, stale "
                "level file, torn model.pt left by an earlier kill) and two-kill histories (kill, resume - through the .old "
                "fallback or not -, kill during the resumed sampler's next checkpoint, resume); non-trivial = the kill left a directory that "
                "differs from both the initial and the final one or a file open; distinct by (case id, k, j)")
    chk.assumptions += [
        "rename (shutil.move / os.replace on one file system) is atomic; crash = process kill (os._exit), not power loss: "
        "no fsync / durability modelling",
        "oracle: a complete pickle / torch zip file loads to what was written; a proper prefix of one (and the empty "
        "file) is rejected: pickle raises EOFError or UnpicklingError, torch.load raises EOFError, OSError or "
        "RuntimeError (validated on every torn file the injector produced)",
        "torch.save(obj, path) is observed through an equivalent open/write/close of the same bytes (torch writes "
        "through its own C++ file writer, which cannot be interrupted from Python)",
        "the flow weights are auxiliary state: resuming checkpoint p with the weights of a later training is accepted "
        "(it is what an uncrashed kill between training and the next checkpoint gives as well)",
    ]
    chk.static_props(["C11"], ["C11_run"])
    defs = translate(chk)
    today(chk, defs)

    cases = balance(gen_cases(chk))
    outs = run_children(chk, cases, 6 if chk.tier == "quick" else 8)
    results = []
    for o in outs:
        if o is None or "error" in o:
            chk.oblige("implementation child ran", "harness", False, (o or {}).get("error", "no output"))
            return
        for b, info in o["bases"].items():
            if "error" in info:
                chk.oblige(f"base run {b} completed", "harness", False, info["error"])
                return
        results += o["results"]
    job_ctx = {"kwargs": KWARGS, "bases": BASES}

    traces, states, outcomes, atomics = [], [], [], []
    trace_src, state_src, outcome_src = [], [], []
    outcomes_short, outcome_short_src = [], []
    bad_pk, bad_wt = {}, {}
    for r in results:
        if "error" in r:
            chk.oblige(f"case {r['id']} ran", "harness", False, r["error"])
            continue
        sampler = BASES[r["case"]["base"]]["sampler"]
        for si, step in enumerate(r["steps"]):
            if "skipped" in step:
                chk.count("skipped:" + step["skipped"][:40])
                continue
            if "harness_error" in step:
                chk.oblige(f"case {r['id']} step {si} ran", "harness", False, step["harness_error"])
                continue
            if step.get("init_view") is None or step.get("post_view") is None:
                chk.oblige(f"case {r['id']} step {si} reported its views", "harness", False, json.dumps(step)[-800:])
                continue
            chk.evaluations += 1
            sanitise(step, chk)
            role = role_of(step["writer"])
            crash = step.get("crash")
            ckind = (crash or {}).get("crash", "none") + ":" + (crash or {}).get("kind", "write" if crash else "-")
            chk.count(f"{sampler}:{role}:{ckind}")
            chk.count("outcome:" + step["resume"]["outcome"])
            cond = init_cond(step)
            chk.count("init:" + cond)
            cc = step.get("continued")
            if cc is not None:
                chk.count("continued:" + ("finished-run" if cc.get("was_finished") else
                                          f"+{cc.get('to', 0) - cc.get('from', 0)}it,{cc.get('trainings', 0)}trainings"
                                          if cc.get("continued") else "FAILED"))
            if crash:
                chk.nontriv((r["id"], si, step["k"], step["j"]))
            # oracle: exception classes of torn files
            short = False
            for e in step["post_view"]:
                if e["state"] == "bad":
                    cls = e["exc"]
                    if e["kind"] == "wt" and cls == "UnpicklingError" and 1 <= e["size"] <= 3:
                        cls, short = "UnpicklingError(1-3 bytes)", True
                    d = bad_pk if e["kind"] == "pk" else bad_wt
                    d[cls] = d.get(cls, 0) + 1
                    chk.oracle_validations += 1
            # ---- direct predicate
            why = direct_predicate(step)
            if why:
                key = f"C11:{sampler}:{role}:{cond}:{why[0]}"
                single = dict(r["case"], steps=r["case"]["steps"][: si + 1])
                single.pop("expand", None)
                chk.fail(key, f"{r['id']} step {si} ({step['writer']}, kill {ckind} k={step['k']} j={step['j']}): {why[1]}",
                         {"case": single, "job": job_ctx, "observed": {"resume": step["resume"],
                                                                      "post_view": step["post_view"]}})
            # ---- literals for the comparison inside Coq
            nm = Names()
            init_l = view_lit(step["init_view"], nm)
            ops, target = ops_term(step, sampler, nm)
            post_l = view_lit(step["post_view"], nm)
            if ops is None:
                chk.count("skipped:no-target")
                continue
            names = sorted({e["name"] for e in step["init_view"]} | {e["name"] for e in step["post_view"]}
                           | {target, f"(Old {target})", f"(Temp {target})"})
            if step.get("completed"):
                traces.append(cT(init_l, ops, prim_lit(step["events"])))
                trace_src.append(r["id"])
            states.append(cT(init_l, ops, cL(names), post_l))
            state_src.append(f"{r['id']}#{si}")
            o = outcome_lit(step["resume"], step["post_view"], nm)
            if o is None:
                chk.oblige(f"case {r['id']}: the loaded checkpoint is one of the files on disk", "correspondence", False,
                           json.dumps(step["resume"]))
            else:
                (outcomes_short if short else outcomes).append(cT(post_l, o))
                (outcome_short_src if short else outcome_src).append(f"{r['id']}#{si}")
            atomics.append((cT(init_l, ops), cond, bool(why), short))
            if len(chk.samples) < 6 and (crash or si):
                chk.sample({"case": r["id"], "step": si, "writer": step["writer"], "kill": crash,
                            "post_view": [(e["name"], e["state"], e.get("ver") or e.get("digest") or e.get("exc"))
                                          for e in step["post_view"]],
                            "resume": step["resume"]})

    # ---- oracle classes
    okp = set(bad_pk) <= {"EOFError", "UnpicklingError"}
    okw = set(bad_wt) <= {"EOFError", "OSError", "RuntimeError", "UnpicklingError(1-3 bytes)"}
    chk.oblige(f"oracle: torn pickles raise EOFError/UnpicklingError (seen {bad_pk}), torn weights raise "
               f"EOFError/OSError/RuntimeError, or UnpicklingError when only 1-3 bytes were written (seen {bad_wt})",
               "oracle", okp and okw, "")

    # ---- comparison inside Coq
    hdr = common.COQ_HEADER + IMPORTS + defs_text(defs)
    txt = hdr
    txt += f"Definition traces := {cL(traces)}.\nEval vm_compute in (mism chk_trace traces).\n"
    txt += f"Definition states := {cL(states)}.\nEval vm_compute in (mism chk_state states).\n"
    txt += f"Definition outcomes := {cL(outcomes)}.\nEval vm_compute in (mism (chk_outcome rc_now) outcomes).\n"
    txt += ("Definition rc_now_short : rcfg := {| rc_wcls := wcls_all; rc_catch1 := rc_catch1 rc_now; "
            "rc_try_old := rc_try_old rc_now; rc_wcatch := rc_wcatch rc_now; rc_wfallback := rc_wfallback rc_now; "
            "rc_welif_old := rc_welif_old rc_now; rc_wremove := rc_wremove rc_now |}.\n")
    txt += (f"Definition outcomes_short := {cL(outcomes_short)}.\n"
            "Eval vm_compute in (mism (chk_outcome rc_now_short) outcomes_short).\n")
    txt += (f"Definition atomics := {cL([a[0] for a in atomics])}.\nEval vm_compute in (mism (chk_atomic rc_now) atomics).\n"
            "Eval vm_compute in (mism (chk_atomic rc_now_short) atomics).\n")
    ok, evals, err = chk.coq_run("cases", txt)
    if not ok or len(evals) != 6:
        chk.oblige("correspondence batch evaluated in Coq", "correspondence", False, err)
        return
    bad = common.parse_nat_list(evals[0])
    chk.oblige(f"correspondence: file-system events of the uncrashed real writers = trace of the regenerated op list "
               f"({len(traces)} runs)", "correspondence", not bad, "mismatch in: " + ", ".join(trace_src[i] for i in bad[:6]))
    bad = common.parse_nat_list(evals[1])
    chk.oblige(f"correspondence: the directory found after each real kill is one of the model's crash states "
               f"({len(states)} kills)", "correspondence", not bad, "mismatch in: " + ", ".join(state_src[i] for i in bad[:6]))
    bad = common.parse_nat_list(evals[2])
    bad2 = common.parse_nat_list(evals[3])
    chk.oblige(f"correspondence: outcome of the real FlowSampler(resume=True) is one of the model reader's outcomes on "
               f"the classified directory ({len(outcomes)} resumes, {len(outcomes_short)} more with the 1-3 byte oracle)",
               "correspondence", not bad and not bad2,
               "mismatch in: " + ", ".join([outcome_src[i] for i in bad[:6]] + [outcome_short_src[i] for i in bad2[:6]]))
    # verdict of the checker on the real initial directories vs what happened (informational)
    unsafe = set(common.parse_nat_list(evals[4]))
    unsafe_short = set(common.parse_nat_list(evals[5]))
    unexplained = [i for i, a in enumerate(atomics) if a[2] and i not in (unsafe_short if a[3] else unsafe)]
    chk.notes.append(f"checker verdict on the {len(atomics)} real initial directories: {len(unsafe)} judged not crash-atomic "
                     f"(all of them with a torn model.pt left by an earlier kill: "
                     f"{all(atomics[i][1] == 'weights-primary-torn' for i in unsafe)}); real failures that started from a "
                     f"directory the checker accepts (under the oracle class actually observed): {len(unexplained)}")
    chk.traces = len(traces) + len(states) + len(outcomes) + len(outcomes_short)


def replay(data):
    import subprocess
    rp = data["replay"]
    job = {"root": os.path.join(common.BUILD_ROOT, "C11_replay"), "timeout": 180, "kwargs": rp["job"]["kwargs"],
           "bases": {rp["case"]["base"]: rp["job"]["bases"][rp["case"]["base"]]}, "cases": [rp["case"]]}
    r = subprocess.run(["timeout", "900", common.PY, os.path.join(common.VERIF, "harness", "c11_child.py")],
                       input=json.dumps(job), capture_output=True, text=True, env=common.child_env())
    try:
        out = json.loads(r.stdout)
    except ValueError:
        print("replay child failed:", r.stderr[-1500:])
        return 2
    rc = 0
    for res in out["results"]:
        step = res["steps"][-1]
        if "skipped" in step:
            step = res["steps"][-2]
        why = direct_predicate(step)
        print(json.dumps({"case": res["id"], "kill": step.get("crash"),
                          "post_view": [(e["name"], e["state"], e.get("ver") or e.get("digest") or e.get("exc"))
                                        for e in step.get("post_view") or []],
                          "resume": step["resume"], "failure": why}, indent=1))
        if why:
            print(f"VIOLATION property={PID} replay=(replayed) {why[0]}: {why[1]}")
            rc = 1
    return rc
