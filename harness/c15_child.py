"""C15 child: runs the REAL stopping logic of both samplers.  JSON on stdin, JSON on stdout.

mode "scripted": the real, unbound NestedSampler.initialise / nested_sampling_loop / finalise and
    ImportanceNestedSampler.configure_* / nested_sampling_loop / reached_tolerance / finalise on an object
    whose loop BODY is scripted from a generated oracle stream (histories of run() calls);
    reached_tolerance and configure_stopping_criterion on generated inputs.
mode "std":  real short standard-sampler runs; the condition is recorded around consume_sample (class
    level wrapper), then run() again and FlowSampler(resume=True).run() with counters and digests.
mode "ins":  real short importance-sampler runs; every criterion attribute and the samples they are
    computed from are recorded around compute_stopping_criterion; run again / resume.
"""
import datetime
import functools
import hashlib
import json
import math
import os
import shutil
import sys
import types

import numpy as np

INF = float("inf")


def num(x):
    """JSON-safe float"""
    x = float(x)
    if x == INF:
        return "inf"
    if x == -INF:
        return "-inf"
    if x != x:
        return "nan"
    return x


def unnum(x):
    return float(x) if isinstance(x, str) else float(x)


class OutOfStream(Exception):
    pass


# =================================================================================================
# scripted standard sampler
# =================================================================================================
def std_history(case):
    from nessai.samplers.nestedsampler import NestedSampler as NS
    o = types.SimpleNamespace()
    st = case["state"]
    o.condition = unnum(st["cond"])
    o.tolerance = unnum(case["tol"])
    o.iteration = st["it"]
    o.finalised = st["fin"]
    o.live_points = None if st["live"] is None else [{"logL": 0.0, "id": i} for i in st["live"]]
    o.nested_samples = [{"logL": 0.0, "id": i} for i in st["ns"]]
    o.max_iteration = np.inf if case["cap"] is None else case["cap"]
    o.prior_sampling = case["prior"]
    # a sampler that has run before (or was unpickled) carries initialised=True; a new one False
    o.initialised = not (st["live"] is None and not st["fin"] and st["it"] == 0)
    o.nlive = 5
    o.maximum_uninformed = 0
    o.uninformed_sampling = False
    for nm in ("_flow_proposal", "_uninformed_proposal"):
        pr = types.SimpleNamespace(initialised=False)
        pr.initialise = functools.partial(setattr, pr, "initialised", True)
        setattr(o, nm, pr)
    o.initialise = functools.partial(NS.initialise, o)
    o.proposal = None
    o._close_pool = False
    o.close_pool = lambda: None
    o.check_resume = lambda: None
    o.check_state = lambda *a, **k: None
    o.update_state = lambda *a, **k: None
    o.periodically_log_state = lambda: None
    o.check_insertion_indices = lambda *a, **k: None
    o.checkpoint = lambda *a, **k: None
    o.initialise_history = lambda: None
    o.state = types.SimpleNamespace(logZ=0.0, log_evidence_error=0.0, info=[0.0], increment=lambda *a, **k: None,
                                    finalise=lambda: None)
    o.log_evidence = 0.0
    o.sampling_time = o.training_time = o.proposal_population_time = datetime.timedelta()
    o.likelihood_evaluation_time = datetime.timedelta()
    o.likelihood_calls = 0
    o.finalise = functools.partial(NS.finalise, o)
    box = {"stream": [], "fresh": [], "n": 0}

    def populate():
        o.live_points = [{"logL": 0.0, "id": i} for i in box["fresh"]]

    def consume():
        if not box["stream"]:
            raise OutOfStream()
        c, new = box["stream"].pop(0)
        worst = o.live_points[0]          # TypeError when the live points are None, as in the real method
        o.nested_samples.append(worst)
        o.live_points = o.live_points[1:] + [{"logL": 0.0, "id": new}]
        o.condition = unnum(c)
        o.iteration += 1
        box["n"] += 1

    o.populate_live_points = populate
    o.consume_sample = consume
    out = []
    for call in case["calls"]:
        box["stream"] = list(call["stream"])
        box["fresh"] = list(call["fresh"])
        box["n"] = 0
        try:
            NS.initialise(o)
            NS.nested_sampling_loop(o)
        except OutOfStream:
            out.append({"oos": True, "n": box["n"]})
            break
        except Exception as e:
            out.append({"raised": type(e).__name__})
            break
        out.append({"n": box["n"], "cond": num(o.condition), "it": int(o.iteration), "fin": bool(o.finalised),
                    "live": None if o.live_points is None else [p["id"] for p in o.live_points],
                    "ns": [p["id"] for p in o.nested_samples]})
    return out


# =================================================================================================
# scripted importance sampler
# =================================================================================================
def make_fake_ins():
    from nessai.samplers.importancesampler import ImportanceNestedSampler as INS

    class Fake:
        reached_tolerance = INS.reached_tolerance               # the real property
        stopping_criterion_aliases = INS.stopping_criterion_aliases
        configure_stopping_criterion = INS.configure_stopping_criterion
        configure_iterations = INS.configure_iterations
        nested_sampling_loop = INS.nested_sampling_loop
        finalise = INS.finalise

    return Fake


def ins_history(case):
    Fake = make_fake_ins()
    o = Fake()
    try:
        o.configure_stopping_criterion(case["criteria"], case["tolerance"], case["check"])
        o.configure_iterations(case["min_it"], case["max_it"])
    except ValueError:
        return {"config_error": True}
    st = case["state"]
    if st["crit"] is not None:
        o.criterion = [unnum(c) for c in st["crit"]]
    o.iteration = st["it"]
    o.finalised = st["fin"]
    box = {"stream": [], "cur": None, "n": 0, "live": None if st["live"] is None else list(st["live"]),
           "dead": list(st["dead"])}
    o.initialise = lambda: None
    o._compute_gradient = lambda: None
    o.n_update = None
    o.threshold_method = "entropy"
    o.threshold_kwargs = {}
    o.live_points_unit = None
    o.determine_log_likelihood_threshold = lambda *a, **k: 0.0
    o.update_log_likelihood_threshold = lambda t: None
    o.add_new_proposal = lambda: None
    o.draw_constant = False
    o.replace_all = False
    o.nlive = 3
    o.add_new_proposal_weight = lambda *a: None
    o.update_evidence = lambda: None
    o.compute_importance = lambda **k: None
    o.log_state = lambda: None
    o.update_history = lambda: None
    o.plotting_frequency = 10 ** 9
    o.produce_plots = lambda *a, **k: None
    o.checkpointing = False
    o.checkpoint = lambda *a, **k: None
    o._train_final_flow = False
    o.draw_iid_live = False
    o.bootstrap = False
    o.samples_unit = None
    o.kl_divergence = lambda s: 0.0
    o.state = types.SimpleNamespace(logZ=0.0, compute_uncertainty=lambda: 0.0, effective_n_posterior_samples=1.0)
    o.log_evidence = 0.0
    o.samples = None
    o.nested_samples_unit = None
    o.training_time = o.draw_samples_time = o.add_and_update_samples_time = datetime.timedelta()
    o.likelihood_evaluation_time = datetime.timedelta()

    def remove_samples():
        if not box["stream"]:
            raise OutOfStream()
        box["cur"] = box["stream"].pop(0)
        nrem = box["cur"]["nrem"]
        box["dead"] += box["live"][:nrem]
        box["live"] = box["live"][nrem:]
        return nrem

    def add_points(n):
        box["live"] += list(box["cur"]["new"])

    def crit():
        box["n"] += 1
        return [unnum(c) for c in box["cur"]["crit"]]

    def store_finalise():
        box["dead"] += box["live"]
        box["live"] = None

    o.remove_samples = remove_samples
    o.add_and_update_points = add_points
    o.compute_stopping_criterion = crit
    o.training_samples = types.SimpleNamespace(finalise=store_finalise)
    out = {"configured": {"stopping_criterion": list(o.stopping_criterion), "tolerance": [num(t) for t in o.tolerance],
                          "stop_any": bool(o._stop_any), "min": int(o.min_iteration),
                          "max": None if o.max_iteration == np.inf else int(o.max_iteration),
                          "criterion0": [num(c) for c in o.criterion]}, "calls": []}
    for call in case["calls"]:
        box["stream"] = list(call["stream"])
        box["n"] = 0
        try:
            o.nested_sampling_loop()
        except OutOfStream:
            out["calls"].append({"oos": True, "n": box["n"]})
            break
        except Exception as e:
            out["calls"].append({"raised": type(e).__name__, "msg": str(e)[:200]})
            break
        out["calls"].append({"n": box["n"], "crit": [num(c) for c in o.criterion], "it": int(o.iteration),
                             "fin": bool(o.finalised), "live": None if box["live"] is None else list(box["live"]),
                             "dead": list(box["dead"])})
    return out


def run_reached(case):
    Fake = make_fake_ins()
    o = Fake()
    o.criterion = [unnum(c) for c in case["crit"]]
    o.tolerance = [unnum(t) for t in case["tol"]]
    o._stop_any = case["any"]
    try:
        return {"reached": bool(o.reached_tolerance)}
    except Exception as e:
        return {"raised": type(e).__name__}


def run_configure(case):
    Fake = make_fake_ins()
    o = Fake()
    try:
        o.configure_stopping_criterion(case["names"], case["tolerance"], case["check"])
    except ValueError as e:
        return {"error": "ValueError", "msg": str(e)[:100]}
    except Exception as e:
        return {"error": type(e).__name__, "msg": str(e)[:100]}
    return {"stopping_criterion": list(o.stopping_criterion), "tolerance": [num(t) for t in o.tolerance],
            "stop_any": bool(o._stop_any), "criterion": [num(c) for c in o.criterion]}


def run_std_finalise(case):
    """the real NestedSampler.finalise on a list of ids"""
    from nessai.samplers.nestedsampler import NestedSampler as NS
    calls = []
    o = types.SimpleNamespace(live_points=None if case["live"] is None else [{"logL": float(i), "id": i} for i in case["live"]],
                              nested_samples=[{"logL": 0.0, "id": i} for i in case["ns"]], nlive=max(1, len(case["live"] or [])),
                              finalised=False, update_state=lambda **k: None,
                              state=types.SimpleNamespace(increment=lambda logL, nlive=None: calls.append((logL, nlive)),
                                                          finalise=lambda: None))
    try:
        NS.finalise(o)
    except Exception as e:
        return {"raised": type(e).__name__}
    return {"ns": [p["id"] for p in o.nested_samples], "live_none": o.live_points is None, "fin": bool(o.finalised),
            "increments": [[float(a), int(b)] for a, b in calls]}


# =================================================================================================
# real runs
# =================================================================================================
def quiet():
    import logging
    import torch
    torch.set_num_threads(1)
    from nessai.utils.logging import setup_logger
    setup_logger(output=None, log_level="CRITICAL")
    logging.disable(logging.CRITICAL)
    os.environ["TQDM_DISABLE"] = "1"


def make_model(unit=False, cut=None):
    """cut = r: the likelihood is exactly zero (log L = -inf) outside the disc of radius r (a hard constraint)"""
    from nessai.model import Model

    class G(Model):
        def __init__(self):
            self.names = ["x", "y"]
            self.bounds = {"x": [-5.0, 5.0], "y": [-5.0, 5.0]}

        def log_prior(self, x):
            return np.log(self.in_bounds(x), dtype=float) - np.log(100.0)

        def log_likelihood(self, x):
            r2 = x["x"] ** 2 + x["y"] ** 2
            if cut is None:
                return -0.5 * r2
            with np.errstate(all="ignore"):
                return np.where(r2 <= cut * cut, -0.5 * r2, -np.inf)

        def to_unit_hypercube(self, x):
            y = x.copy()
            for n in self.names:
                y[n] = (x[n] + 5.0) / 10.0
            return y

        def from_unit_hypercube(self, x):
            y = x.copy()
            for n in self.names:
                y[n] = 10.0 * x[n] - 5.0
            return y

    return G()


def digest(*arrays):
    h = hashlib.sha256()
    for a in arrays:
        if a is None:
            h.update(b"None")
        else:
            a = np.ascontiguousarray(a)
            h.update(str(a.dtype).encode())
            h.update(a.tobytes())
    return h.hexdigest()[:24]


FLOW = dict(flow_config={"n_blocks": 2, "n_neurons": 8}, training_config={"max_epochs": 20, "patience": 5})


def std_results(ns):
    nsamp = np.array(ns.nested_samples)
    return {"iteration": int(ns.iteration), "condition": num(ns.condition), "finalised": bool(ns.finalised),
            "n_ns": int(len(ns.nested_samples)), "logZ": num(ns.state.logZ),
            "live_none": ns.live_points is None,
            "evals": int(ns.model.likelihood_evaluations),
            "digest": digest(nsamp, np.asarray(ns.state.log_posterior_weights), np.float64(ns.state.logZ),
                             np.float64(ns.state.log_evidence_error))}


def run_std(job):
    quiet()
    from nessai.flowsampler import FlowSampler
    from nessai.samplers.nestedsampler import NestedSampler as NS
    rec = {"bodies": [], "loops": 0, "finalise": []}
    real_cs, real_loop, real_fin = NS.consume_sample, NS.nested_sampling_loop, NS.finalise

    def cs(self):                      # class-level wrappers: the final checkpoint pickles the instance
        b = {"it0": int(self.iteration), "cond0": num(self.condition), "logLmax0": num(self.logLmax)}
        r = real_cs(self)
        b.update(it1=int(self.iteration), cond1=num(self.condition), logZ1=num(self.state.logZ), call=rec["loops"])
        rec["bodies"].append(b)
        return r

    def loop(self):
        rec["loops"] += 1
        return real_loop(self)

    def fin(self):
        lp = self.live_points
        f = {"call": rec["loops"], "n_ns_before": len(self.nested_samples),
             "live": None if lp is None else [num(v) for v in lp["logL"]],
             "live_digest": None if lp is None else digest(lp)}
        r = real_fin(self)
        tail = np.array(self.nested_samples[f["n_ns_before"]:]) if lp is not None else None
        f["n_ns_after"] = len(self.nested_samples)
        f["tail_digest"] = None if tail is None else digest(tail)
        rec["finalise"].append(f)
        return r

    NS.consume_sample, NS.nested_sampling_loop, NS.finalise = cs, loop, fin
    out = []
    for cfg in job["runs"]:
        rec["bodies"], rec["loops"], rec["finalise"] = [], 0, []
        res = {"cfg": cfg}
        outdir = os.path.join(job["root"], cfg["name"])
        shutil.rmtree(outdir, ignore_errors=True)
        kw = dict(nlive=cfg["nlive"], plot=False, seed=cfg["seed"], signal_handling=False, output=outdir, **FLOW)
        if cfg.get("stopping") is not None:
            kw["stopping"] = unnum(cfg["stopping"])
        if cfg.get("max_iteration") is not None:
            kw["max_iteration"] = cfg["max_iteration"]
        if cfg.get("prior_sampling"):
            kw["prior_sampling"] = True
        try:
            fs = FlowSampler(make_model(), resume=False, **kw)
            ns = fs.ns
            res["tol"] = num(ns.tolerance)
            res["cap"] = None if ns.max_iteration == np.inf else int(ns.max_iteration)
            res["start"] = {"cond": num(ns.condition), "it": int(ns.iteration), "fin": bool(ns.finalised)}
            fs.run(plot=False, save=False)
            res["run1"] = std_results(ns)
            res["bodies1"] = list(rec["bodies"])
            res["history"] = {"iterations": [int(i) for i in ns.history["iterations"]],
                              "dlogZ": [num(v) for v in ns.history["dlogZ"]]}
            res["finalise1"] = list(rec["finalise"])
            res["nlive"] = int(ns.nlive)
            n0 = len(rec["bodies"])
            try:
                fs.run(plot=False, save=False)
                res["run2"] = std_results(ns)
                res["run2"]["bodies"] = len(rec["bodies"]) - n0
                res["run2"]["stream"] = [b["cond1"] for b in rec["bodies"][n0:]]
            except Exception as e:
                res["run2"] = {"raised": type(e).__name__, "msg": str(e)[:200]}
            n0 = len(rec["bodies"])
            nf = len(rec["finalise"])
            if not cfg.get("prior_sampling"):
                try:
                    fs2 = FlowSampler(make_model(), resume=True, **kw)
                    ns2 = fs2.ns
                    res["resumed"] = bool(getattr(ns2, "resumed", False))
                    e0 = int(ns2.model.likelihood_evaluations)
                    fs2.run(plot=False, save=False)
                    res["run3"] = std_results(ns2)
                    res["run3"]["bodies"] = len(rec["bodies"]) - n0
                    res["run3"]["stream"] = [b["cond1"] for b in rec["bodies"][n0:]]
                    res["run3"]["new_evals"] = int(ns2.model.likelihood_evaluations) - e0
                    res["run3"]["finalise_calls"] = len(rec["finalise"]) - nf
                except Exception as e:
                    res["run3"] = {"raised": type(e).__name__, "msg": str(e)[:200]}
        except Exception as e:
            import traceback
            res["error"] = type(e).__name__
            res["trace"] = traceback.format_exc()[-1200:]
        shutil.rmtree(outdir, ignore_errors=True)
        out.append(res)
    return out


CRITS = ["ratio", "ratio_ns", "Z_err", "log_dZ", "ess", "fractional_error"]


def ins_results(ns):
    ts = ns.training_samples
    return {"iteration": int(ns.iteration), "finalised": bool(ns.finalised), "criterion": [num(c) for c in ns.criterion],
            "n": int(len(ts.samples)), "logZ": num(ns.log_evidence), "evals": int(ns.model.likelihood_evaluations),
            "live_none": ts.live_points_indices is None,
            "nested_is_all": bool(np.array_equal(np.sort(ts.nested_samples_indices), np.arange(len(ts.samples)))),
            "digest": digest(ts.samples, np.asarray(ts.nested_samples_indices), np.float64(ns.log_evidence),
                             np.asarray(ns.state.log_posterior_weights))}


def run_ins(job):
    quiet()
    from nessai.flowsampler import FlowSampler
    from nessai.samplers.importancesampler import ImportanceNestedSampler as INS
    rec = {"its": []}
    real_csc = INS.compute_stopping_criterion
    keep = {"samples": False}

    def csc(self):
        r = real_csc(self)
        e = {"it": int(self.iteration), "returned": [num(v) for v in r],
             "attrs": {k: num(getattr(self, k)) for k in CRITS},
             "log_evidence_error": num(self.log_evidence_error), "log_evidence": num(self.log_evidence),
             "prev_logZ": num(self.history["logZ"][-1]) if self.iteration > 0 else None}
        if keep["samples"]:
            os_ = self._ordered_samples
            s = os_.samples
            e["logL"] = [num(v) for v in s["logL"]]
            e["logW"] = [num(v) for v in s["logW"]]
            e["live_idx"] = [int(i) for i in os_.live_points_indices]
            e["nested_idx"] = [int(i) for i in os_.nested_samples_indices]
            e["threshold"] = num(os_.log_likelihood_threshold)
            from nessai.utils.stats import effective_sample_size
            e["ess_stats"] = num(effective_sample_size(s["logL"] + s["logW"]))
        rec["its"].append(e)
        return r

    INS.compute_stopping_criterion = csc
    out = []
    for cfg in job["runs"]:
        rec["its"] = []
        keep["samples"] = bool(cfg.get("keep_samples"))
        res = {"cfg": cfg}
        outdir = os.path.join(job["root"], cfg["name"])
        shutil.rmtree(outdir, ignore_errors=True)
        kw = dict(nlive=cfg["nlive"], plot=False, seed=cfg["seed"], signal_handling=False, output=outdir,
                  importance_nested_sampler=True, min_samples=cfg.get("min_samples", 10), **FLOW)
        for k in ("stopping_criterion", "check_criteria", "min_iteration", "max_iteration"):
            if cfg.get(k) is not None:
                kw[k] = cfg[k]
        if cfg.get("tolerance") is not None:
            t = cfg["tolerance"]
            kw["tolerance"] = [unnum(v) for v in t] if isinstance(t, list) else unnum(t)
        try:
            fs = FlowSampler(make_model(cut=cfg.get("cut")), resume=False, **kw)
            ns = fs.ns
            res["configured"] = {"stopping_criterion": list(ns.stopping_criterion), "tolerance": [num(t) for t in ns.tolerance],
                                 "stop_any": bool(ns._stop_any), "min": int(ns.min_iteration),
                                 "max": None if ns.max_iteration == np.inf else int(ns.max_iteration),
                                 "criterion0": [num(c) for c in ns.criterion]}
            fs.run(plot=False, save=False)
            res["run1"] = ins_results(ns)
            res["its"] = list(rec["its"])
            res["history"] = {k: [num(v) for v in ns.history["stopping_criteria"][k]] for k in CRITS}
            res["history_logZ"] = [num(v) for v in ns.history["logZ"]]
            n0 = len(rec["its"])
            try:
                fs.run(plot=False, save=False)
                res["run2"] = ins_results(ns)
                res["run2"]["bodies"] = len(rec["its"]) - n0
            except Exception as e:
                res["run2"] = {"raised": type(e).__name__, "msg": str(e)[:200]}
            n0 = len(rec["its"])
            try:
                fs2 = FlowSampler(make_model(cut=cfg.get("cut")), resume=True, **kw)
                ns2 = fs2.ns
                res["resumed"] = bool(getattr(ns2, "resumed", False))
                e0 = int(ns2.model.likelihood_evaluations)
                fs2.run(plot=False, save=False)
                res["run3"] = ins_results(ns2)
                res["run3"]["bodies"] = len(rec["its"]) - n0
                res["run3"]["new_evals"] = int(ns2.model.likelihood_evaluations) - e0
            except Exception as e:
                res["run3"] = {"raised": type(e).__name__, "msg": str(e)[:200]}
        except Exception as e:
            import traceback
            res["error"] = type(e).__name__
            res["trace"] = traceback.format_exc()[-1200:]
        shutil.rmtree(outdir, ignore_errors=True)
        out.append(res)
    return out


def crit_vector(case):
    """every criterion the importance sampler offers, computed by the REAL code (OrderedSamples, _INSIntegralState,
    ImportanceNestedSampler.compute_stopping_criterion) on a given sample vector that may contain zero-likelihood
    (log L = -inf) samples; `prev` = the sample vector of the previous iteration (for log_dZ)"""
    from nessai.samplers.importancesampler import ImportanceNestedSampler as INS, OrderedSamples
    dt = [("logL", "f8"), ("logW", "f8")]

    def store(v):
        a = np.zeros(len(v["logL"]), dtype=dt)
        a["logL"] = [unnum(x) for x in v["logL"]]
        a["logW"] = [unnum(x) for x in v["logW"]]
        os_ = OrderedSamples()
        os_.samples = a
        os_.nested_samples_indices = np.array(v["nested_idx"], dtype=int)
        os_.live_points_indices = np.array(v["live_idx"], dtype=int)
        os_.log_likelihood_threshold = unnum(v["threshold"])
        with np.errstate(all="ignore"):
            os_.update_evidence()
        return os_

    with np.errstate(all="ignore"):
        cur = store(case["cur"])
        hist = []
        it = 0
        if case.get("prev"):
            hist = [float(store(case["prev"]).state.logZ)]
            it = 1
        st = cur.state
        o = types.SimpleNamespace(iteration=it, state=st, _ordered_samples=cur, history={"logZ": hist},
                                  stopping_criterion=list(CRITS), tolerance=[0.0] * len(CRITS))
        o.log_evidence = st.logZ
        o.log_evidence_error = st.compute_uncertainty()
        try:
            ret = INS.compute_stopping_criterion(o)
        except Exception as e:
            return {"raised": type(e).__name__, "msg": str(e)[:200]}
    return {"attrs": {k: num(getattr(o, k)) for k in CRITS}, "returned": [num(v) for v in ret],
            "log_evidence": num(st.logZ), "log_evidence_error": num(o.log_evidence_error),
            "prev_logZ": hist[0] if hist else None}


def zerr_replay(case):
    """D10: the Z_err criterion on a real integral state"""
    from nessai.evidence import _INSIntegralState
    st = _INSIntegralState()
    a = np.zeros(len(case["logL"]), dtype=[("logL", "f8"), ("logW", "f8")])
    a["logL"] = case["logL"]
    a["logW"] = case["logW"]
    st.update_evidence(a)
    o = types.SimpleNamespace(iteration=0, state=st, log_evidence=st.logZ, log_evidence_error=st.compute_uncertainty(),
                              _ordered_samples=types.SimpleNamespace(compute_evidence_ratio=lambda: 0.0),
                              stopping_criterion=["Z_err"], tolerance=[case.get("tol", 0.5)], history={"logZ": []})
    from nessai.samplers.importancesampler import ImportanceNestedSampler as INS
    st.compute_evidence_ratio = lambda ns_only=False: 0.0
    cond = INS.compute_stopping_criterion(o)
    return {"Z_err": num(cond[0]), "evidence_error": num(st.evidence_error), "evidence": num(st.evidence),
            "log_evidence_error": num(st.log_evidence_error)}


def main():
    import logging
    logging.disable(logging.CRITICAL)
    job = json.load(sys.stdin)
    mode = job["mode"]
    if mode == "scripted":
        out = {"std": [std_history(c) for c in job.get("std", [])],
               "ins": [ins_history(c) for c in job.get("ins", [])],
               "reached": [run_reached(c) for c in job.get("reached", [])],
               "configure": [run_configure(c) for c in job.get("configure", [])],
               "finalise": [run_std_finalise(c) for c in job.get("finalise", [])],
               "zerr": [zerr_replay(c) for c in job.get("zerr", [])],
               "critvec": [crit_vector(c) for c in job.get("critvec", [])]}
    elif mode == "std":
        out = {"runs": run_std(job)}
    elif mode == "ins":
        out = {"runs": run_ins(job)}
    else:
        raise SystemExit("unknown mode")
    json.dump(out, sys.stdout)


if __name__ == "__main__":
    main()
