"""Runs the real nessai reparameterisations (through FlowProposal.rescale / inverse_rescale) on the
configurations given on stdin (JSON list) and prints one JSON result per configuration.

Floats travel as Python floats (json uses repr, which round-trips exactly); inf / nan as Infinity / NaN.
The only scripted oracle: the auxiliary radius of Angle / AnglePair (a chi-distributed random draw in the
real code) is replaced on the *instance* by a scripted stream so that the forward map is a function."""
import copy
import json
import logging
import sys
import tempfile

import numpy as np

logging.disable(logging.CRITICAL)

from nessai import config as nconfig  # noqa: E402
from nessai.livepoint import numpy_array_to_live_points  # noqa: E402
from nessai.model import Model  # noqa: E402
from nessai.proposal.flowproposal import FlowProposal  # noqa: E402


class M(Model):
    def __init__(self, names, bounds):
        self.names = list(names)
        self.bounds = {k: [float(v[0]), float(v[1])] for k, v in bounds.items()}

    def log_prior(self, x):
        return np.zeros(x.size)

    def log_likelihood(self, x):
        return np.zeros(x.size)


class ScriptedChi:
    """Stands in for scipy.stats.chi(k) on one reparameterisation instance: rvs returns the scripted radii."""

    def __init__(self, k, values):
        from scipy import stats
        self._chi = stats.chi(k)
        self.values = np.asarray(values, dtype=float)

    def rvs(self, size=1):
        n = int(size)
        reps = -(-n // len(self.values))
        return np.tile(self.values, reps)[:n].copy()

    def logpdf(self, x):
        return self._chi.logpdf(x)

    def __bool__(self):
        return True


def err_name(e):
    n = type(e).__name__
    return n if n in ("ValueError", "TypeError", "RuntimeError", "KeyError", "IndexError") else "Other:" + n


def fl(a):
    return [float(v) for v in np.asarray(a, dtype=float).ravel()]


def live(names, pts):
    a = np.asarray(pts, dtype=float).reshape(-1, len(names))
    x = numpy_array_to_live_points(a, names)
    n = x.size
    x["logL"] = np.arange(n, dtype=float) * 0.5 - 3.0
    x["logP"] = -0.25 * np.arange(n, dtype=float)
    x["it"] = np.arange(n) + 7
    return x


def build(cfg, outdir):
    model = M(cfg["names"], cfg["bounds"])
    if cfg.get("gw"):
        from nessai.gw.proposal import GWFlowProposal as P
    else:
        P = FlowProposal
    p = P(model, poolsize=10, output=outdir,
          reparameterisations=copy.deepcopy(cfg["reparameterisations"]),
          fallback_reparameterisation=cfg.get("fallback", None),
          reverse_reparameterisations=bool(cfg.get("reverse", False)))
    p.set_rescaling()
    return p


def describe(p):
    out = []
    for key in p._reparameterisation.to_prime_order:
        r = p._reparameterisation[key]
        d = {"class": type(r).__name__, "parameters": list(r.parameters),
             "prime_parameters": list(r.prime_parameters), "update": bool(r._update),
             "has_prime_prior": bool(r.has_prime_prior), "has_prior": bool(r.has_prior)}
        if hasattr(r, "_edges") and r._edges:
            d["edges"] = {k: (v if v in ("lower", "upper") else (None if v is None else False))
                          for k, v in r._edges.items()}
        if hasattr(r, "bounds") and isinstance(getattr(r, "bounds"), dict):
            d["bounds"] = {k: fl(v) for k, v in r.bounds.items()}
            d["offsets"] = {k: float(v) for k, v in r.offsets.items()}
        if getattr(r, "has_prime_prior", False) and getattr(r, "prime_prior_bounds", None):
            d["prime_prior_bounds"] = {k: fl(v) for k, v in r.prime_prior_bounds.items()}
        if hasattr(r, "scale") and not isinstance(r.scale, dict):
            d["scale"] = float(r.scale)
        if hasattr(r, "scale") and isinstance(r.scale, dict):
            d["scale"] = {k: float(v) for k, v in r.scale.items()}
            d["shift"] = None if not r.shift else {k: float(v) for k, v in r.shift.items()}
        if hasattr(r, "_zero_bound"):
            d["zero_bound"] = bool(r._zero_bound)
        if hasattr(r, "convention"):
            d["convention"] = r.convention
            d["modulo_2pi"] = bool(r._modulo_2pi)
        d["chi"] = bool(getattr(r, "chi", False))
        out.append(d)
    return out


def script_radii(p, radii):
    for r in p._reparameterisation.values():
        if getattr(r, "chi", False):
            k = 2 if type(r).__name__ in ("Angle", "ToCartesian") else 3
            r.chi = ScriptedChi(k, radii)


def one_pass(p, cfg, pts):
    x = live(cfg["names"], pts)
    kw = {}
    if "test" in cfg:
        kw["test"] = cfg["test"]
    if cfg.get("compute_radius"):
        kw["compute_radius"] = True
    np.random.seed(int(cfg.get("np_seed", 1)))
    p._reparameterisation.reset_inversion()
    with np.errstate(all="ignore"):
        xp, lj = p.rescale(x, **kw)
        xb, ljb = p.inverse_rescale(xp)
    return x, xp, lj, xb, ljb


def fd_logdet(p, xp, rows):
    prim = list(p.prime_parameters)
    par = list(p.parameters)
    if len(prim) != len(par) or not rows:
        return None
    K = len(prim)
    scale = {}
    for n in prim:
        v = np.abs(np.asarray(xp[n], dtype=float))
        v = v[np.isfinite(v)]
        scale[n] = float(v.max()) if v.size and v.max() > 0 else 1.0
    batch, hs = [], []
    for j in rows:
        base = xp[j:j + 1]
        hrow = []
        for n in prim:
            h = 1e-4 * max(abs(float(base[n][0])), 0.1 * scale[n])
            hrow.append(h)
            for sg in (1.0, -1.0):
                row = base.copy()
                row[n] = base[n] + sg * h
                batch.append(row)
        hs.append(hrow)
    probe = np.concatenate(batch)
    with np.errstate(all="ignore"):
        xb, _ = p.inverse_rescale(probe)
    out = []
    for r_, j in enumerate(rows):
        J = np.zeros((K, K))
        noise = 0.0
        for k in range(K):
            ip = (r_ * K + k) * 2
            best = 0.0
            for a_, q in enumerate(par):
                up, dn = float(xb[q][ip]), float(xb[q][ip + 1])
                J[a_, k] = (up - dn) / (2 * hs[r_][k])
                if abs(up - dn) >= best:
                    best = abs(up - dn)
                    nz = 2.0 ** -50 * (abs(up) + abs(dn)) / best if best > 0 else float("inf")
            noise += nz
        if not np.all(np.isfinite(J)) or not noise < 1e-4:
            out.append(float("nan"))     # rounding noise of the differences too large for this row: not usable
            continue
        sign, ld = np.linalg.slogdet(J)
        out.append(float(ld) if sign != 0 else float("-inf"))
    return out


def run_config(cfg, outdir):
    try:
        p = build(cfg, outdir)
    except Exception as e:  # rejected at construction
        return {"error": err_name(e), "stage": "construct", "msg": str(e)[:200]}
    res = {"prime_parameters": list(p.prime_parameters), "parameters": list(p.parameters)}
    try:
        res["blocks_initial"] = describe(p)
        script_radii(p, cfg.get("radii") or [1.0])
        if cfg.get("update") is not None:
            p.check_state(live(cfg["names"], cfg["update"]))
        x, xp, lj, xb, ljb = one_pass(p, cfg, cfg["points"])
        res["blocks"] = describe(p)
        res["n_in"] = int(x.size)
        res["n_out"] = int(xp.size)
        res["xp"] = {n: fl(xp[n]) for n in p.prime_parameters}
        res["lj"] = fl(lj)
        res["xb"] = {n: fl(xb[n]) for n in xb.dtype.names if n not in nconfig.livepoints.non_sampling_parameters}
        res["ljb"] = fl(ljb)
        # non-sampling fields through rescale and back (every block of a duplicated output)
        ns_ok = True
        reps = max(1, xp.size // x.size)
        for f in nconfig.livepoints.non_sampling_parameters:
            for c in range(reps):
                a = np.asarray(xb[f][c * x.size:(c + 1) * x.size])
                b = np.asarray(xp[f][c * x.size:(c + 1) * x.size])
                t = np.asarray(x[f])
                if not (np.array_equal(a, t, equal_nan=True) and np.array_equal(b, t, equal_nan=True)):
                    ns_ok = False
        res["nonsampling_ok"] = ns_ok
        # prime prior, where offered (per reparameterisation: the combined one only offers it when all do)
        offering = [rr for rr in p._reparameterisation.values() if rr.has_prime_prior]

        def prime_prior(xpv):
            tot = np.zeros(xpv.size)
            for rr in offering:
                tot = tot + rr.x_prime_log_prior(xpv.copy())
            return tot

        if offering:
            with np.errstate(all="ignore"):
                res["prime_prior"] = fl(prime_prior(xp))
                # per offering block: its own prime prior on the outputs and its own forward log-Jacobian
                res["pp_blocks"] = []
                for rr in offering:
                    ent = {"class": type(rr).__name__, "parameters": list(rr.parameters),
                           "prime_parameters": list(rr.prime_parameters), "pp": fl(rr.x_prime_log_prior(xp.copy())), "lj": None}
                    try:
                        kw2 = {}
                        if "test" in cfg:
                            kw2["test"] = cfg["test"]
                        xq = live(cfg["names"], cfg["points"])
                        xpq = np.zeros(xq.size, dtype=xp.dtype)
                        _, _, ljq = rr.reparameterise(xq, xpq, np.zeros(xq.size), **kw2)
                        ent["lj"] = fl(np.asarray(ljq)[: xq.size])
                    except Exception as e:  # not essential
                        ent["lj_error"] = str(e)[:100]
                    res["pp_blocks"].append(ent)
                if cfg.get("outside"):
                    _, xpo, _, _, _ = one_pass(p, cfg, cfg["outside"])
                    res["outside_prior"] = fl(prime_prior(xpo))
                    res["outside_n"] = int(len(cfg["outside"]))
                if cfg.get("prime_probe_auto"):
                    # a grid in PRIME space around the image of the box: prime prior vs pre-image in the prior box
                    cols = [n for rr in offering for n in rr.prime_parameters]
                    base = np.zeros(1, dtype=xp.dtype)
                    rng_ = {}
                    for n in p.prime_parameters:
                        v = np.asarray(xp[n], dtype=float)
                        v = v[np.isfinite(v)]
                        base[n] = np.median(v) if v.size else 0.0
                        rng_[n] = (float(v.min()), float(v.max())) if v.size else (0.0, 1.0)
                    rows, which = [], []
                    for n in cols:
                        lo_, hi_ = rng_[n]
                        w_ = (hi_ - lo_) or 1.0
                        for t_ in np.linspace(lo_ - 0.75 * w_, hi_ + 0.75 * w_, 21):
                            row = base.copy()
                            row[n] = t_
                            rows.append(row)
                            which.append(n)
                    probe = np.concatenate(rows)
                    for f in nconfig.livepoints.non_sampling_parameters:
                        probe[f] = 0
                    res["probe_prior"] = fl(prime_prior(probe))
                    pb, _ = p.inverse_rescale(probe.copy())
                    res["probe_back"] = {n: fl(pb[n]) for n in cfg["names"]}
                    res["probe_xp"] = {n: fl(probe[n]) for n in cols}
                    res["probe_which"] = which
                    res["probe_owner"] = {pp: pr for rr in offering for pr, pp in zip(rr.parameters, rr.prime_parameters)}
        # neighbours (conditioning of the reported log-Jacobian), same oracle choices
        if cfg.get("neighbours"):
            res["lj_nb"] = []
            for pts in cfg["neighbours"]:
                _, _, ljn, _, _ = one_pass(p, cfg, pts)
                res["lj_nb"].append(fl(ljn))
        # central finite differences of the implementation's own INVERSE map: ln|det dx/dx'| at the given rows
        if cfg.get("fd_rows"):
            res["fd_logdet"] = fd_logdet(p, xp, cfg["fd_rows"])
        # numerical derivative of the implemented map (search-on-break path only; 1-d blocks)
        if cfg.get("deriv"):
            d = cfg["deriv"]  # {"name": parameter, "prime": prime name, "h": [...per point...]}
            j = cfg["names"].index(d["name"])
            base = np.asarray(cfg["points"], dtype=float).reshape(-1, len(cfg["names"]))
            hi, lo = base.copy(), base.copy()
            h = np.asarray(d["h"], dtype=float)
            hi[:, j] += h
            lo[:, j] -= h
            _, xph, _, _, _ = one_pass(p, cfg, hi)
            _, xpl, _, _, _ = one_pass(p, cfg, lo)
            n = base.shape[0]
            with np.errstate(all="ignore"):
                res["num_logabs_deriv"] = fl(np.log(np.abs((xph[d["prime"]][:n] - xpl[d["prime"]][:n]) / (2 * h))))
    except Exception as e:
        import traceback
        res["error"] = err_name(e)
        res["stage"] = "run"
        res["msg"] = traceback.format_exc()[-600:]
    return res


def run_function(c):
    """Direct calls of nessai.utils.rescaling functions / gw converters (no proposal)."""
    from nessai.utils import rescaling as R
    x = np.asarray(c["x"], dtype=float)
    with np.errstate(all="ignore"):
        try:
            if c["fn"] == "logit_eps":
                y, lj = R.logit(x.copy(), eps=c["eps"])
                xb, ljb = R.sigmoid(np.asarray(y).copy())
            elif c["fn"] == "sigmoid":
                y, lj = R.sigmoid(x.copy())
                xb, ljb = R.logit(np.asarray(y).copy())
            elif c["fn"] == "exp":
                y, lj = R.exp_with_log_jacobian(x.copy())
                xb, ljb = R.log_with_log_jacobian(np.asarray(y).copy())
            elif c["fn"] == "zero_one":
                y, lj = R.rescale_zero_to_one(x.copy(), c["a"], c["b"])
                xb, ljb = R.inverse_rescale_zero_to_one(np.asarray(y).copy(), c["a"], c["b"])
            elif c["fn"] == "minus_one_one":
                y, lj = R.rescale_minus_one_to_one(x.copy(), c["a"], c["b"])
                xb, ljb = R.inverse_rescale_minus_one_to_one(np.asarray(y).copy(), c["a"], c["b"])
            elif c["fn"] == "powerlaw":
                from nessai.gw.utils import PowerLawConverter
                pc = PowerLawConverter(power=c["power"], scale=c["scale"])
                y, lj = pc.to_uniform_parameter(x.copy())
                xb, ljb = pc.from_uniform_parameter(np.asarray(y).copy())
            elif c["fn"] == "rescaled_bounds":
                lo, hi = R.determine_rescaled_bounds(*c["args"], **c["kwargs"])
                return {"lo": float(lo), "hi": float(hi)}
            else:
                return {"error": "unknown fn"}
        except Exception as e:
            return {"error": err_name(e), "msg": str(e)[:200]}
    n = x.size
    return {"y": fl(y), "lj": fl(np.broadcast_to(lj, (n,))), "xb": fl(xb), "ljb": fl(np.broadcast_to(ljb, (n,)))}


def main():
    cases = json.load(sys.stdin)
    out = []
    with tempfile.TemporaryDirectory() as d:
        for c in cases:
            if c.get("kind") == "function":
                out.append(run_function(c))
            else:
                out.append(run_config(c, d))
    json.dump(out, sys.stdout)


if __name__ == "__main__":
    main()
