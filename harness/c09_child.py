"""C09 child: runs the real nessai population code (proposals, Model.new_point, radial samplers, short real
sampler runs) and reports what the oracles produced and what the implementation did with it.  JSON in, JSON out.
Floats travel as float.hex() strings or 'nan' / 'inf' / '-inf'."""
import ast
import inspect
import json
import math
import os
import sys
import tempfile
import textwrap

import numpy as np


def fx(v):
    v = float(v)
    if v != v:
        return "nan"
    if v == math.inf:
        return "inf"
    if v == -math.inf:
        return "-inf"
    return v.hex()


def err(e):
    return type(e).__name__


class Cap(BaseException):
    """Raised by the recorders when a population asks for more batches than the case allows."""


# --------------------------------------------------------------------------------------------------------
# models
def make_model(kind, unit=False):
    from nessai.model import Model

    class SM(Model):
        def __init__(self):
            self.names = ["x", "y"]
            self.bounds = {"x": [-5.0, 5.0], "y": [-5.0, 5.0]}
            self.kind = kind
            self.rec = None          # recorder: list of ("prior"|"lik", keys, values)
            self.paused = False

        def raw_prior(self, x):
            inb = self.in_bounds(x)
            k = self.kind
            with np.errstate(all="ignore"):
                if k == "uniform":
                    lp = np.log(inb, dtype=float) - np.log(100.0)
                elif k == "corner":
                    lp = np.log(inb & (x["x"] + x["y"] <= 4.0), dtype=float) - np.log(92.0)
                elif k == "steps":
                    lp = np.log(inb, dtype=float) - 0.25 * np.floor(np.abs(x["x"])) - 3.0
                elif k == "nobounds":        # a prior that is finite everywhere: the bounds check is the proposal's
                    lp = -0.125 * (x["x"] ** 2 + x["y"] ** 2) - 2.0
                elif k == "nanregion":
                    lp = np.log(inb, dtype=float) - np.log(100.0)
                    lp = np.where(x["x"] < -4.0, np.nan, lp)
                elif k == "pinfregion":
                    lp = np.log(inb, dtype=float) - np.log(100.0)
                    lp = np.where(x["y"] > 4.0, np.inf, lp)
                else:
                    raise ValueError(k)
            return lp

        def raw_lik(self, x):
            return -0.5 * ((x["x"] - 1.0) ** 2 + (x["y"] + 0.5) ** 2)

        def log_prior(self, x):
            lp = self.raw_prior(x)
            if self.rec is not None and not self.paused:
                self.rec.append(("prior", keys_of(x), [float(v) for v in np.atleast_1d(lp)]))
            return lp

        def log_likelihood(self, x):
            ll = self.raw_lik(x)
            if self.rec is not None and not self.paused:
                self.rec.append(("lik", keys_of(x), [float(v) for v in np.atleast_1d(ll)]))
            return ll

        def to_unit_hypercube(self, x):
            y = x.copy()
            for n in self.names:
                y[n] = (x[n] + 5.0) / 10.0
            return y

        def from_unit_hypercube(self, x):
            y = x.copy()
            for n in self.names:
                y[n] = 10.0 * x[n] - 5.0
            return y

    m = SM()
    with np.errstate(all="ignore"):      # run nessai's one-off vectorisation probes before anything is recorded
        m.vectorised_likelihood
        m.vectorised_prior
        if unit:
            m.vectorised_prior_unit_hypercube
    return m


def keys_of(x, names=("x", "y")):
    x = np.atleast_1d(x)
    return [tuple(float(x[n][i]) for n in names) for i in range(x.size)]


# --------------------------------------------------------------------------------------------------------
class ScriptedFlow:
    """Deterministic affine 'flow' with the FlowModel API that FlowProposal uses."""

    device = "cpu"

    def __init__(self, dims, scale, shift, special):
        self.dims, self.a, self.b, self.special = dims, float(scale), float(shift), special

    def _lq(self, z):
        lq = -0.5 * np.sum(z ** 2, axis=1) - 0.9189385332046727 * self.dims - self.dims * math.log(self.a)
        if self.special:
            lq = np.where(z[:, 0] > 1.6, np.nan, lq)
            lq = np.where(z[:, 1] < -1.7, np.inf, lq)
            lq = np.where(z[:, 1] > 1.9, -np.inf, lq)
        return lq

    def forward_and_log_prob(self, x, conditional=None):
        z = (np.asarray(x, dtype=float) - self.b) / self.a
        return z, self._lq(z)

    def sample_and_log_prob(self, N=1, z=None, alt_dist=None, conditional=None):
        z = np.asarray(z, dtype=float)
        return self.a * z + self.b, self._lq(z)

    def sample_latent_distribution(self, n=1):
        return np.random.randn(n, self.dims)


def loop_lines(fn):
    """line numbers (absolute, in the file) of the statements inside the first `while` of fn."""
    src, start = inspect.getsourcelines(fn)
    tree = ast.parse(textwrap.dedent("".join(src)))
    for node in ast.walk(tree):
        if isinstance(node, ast.While):
            return start + node.lineno - 1, start + node.end_lineno - 1
    return None


class RandSpy:
    """Records np.random.rand calls made directly by a function called `populate`."""

    def __init__(self):
        self.real = np.random.rand
        self.calls = []
        self.latent_us = []
        self.tag = lambda: None

    def __call__(self, *a):
        r = self.real(*a)
        f = sys._getframe(1)
        if f.f_code.co_name == "populate":
            self.calls.append((self.tag(), f.f_lineno, np.array(r, dtype=float).ravel().copy()))
        elif f.f_code.co_name == "sample" and f.f_code.co_filename.endswith("sampling.py"):
            self.latent_us.append(np.array(r, dtype=float).ravel().copy())     # NDimensionalTruncatedGaussian.sample
        return r


def run_flow_case(c):
    import torch
    from nessai.livepoint import numpy_array_to_live_points
    from nessai.proposal.flowproposal import FlowProposal
    from nessai.proposal.augmented import AugmentedFlowProposal

    np.random.seed(c["seed"])
    torch.manual_seed(c["seed"])
    model = make_model(c["prior"])
    out = {"pops": []}
    tmp = tempfile.mkdtemp(prefix="c09_", dir=os.getcwd())
    cls = AugmentedFlowProposal if c.get("cls") == "augmented" else FlowProposal
    kw = dict(poolsize=c["N"], drawsize=c["drawsize"], output=tmp, plot=False, latent_prior=c["latent"],
              accumulate_weights=c["acc"], truncate_log_q=c["trunc"], update_poolsize=False,
              flow_config={"n_blocks": 2, "n_neurons": 4}, training_config={"max_epochs": 15, "patience": 5},
              constant_volume_mode=c["cvm"],
              fixed_radius=False if (c["cvm"] or c.get("radius_mode", "fixed") != "fixed") else c["radius"],
              expansion_fraction=c.get("expansion"), compute_radius_with_all=c.get("radius_all", False))
    if cls is AugmentedFlowProposal:
        kw["augment_dims"] = c.get("augment_dims", 1)
        kw["marginalise_augment"] = bool(c.get("marg"))
        kw["n_marg"] = c.get("n_marg", 50)
    try:
        p = cls(model, **kw)
        p.initialise()
    except Exception as e:
        return {"config_error": err(e) + ": " + str(e)[:200]}
    train_x = model.new_point(40)
    train_x["logP"] = model.raw_prior(train_x)
    train_x["logL"] = model.raw_lik(train_x)
    if c["flow"] == "trained":
        p.train(train_x, plot=False)
    p.training_data = train_x
    if cls is AugmentedFlowProposal and p.training_data is not None:
        pass
    if c["flow"] == "scripted":
        p.flow = ScriptedFlow(p.rescaled_dims, c["scale"], c["shift"], c["special"])
    flow = p.flow
    real_sal = flow.sample_and_log_prob
    calls = []
    zs = []

    def sal(*a, **k):
        if len(calls) >= c["max_batches"]:
            raise Cap()
        x, lq = real_sal(*a, **k)
        calls.append((np.array(x, dtype=float).copy(), np.array(lq, dtype=float).copy()))
        zs.append(np.array(k.get("z", a[1] if len(a) > 1 else np.zeros((0, 1))), dtype=float).copy())
        return x, lq

    flow.sample_and_log_prob = sal
    marg_calls = []
    real_randn = np.random.randn
    if c.get("marg") and cls is AugmentedFlowProposal:
        real_marg = p._marginalise_augment
        drawn = []

        def randn(*a):
            r = real_randn(*a)
            if sys._getframe(1).f_code.co_name == "_marginalise_augment":
                drawn.append(np.array(r, dtype=float).copy())
            return r

        def marg(x):
            del drawn[:]
            out_ = real_marg(x)
            marg_calls.append((np.array(x, dtype=float).copy(), drawn[-1].copy() if drawn else None,
                               np.array(out_, dtype=float).copy()))
            return out_

        np.random.randn = randn
        p._marginalise_augment = marg
    minlq_seen = []
    real_fp = p.forward_pass

    def fp(x, *a, **k):
        r = real_fp(x, *a, **k)
        if x is p.training_data and sys._getframe(1).f_code.co_name == "populate":
            with np.errstate(all="ignore"):
                minlq_seen.append(float(np.min(r[1])))
        return r

    p.forward_pass = fp
    spy = RandSpy()
    spy.tag = lambda: len(calls) - 1
    lo_hi = loop_lines(FlowProposal.populate)
    worst = train_x[0].copy()
    max_samples = c.get("max_samples")
    radii = c.get("radii") if c.get("radius_mode") == "explicit" else None
    popno = [0]
    if max_samples is not None or radii:
        real_pop = p.populate

        def pop(*a, **k):
            if max_samples is not None:
                k["max_samples"] = max_samples
            if radii:
                k["r"] = radii[popno[0] % len(radii)]
            return real_pop(*a, **k)

        p.populate = pop
    np.random.rand = spy
    try:
        for ipop in range(c["npop"]):
            popno[0] = ipop
            if c.get("worst_idx"):
                # the worst live point changes from one population to the next (and with it the latent radius)
                worst = train_x[c["worst_idx"][ipop % len(c["worst_idx"])]].copy()
            del calls[:]
            del zs[:]
            del spy.calls[:]
            del spy.latent_us[:]
            del marg_calls[:]
            del minlq_seen[:]
            model.rec = []
            rec = {}
            try:
                with np.errstate(all="ignore"):
                    first = p.draw(worst)
            except Cap:
                rec["cap"] = True
                first = None
            except Exception as e:
                if isinstance(e, IndexError) and "pop from empty" in str(e) and p.populated and len(p.indices) == 0 \
                        and p.samples is not None and p.samples.size == 0:
                    # the population finished with an EMPTY pool (max_samples break with nothing accepted); draw then pops
                    # from an empty list - the model's draw_one [] = None
                    rec["empty_pool"] = True
                else:
                    rec["error"] = err(e) + ": " + str(e)[:200]
                first = None
            model.paused = True
            # ---- what the oracles produced, recomputed from the recorded flow outputs with the real rescaling ----
            batches, keymap, dup, gid0 = [], {}, False, 0
            prior_err, aug_rec = [], []
            use_marg = bool(marg_calls) and len(marg_calls) == len(calls)
            if marg_calls:
                # (1) the value returned for point i must be the reduction over the augment draws OF POINT i: recompute the
                # terms on the same repeated batch, group them per point here, compare
                from scipy.special import logsumexp as _lse
                from scipy import stats as _st
                nm, ad = p.n_marg, p.augment_dims
                mrec = []
                for xm, dr, om in marg_calls:
                    if dr is None or len(dr) != len(xm) * nm:
                        mrec.append({"unrecorded": True})
                        continue
                    xr = np.repeat(xm, nm, axis=0)
                    xr[:, -ad:] = dr.reshape(len(xr), ad)
                    with np.errstate(all="ignore"):
                        _, lpf = p.flow.forward_and_log_prob(xr)
                        terms = np.asarray(lpf, dtype=float) - np.sum(_st.norm.logpdf(xr[:, -ad:]), axis=1)
                        own = np.array([_lse(terms[i * nm:(i + 1) * nm]) for i in range(len(xm))]) - np.log(nm)
                    fin_ = np.isfinite(own) & np.isfinite(om)
                    err_ = float(np.abs(own[fin_] - om[fin_]).max()) if fin_.any() else 0.0
                    mrec.append({"n_marg": int(nm), "n_points": int(len(xm)), "max_err": err_,
                                 "scale": float(np.abs(own[fin_]).max()) if fin_.any() else 0.0,
                                 "same_finite": bool(np.array_equal(np.isfinite(own), np.isfinite(om))),
                                 "spread": float(np.ptp(own[fin_])) if fin_.any() else 0.0,
                                 "terms": [fx(v) for v in terms], "outs": [fx(v) for v in om], "ln_n": fx(np.log(nm))})
                rec["marg"] = mrec
            for bi, (xp, lq) in enumerate(calls):
                if use_marg:
                    lq = marg_calls[bi][2] if len(marg_calls[bi][2]) == len(lq) else lq   # the density that entered the weights
                xs = numpy_array_to_live_points(xp.astype(float), p.prime_parameters)
                with np.errstate(all="ignore"):
                    x, lj = p.inverse_rescale(xs)
                    inb = model.in_bounds(x)
                    lp_code = np.asarray(p.log_prior(x), dtype=float)
                    # the log-prior of the weights, recomputed independently: the model's own prior at the physical point
                    # (+ the reparameterisation's, zero for the ones used here) + log N(e_k) for EVERY augment parameter
                    lp = np.asarray(model.raw_prior(x), dtype=float)
                    rp_ = getattr(p, "_reparameterisation", None)
                    if rp_:
                        lp = lp + rp_.log_prior(x)
                    comps = []
                    if cls is AugmentedFlowProposal and not c.get("marg"):
                        from scipy import stats as _st2
                        for an in p.augment_parameters:
                            comps.append(np.asarray(_st2.norm.logpdf(x[an]), dtype=float))
                        aug = np.zeros(len(lp))
                        for cm in comps:
                            aug = aug + cm
                        lp_model_part = lp.copy()
                        lp = lp + aug
                        aug_rec.append({"model": [fx(v) for v in lp_model_part[:6]], "factors": [[fx(cm[i]) for cm in comps] for i in range(min(6, len(lp)))],
                                        "top": [fx(v) for v in lp_code[:6]]})
                    fin_ = np.isfinite(lp) & np.isfinite(lp_code)
                    same_nf = np.array_equal(np.isfinite(lp), np.isfinite(lp_code)) and np.array_equal(lp[~fin_], lp_code[~fin_], equal_nan=True)
                    prior_err.append(float("inf") if not same_nf else (float(np.abs(lp[fin_] - lp_code[fin_]).max()) if fin_.any() else 0.0))
                lj = np.broadcast_to(np.asarray(lj, dtype=float), lq.shape)
                cs = []
                for i in range(len(lq)):
                    gid = gid0 + i
                    k = keys_of(x[i:i + 1])[0]
                    if k in keymap:
                        dup = True
                    keymap[k] = gid
                    cs.append([gid, fx(lq[i]), fx(lj[i]), bool(inb[i]), fx(lp[i])])
                gid0 += len(lq)
                inloop = [u for (t, ln, u) in spy.calls if t == bi and lo_hi[0] <= ln <= lo_hi[1]]
                batches.append({"cands": cs, "attempt": bool(inloop),
                                "us": [fx(np.log(v)) for v in inloop[-1]] if inloop else []})
            post = [u for (t, ln, u) in spy.calls if not (lo_hi[0] <= ln <= lo_hi[1])]
            rec["batches"] = batches
            rec["final_us"] = [fx(np.log(v)) for v in post[-1]] if post else []
            rec["n_rand_calls"] = len(spy.calls)
            rec["dup"] = dup
            rec["prior_err"] = max(prior_err) if prior_err else 0.0
            rec["aug_prior"] = aug_rec[:3]
            rec["augment_dims"] = int(getattr(p, "augment_dims", 0)) if cls is AugmentedFlowProposal else 0
            # ---- latent contour of THIS population: radii of all latent points handed to the flow -----------------
            try:
                rec["r"], rec["fuzz"] = float(p.r), float(p.fuzz)
            except Exception:
                rec["r"], rec["fuzz"] = None, None
            rad = [np.sqrt(np.sum(z ** 2, axis=1)) for z in zs if z.size]
            rec["z_max_radius"] = float(max(r_.max() for r_ in rad)) if rad else 0.0
            rec["n_latent"] = int(sum(len(r_) for r_ in rad))
            if c["latent"] == "truncated_gaussian" and rec["r"] is not None and len(spy.latent_us) == len(rad) and rad:
                # the sampler is  |z| = sqrt(2 gammaincinv(d/2, u_max u)),  u_max = gammainc(d/2, (r fuzz)^2 / 2):
                # recover the truncation each latent point was drawn with from its radius and its uniform
                from scipy.special import gammainc
                a_ = 0.5 * p.dims
                want = float(gammainc(a_, 0.5 * (rec["r"] * rec["fuzz"]) ** 2))
                u_all, g_all = np.concatenate(spy.latent_us), gammainc(a_, 0.5 * np.concatenate(rad) ** 2)
                ok_u = u_all > 1e-3
                if len(u_all) == len(g_all) and ok_u.any():
                    used = g_all[ok_u] / u_all[ok_u]
                    rec["umax_used"] = [float(used.min()), float(used.max())]
                    rec["umax_want"] = want
            if first is not None or rec.get("empty_pool"):
                pass
            if c["trunc"]:
                # the threshold populate itself computed (for the augmented proposal the forward pass of the training data
                # draws fresh augment values, so it cannot be recomputed afterwards)
                if minlq_seen:
                    rec["minlq"] = fx(minlq_seen[-1])
                else:
                    with np.errstate(all="ignore"):
                        rec["minlq"] = fx(p.forward_pass(p.training_data)[1].min())
            if first is not None:
                pool = p.samples.copy()
                pk = keys_of(pool)
                rec["pool"] = [keymap.get(k, -1) for k in keys_of(p.x)]
                rec["pool_samples"] = [keymap.get(k, -1) for k in pk]
                rec["N"] = c["N"]
                rec["perm_after_first"] = [int(i) for i in p.indices]
                rec["lik"] = [[keymap.get(k, -1) for k in ks] for (what, ks, _) in model.rec if what == "lik"]
                rec["prior_calls"] = sum(1 for r in model.rec if r[0] == "prior")
                with np.errstate(all="ignore"):
                    rec["pool_inb"] = [bool(b) for b in model.in_bounds(pool)]
                    rec["pool_logP"] = [fx(v) for v in pool["logP"]]
                    rec["pool_logP_model"] = [fx(v) for v in model.raw_prior(pool)]
                    rec["pool_logL_ok"] = [bool(a == b) for a, b in zip(pool["logL"], model.raw_lik(pool))]
                rowof = {}
                for i, k in enumerate(pk):
                    rowof.setdefault(k, i)
                draws = [[rowof.get(keys_of(first)[0], -1), bool(p.populated)]]
                model.paused = False
                model.rec = []
                while p.populated and len(draws) < 4 * c["N"] + 4:
                    s = p.draw(worst)
                    draws.append([rowof.get(keys_of(s)[0], -1), bool(p.populated)])
                rec["draws"] = draws
                rec["lik_during_draws"] = sum(1 for r in model.rec if r[0] == "lik")
            model.paused = False
            out["pops"].append(rec)
            if first is None:
                break
    finally:
        np.random.rand = spy.real
        np.random.randn = real_randn
    return out


# --------------------------------------------------------------------------------------------------------
def run_rej_case(c):
    """RejectionProposal.populate / AnalyticProposal.populate / Model.new_point on a recorded stream."""
    from nessai.proposal.analytic import AnalyticProposal
    from nessai.proposal.rejection import RejectionProposal

    np.random.seed(c["seed"])
    model = make_model(c["prior"])
    N = c["N"]
    out = {}
    real_uniform = np.random.uniform
    ubatches = []

    def uniform(*a, **k):
        r = real_uniform(*a, **k)
        if sys._getframe(1).f_code.co_name in ("_multiple_new_points", "_single_new_point"):
            ubatches.append(np.array(r, dtype=float).reshape(-1, 2).copy())
        return r

    spy = RandSpy()
    np.random.uniform = uniform
    np.random.rand = spy
    try:
        model.rec = []
        if c["what"] == "newpoint":
            with np.errstate(all="ignore"):
                x = model.new_point(N=N)
            pool = np.atleast_1d(x)
            p = None
        else:
            cls = RejectionProposal if c["what"] == "rejection" else AnalyticProposal
            p = cls(model, poolsize=N)
            with np.errstate(all="ignore"):
                first = p.draw(None)
            pool = p.samples.copy()
    except Exception as e:
        return {"error": err(e) + ": " + str(e)[:200]}
    finally:
        np.random.uniform = real_uniform
        np.random.rand = spy.real
    model.paused = True
    keymap, batches, gid = {}, [], 0
    for ub in ubatches:
        from nessai.livepoint import numpy_array_to_live_points
        xs = numpy_array_to_live_points(ub, model.names)
        with np.errstate(all="ignore"):
            lp = model.raw_prior(xs)
            inb = model.in_bounds(xs)
        cs = []
        for i in range(len(lp)):
            keymap[keys_of(xs[i:i + 1])[0]] = gid
            cs.append([gid, fx(0.0), fx(0.0), bool(inb[i]), fx(lp[i])])
            gid += 1
        batches.append(cs)
    out["batches"] = batches
    pk = keys_of(pool)
    out["pool"] = [keymap.get(k, -1) for k in pk]
    out["lik"] = [[keymap.get(k, -1) for k in ks] for (what, ks, _) in model.rec if what == "lik"]
    with np.errstate(all="ignore"):
        out["pool_inb"] = [bool(b) for b in model.in_bounds(pool)]
        out["pool_logP_model"] = [fx(v) for v in model.raw_prior(pool)]
        if p is not None:
            out["pool_logP"] = [fx(v) for v in pool["logP"]]
            out["pool_logL_ok"] = [bool(a == b) for a, b in zip(pool["logL"], model.raw_lik(pool))]
    if p is not None:
        out["us"] = [fx(np.log(v)) for v in spy.calls[-1][2]] if spy.calls else []
        # the candidates of the rejection step are the points new_point returned, in order
        out["perm_after_first"] = [int(i) for i in p.indices]
        rowof = {}
        for i, k in enumerate(pk):
            rowof.setdefault(k, i)
        draws = [[rowof.get(keys_of(first)[0], -1), bool(p.populated)]]
        model.paused = False
        while p.populated and len(draws) < 4 * N + 4:
            s = p.draw(None)
            draws.append([rowof.get(keys_of(s)[0], -1), bool(p.populated)])
        out["draws"] = draws
    return out


# --------------------------------------------------------------------------------------------------------
def run_radial(c):
    from nessai.utils import sampling as S
    from scipy.special import gammainc, gammaincinv

    np.random.seed(c["seed"])
    d, r, fuzz, n = c["dims"], c["r"], c["fuzz"], c["n"]
    with np.errstate(all="ignore"):
        if c["what"] == "ndtg":
            z = S.NDimensionalTruncatedGaussian(d, r, fuzz=fuzz).sample(n)
        elif c["what"] == "tg":
            z = S.draw_truncated_gaussian(d, r, N=n, fuzz=fuzz)
        elif c["what"] == "nball":
            z = S.draw_nsphere(d, r=r, N=n, fuzz=fuzz)
        else:
            z = S.draw_surface_nsphere(d, r=r, N=n)
    rad = np.sqrt(np.sum(np.asarray(z, dtype=float) ** 2, axis=1))
    # oracle validation: gammaincinv(a, .) monotone and inverse of gammainc(a, .) at the truncation point
    a = 0.5 * d
    us = np.sort(np.random.rand(50)) * gammainc(a, 0.5 * (r * fuzz) ** 2)
    g = gammaincinv(a, us)
    top = gammainc(a, 0.5 * (r * fuzz) ** 2)
    saturated = bool(top >= 1.0)      # the CDF at the contour rounds to 1: the inverse is not resolvable there
    # inverse property checked in the well-conditioned direction: gammainc(a, gammaincinv(a, t)) = t
    return {"shape": list(np.shape(z)), "max_radius": float(rad.max()), "min_radius": float(rad.min()),
            "all_finite": bool(np.isfinite(z).all()),
            "oracle_monotone": bool(np.all(np.diff(g) >= 0)), "saturated": saturated,
            "oracle_inverse": saturated or bool(abs(gammainc(a, gammaincinv(a, top)) - top) <= 1e-12)}


# --------------------------------------------------------------------------------------------------------
def run_prims(c):
    """numpy's own float64 subtraction and comparisons on the given pairs (library-model validation)."""
    out = []
    for a, b in c["pairs"]:
        a, b = np.float64(float.fromhex(a) if a not in ("nan", "inf", "-inf") else float(a)), \
            np.float64(float.fromhex(b) if b not in ("nan", "inf", "-inf") else float(b))
        with np.errstate(all="ignore"):
            out.append([fx(a - b), bool(a > b), bool(a >= b)])
    return out


# --------------------------------------------------------------------------------------------------------
class DrawSpy:
    """class-level wrapper around <Proposal>.draw: which pool row values were handed out from which pool."""

    def __init__(self):
        self.rec = []          # (pool serial, key)
        self.serial = 0
        self.last = None

    def wrap(self, cls):
        real = cls.__dict__.get("draw")
        if real is None:
            return
        spy = self

        def draw(self_, *a, **k):
            s = real(self_, *a, **k)
            pool = getattr(self_, "samples", None)
            if pool is not spy.last:
                spy.last = pool
                spy.serial += 1
            try:
                spy.rec.append((spy.serial, keys_of(s)[0]))
            except Exception:
                pass
            return s

        cls.draw = draw


def run_real(c):
    """A short real sampler run; every argument batch of the user's log_likelihood is recorded."""
    import torch
    torch.set_num_threads(1)
    from nessai.flowsampler import FlowSampler
    from nessai.proposal.analytic import AnalyticProposal
    from nessai.proposal.flowproposal import FlowProposal

    np.random.seed(c["seed"])
    model = make_model(c["prior"])
    model.rec = []
    spy = DrawSpy()
    kw = dict(output=c["output"], nlive=c["nlive"], plot=False, resume=False, seed=c["seed"], checkpointing=False,
              signal_handling=False, flow_config={"n_blocks": 2, "n_neurons": 8},
              training_config={"max_epochs": 20, "patience": 5})
    pools = []
    if c["sampler"] == "ins":
        kw.update(importance_nested_sampler=True, max_iteration=c["max_it"], min_samples=c["nlive"] // 3,
                  draw_constant=True)
    else:
        kw.update(max_iteration=c["max_it"], maximum_uninformed=c["nlive"], poolsize=c["nlive"],
                  analytic_priors=c.get("analytic", False))
        if c.get("cls"):
            kw["flow_proposal_class"] = c["cls"]
        spy.wrap(AnalyticProposal)
        spy.wrap(FlowProposal)
        for cls in (AnalyticProposal, FlowProposal):
            pass
    kw.update(c.get("extra", {}))
    fs = FlowSampler(model, **kw)
    ns = fs.ns
    if c["sampler"] == "ins":
        pcls = type(ns.proposal)
        real_draw = pcls.draw

        def draw(self_, n, *a, **k):
            s, lq = real_draw(self_, n, *a, **k)
            pools.append({"requested": int(n), "size": int(s.size)})
            return s, lq

        pcls.draw = draw
    else:
        for pcls in {type(ns._uninformed_proposal), type(ns._flow_proposal)}:
            real_pop = pcls.populate

            def populate(self_, *a, _real=real_pop, **k):
                r = _real(self_, *a, **k)
                N = k.get("N", a[1] if len(a) > 1 else (a[0] if (a and isinstance(a[0], int)) else None))
                if N is None:
                    N = self_.poolsize
                pools.append({"cls": type(self_).__name__, "requested": int(N), "size": int(self_.samples.size),
                              "indices": int(len(self_.indices))})
                return r

            pcls.populate = populate
    with np.errstate(all="ignore"):
        fs.run(plot=False, save=False)
    model.paused = True
    bad, n_pts, n_calls = [], 0, 0
    from nessai.livepoint import numpy_array_to_live_points
    for what, ks, vals in model.rec:
        if what != "lik":
            continue
        n_calls += 1
        n_pts += len(ks)
        xs = numpy_array_to_live_points(np.array(ks, dtype=float).reshape(-1, 2), model.names)
        with np.errstate(all="ignore"):
            lp = model.raw_prior(xs)
            inb = model.in_bounds(xs)
        for k, a, b in zip(ks, lp, inb):
            if not (b and np.isfinite(a)):
                bad.append([list(k), fx(a), bool(b)])
    # pool points handed out at most once per pool
    seen, reused = set(), 0
    for item in spy.rec:
        if item in seen:
            reused += 1
        seen.add(item)
    return {"lik_calls": n_calls, "lik_points": n_pts, "bad": bad[:5], "n_bad": len(bad), "pools": pools[:200],
            "n_pools": len(pools), "draws": len(spy.rec), "reused": reused, "iterations": int(ns.iteration),
            "likelihood_evaluations": int(model.likelihood_evaluations)}


# --------------------------------------------------------------------------------------------------------
def run_ins_draw(c):
    """ImportanceNestedSampler.populate_live_points and ImportanceFlowProposal.draw with real (briefly trained) flows."""
    import torch
    torch.set_num_threads(1)
    import types
    from nessai.livepoint import numpy_array_to_live_points
    from nessai.proposal.importance import ImportanceFlowProposal
    from nessai.samplers.importancesampler import ImportanceNestedSampler as INS

    INS.add_fields()
    np.random.seed(c["seed"])
    torch.manual_seed(c["seed"])
    model = make_model(c["prior"], unit=True)
    out = {}
    # ---- populate_live_points with a namespace as self (no mocks of the code under test) ----
    model.rec = []
    cube = []
    real_cube = model.sample_unit_hypercube

    def sample_unit_hypercube(n=1):
        r = real_cube(n)
        cube.append(r.copy())
        return r

    model.sample_unit_hypercube = sample_unit_hypercube
    added = {}
    store = types.SimpleNamespace(add_initial_samples=lambda s, q: added.setdefault("live", s.copy()))
    o = types.SimpleNamespace(model=model, n_initial=c["n"], draw_iid_live=c["iid"], training_samples=store,
                              iid_samples=types.SimpleNamespace(add_initial_samples=lambda s, q: added.setdefault("iid", s.copy())),
                              sample_counts={})
    try:
        with np.errstate(all="ignore"):
            INS.populate_live_points(o)
    except Exception as e:
        out["live_error"] = err(e) + ": " + str(e)[:200]
    model.paused = True
    keymap, batches, gid = {}, [], 0
    for ub in cube:
        phys = model.from_unit_hypercube(ub)
        with np.errstate(all="ignore"):
            lp = model.raw_prior(phys)
            inb = model.in_bounds(phys)
        cs = []
        for i in range(len(lp)):
            keymap[keys_of(phys[i:i + 1])[0]] = gid
            cs.append([gid, fx(0.0), fx(0.0), bool(inb[i]), fx(lp[i])])
            gid += 1
        batches.append(cs)
    liks = [[keymap.get(k, -1) for k in ks] for (what, ks, _) in model.rec if what == "lik"]
    out["live"] = {"batches": batches, "lik": liks, "target": int(2 * c["n"]) if c["iid"] else c["n"],
                   "n_live": int(added["live"].size) if "live" in added else -1}
    model.paused = False
    model.sample_unit_hypercube = real_cube
    # ---- ImportanceFlowProposal.draw ----
    tmp = tempfile.mkdtemp(prefix="c09i_", dir=os.getcwd())
    p = ImportanceFlowProposal(model, tmp, flow_config={"n_blocks": 2, "n_neurons": 8},
                               training_config={"max_epochs": 10, "patience": 5}, reparameterisation=c["reparam"],
                               plot_training=False)
    p.initialise()
    live = added.get("live")
    if live is None:
        return out
    p.train(live, plot=False)
    p.update_proposal_weights({-1: 0.5, 0: 0.5})
    sbatches, logq_rec = [], []
    real_sample = p.flow.sample_ith
    real_logQ = p.compute_log_Q

    def sample_ith(*a, **k):
        if len(sbatches) >= c["max_batches"]:
            raise Cap()
        r = real_sample(*a, **k)
        sbatches.append(np.array(r, dtype=float).copy())
        return r

    def compute_log_Q(x_prime, log_j=None):
        r = real_logQ(x_prime, log_j=log_j)
        logq_rec.append((np.array(x_prime, dtype=float).copy(), np.array(r[0]).copy(), np.array(r[1]).copy()))
        return r

    p.flow.sample_ith = sample_ith
    p.compute_log_Q = compute_log_Q
    draws = []
    for n in c["draw_ns"]:
        del sbatches[:]
        del logq_rec[:]
        model.rec = []
        rec = {"n": n}
        try:
            with np.errstate(all="ignore"):
                s, lq = p.draw(n)
        except Cap:
            rec["cap"] = True
            s = None
        except Exception as e:
            rec["error"] = err(e) + ": " + str(e)[:200]
            s = None
        model.paused = True
        keymap, batches = {}, []
        priors = [(ks, vals) for (what, ks, vals) in model.rec if what == "prior"]
        pi = 0
        for bi, xp in enumerate(sbatches):
            with np.errstate(all="ignore"):
                x, _ = p.inverse_rescale(xp.copy())
            phys = model.from_unit_hypercube(x)
            pkeys = keys_of(phys)
            passed, lps, ok2 = {}, {}, {}
            # the sub-batch that reached compute_log_Q / log_prior belongs to this batch if its rows are rows of xp
            if pi < len(logq_rec):
                sub, logQ, lq_all = logq_rec[pi]
                rows = {tuple(r): i for i, r in enumerate(xp)}
                if len(sub) and all(tuple(r) in rows for r in sub):
                    ks, vals = priors[pi]
                    with np.errstate(all="ignore"):
                        logU = model.log_prior_unit_hypercube(
                            numpy_array_to_live_points(np.array([x[n_][[rows[tuple(r)] for r in sub]] for n_ in model.names]).T,
                                                       model.names))
                        logW = logU - logQ
                        good = ~np.isposinf(logW) & ~np.isnan(lq_all).all(axis=1) & ~np.isposinf(lq_all).all(axis=1)
                    for j, r in enumerate(sub):
                        i = rows[tuple(r)]
                        passed[i] = True
                        lps[i] = vals[j]
                        ok2[i] = bool(good[j])
                    pi += 1
            cs = []
            for i in range(len(xp)):
                gid = bi * 100000 + i
                keymap[pkeys[i]] = gid
                cs.append([gid, fx(0.0) if ok2.get(i, True) else "nan", fx(0.0), bool(passed.get(i, False)),
                           fx(lps.get(i, float("nan")))])
            batches.append(cs)
        rec["batches"] = batches
        if s is not None:
            phys = model.from_unit_hypercube(s)
            rec["out"] = [keymap.get(k, -1) for k in keys_of(phys)]
            with np.errstate(all="ignore"):
                rec["out_inb"] = [bool(b) for b in model.in_bounds(phys)]
                rec["out_logP_model"] = [fx(v) for v in model.raw_prior(phys)]
                rec["out_logP"] = [fx(v) for v in s["logP"]]
        model.paused = False
        draws.append(rec)
    out["draws"] = draws
    # ---- ImportanceFlowProposal.draw_from_flows followed by the likelihood call of draw_final_samples -------------------
    p.flow.sample_ith = real_sample
    p.compute_log_Q = real_logQ
    ff = []
    for n, mode in c.get("from_flows", []):
        rec = {"n": n, "mode": mode}
        primes = []
        real_inv = p.inverse_rescale

        def inv(xp, _real=real_inv):
            primes.append(np.array(xp, dtype=float).copy())
            return _real(xp)

        p.inverse_rescale = inv
        model.rec = []
        model.paused = False
        s = None
        try:
            with np.errstate(all="ignore"):
                if mode == "counts":
                    s, lq, counts = p.draw_from_flows(n, counts=[n // 3, n - n // 3])
                else:       # what draw_final_samples passes: an array of normalised weights
                    s, lq, counts = p.draw_from_flows(n, weights=p.weights_array / p.weights_array.sum())
                s["logL"] = model.batch_evaluate_log_likelihood(s, unit_hypercube=True)
        except Exception as e:
            rec["error"] = err(e) + ": " + str(e)[:200]
        finally:
            del p.inverse_rescale
        model.paused = True
        if primes:
            prime = primes[0]
            with np.errstate(all="ignore"):
                x, ljinv = real_inv(prime.copy())
                xc, lj = p.rescale(x)
                inb = (model.in_unit_hypercube(x) & np.isfinite(xc).all(axis=1) & np.isfinite(prime).all(axis=1)
                       & np.isfinite(lj) & np.isfinite(ljinv))
                phys = model.from_unit_hypercube(x)
                lp = model.raw_prior(phys)
                lqa = np.zeros((len(prime), p.n_proposals))
                if p.n_proposals > 1:
                    lqa[:, 1:] = p.flow.log_prob_all(prime) + lj[:, np.newaxis]
                ok2 = ~np.isnan(lqa).all(axis=1) & ~np.isposinf(lqa).all(axis=1)
            pkeys = keys_of(phys)
            keymap = {k: i for i, k in enumerate(pkeys)}
            rec["cands"] = [[i, fx(0.0) if ok2[i] else "nan", fx(0.0), bool(inb[i]), fx(lp[i])] for i in range(len(prime))]
            rec["n_outside_cube"] = int((~model.in_unit_hypercube(x)).sum())
            if s is not None:
                ph = model.from_unit_hypercube(s)
                rec["out"] = [keymap.get(k, -1) for k in keys_of(ph)]
                with np.errstate(all="ignore"):
                    rec["out_inb"] = [bool(b) for b in model.in_bounds(ph)]
                    rec["out_logP_model"] = [fx(v) for v in model.raw_prior(ph)]
                    rec["out_logP"] = [fx(v) for v in s["logP"]]
                bad = []
                nl = 0
                for what, ks, _ in model.rec:
                    if what != "lik":
                        continue
                    nl += len(ks)
                    pts = numpy_array_to_live_points(np.array(ks, dtype=float).reshape(-1, 2), model.names)
                    with np.errstate(all="ignore"):
                        okp = model.in_bounds(pts) & np.isfinite(model.raw_prior(pts))
                    bad += [list(k) for k, o_ in zip(ks, okp) if not o_]
                rec["lik_points"] = nl
                rec["lik_outside"] = bad[:5]
                rec["n_lik_outside"] = len(bad)
        model.paused = False
        ff.append(rec)
    out["from_flows"] = ff
    return out


# --------------------------------------------------------------------------------------------------------
def run_latent(c):
    """ORACLE VALIDATION: the latent draws of every latent prior follow the density whose log-density populate uses as
    log_q.  Draws go through the real FlowProposal.prep_latent_prior / draw_latent_prior (dims >= 2) or, in one dimension
    (no flow can be built), through the sampling function prep_latent_prior would bind.  Each draw is mapped to statistics
    that are uniform on [0, 1] under the stated density; the driver bounds the bin counts with exact binomial quantiles."""
    from scipy import stats
    from nessai.model import Model
    from nessai.proposal.flowproposal import FlowProposal
    np.random.seed(c["seed"])
    d, latent, R, fuzz, n = c["dims"], c["latent"], c["r"], c["fuzz"], c["n"]

    if d >= 2:
        import torch
        torch.manual_seed(c["seed"])

        class U(Model):
            def __init__(self):
                self.names = [f"x{i}" for i in range(d)]
                self.bounds = {k: [-5.0, 5.0] for k in self.names}

            def log_prior(self, x):
                return np.log(self.in_bounds(x), dtype=float) - d * np.log(10.0)

            def log_likelihood(self, x):
                return np.zeros(x.size)

        tmp = tempfile.mkdtemp(prefix="c09l_", dir=os.getcwd())
        p = FlowProposal(U(), poolsize=10, output=tmp, plot=False, latent_prior=latent, constant_volume_mode=False,
                         fixed_radius=R, expansion_fraction=None, fuzz=fuzz, flow_config={"n_blocks": 1, "n_neurons": 4})
        if latent == "flow":
            p.initialise()
            p.fuzz = fuzz
        else:
            p.set_rescaling()
        p.r = R
        p.prep_latent_prior()
        z = np.concatenate([np.asarray(p.draw_latent_prior(n // 4), dtype=float) for _ in range(4)])
        how = "FlowProposal.prep_latent_prior + draw_latent_prior"
    else:
        from nessai.utils import sampling as S
        if latent == "truncated_gaussian":
            z = S.NDimensionalTruncatedGaussian(d, R, fuzz=fuzz).sample(n)
        elif latent in ("uniform_nball", "uniform_nsphere"):
            z = S.draw_nsphere(d, r=R, N=n, fuzz=fuzz)
        elif latent == "gaussian":
            z = S.draw_gaussian(d, r=R, N=n, fuzz=fuzz)
        elif latent == "uniform":
            z = S.draw_uniform(d, r=R, N=n, fuzz=fuzz)
        else:
            return {"skipped": "no flow in one dimension"}
        z = np.asarray(z, dtype=float)
        how = "nessai.utils.sampling (the function prep_latent_prior binds)"
    rad = np.sqrt(np.sum(z ** 2, axis=1))
    lim = R * fuzz
    st = {}
    if latent in ("uniform_nball", "uniform_nsphere"):
        st["radial: (|z| / (r fuzz))^d"] = (rad / lim) ** d                 # uniform density in the ball
    elif latent == "truncated_gaussian":
        st["radial: chi2 cdf of |z|^2, truncated at r fuzz"] = stats.chi2.cdf(rad ** 2, d) / stats.chi2.cdf(lim ** 2, d)
    elif latent in ("gaussian", "flow"):
        st["radial: chi2 cdf of |z|^2"] = stats.chi2.cdf(rad ** 2, d)
        st["coordinate 0: normal cdf"] = stats.norm.cdf(z[:, 0])
        st[f"coordinate {d - 1}: normal cdf"] = stats.norm.cdf(z[:, -1])
    elif latent == "uniform":
        st["coordinate 0"] = z[:, 0]
        st[f"coordinate {d - 1}"] = z[:, -1]
    if latent in ("uniform_nball", "uniform_nsphere", "truncated_gaussian"):
        # direction: isotropic, so every coordinate of z / |z| is symmetric and (d >= 2) its square is Beta(1/2, (d-1)/2)
        st["direction: sign of coordinate 0"] = None
        if d >= 2:
            st["direction: beta cdf of (z_0 / |z|)^2"] = stats.beta.cdf((z[:, 0] / rad) ** 2, 0.5, 0.5 * (d - 1))
    edges = [0.0, 0.25, 0.5, 0.75, 1.0]
    out = {"how": how, "n": int(len(z)), "shape_ok": bool(z.shape == (len(z), d)), "stats": {}}
    for k, u in st.items():
        if k.startswith("direction: sign"):
            cnt = [int(np.sum(z[:, 0] <= 0)), int(np.sum(z[:, 0] > 0))]
            out["stats"][k] = {"counts": cnt, "probs": [0.5, 0.5]}
            continue
        u = np.asarray(u, dtype=float)
        cnt = [int(np.sum((u >= a) & (u < b))) for a, b in zip(edges[:-1], edges[1:])]
        cnt[-1] += int(np.sum(u >= 1.0))
        out["stats"][k] = {"counts": cnt, "probs": [0.25] * 4, "outside": int(np.sum((u < 0) | (u > 1 + 1e-12) | ~np.isfinite(u)))}
    return out


# --------------------------------------------------------------------------------------------------------
def run_stat(c):
    """VALIDATION ONLY (not part of the proof): the pool of a trained FlowProposal against brute-force rejection sampling
    from the prior restricted to the same latent contour, two-sample KS test per coordinate."""
    import torch
    torch.set_num_threads(1)
    from scipy import stats
    from nessai.proposal.flowproposal import FlowProposal
    np.random.seed(c["seed"])
    torch.manual_seed(c["seed"])
    model = make_model(c["prior"])
    tmp = tempfile.mkdtemp(prefix="c09s_", dir=os.getcwd())
    p = FlowProposal(model, poolsize=c["N"], drawsize=c["N"], output=tmp, plot=False, latent_prior="truncated_gaussian",
                     constant_volume_mode=True, update_poolsize=False, flow_config={"n_blocks": 2, "n_neurons": 8},
                     training_config={"max_epochs": 60, "patience": 20}, accumulate_weights=c.get("acc", False))
    p.initialise()
    x = model.new_point(2000)
    x["logL"] = model.raw_lik(x)
    x["logP"] = model.raw_prior(x)
    live = x[np.argsort(x["logL"])[1000:]]
    p.train(live, plot=False)
    with np.errstate(all="ignore"):
        p.populate(live[0], N=c["N"], plot=False)
    pool = p.samples.copy()
    r = p.r
    brute = []
    lp_max = float(np.max(model.raw_prior(model.new_point(20000))))
    while sum(len(b) for b in brute) < c["N"] and len(brute) < 400:
        y = model.new_point(5000)           # uniform in the bounds where the prior is finite ...
        lp = model.raw_prior(y)
        y = y[np.log(np.random.rand(y.size)) < lp - lp_max]      # ... thinned to the prior itself
        with np.errstate(all="ignore"):
            z, _ = p.forward_pass(y, rescale=True, compute_radius=True)
        keep = np.sqrt(np.sum(z ** 2, axis=1)) <= r
        brute.append(y[keep])
    brute = np.concatenate(brute)
    out = {"n_pool": int(pool.size), "n_brute": int(brute.size), "radius": float(r)}
    for nm in model.names:
        out["ks_p_" + nm] = float(stats.ks_2samp(pool[nm], brute[nm]).pvalue)
    return out


# --------------------------------------------------------------------------------------------------------
def main():
    import logging
    logging.disable(logging.CRITICAL)
    import warnings
    warnings.filterwarnings("ignore")
    import torch
    torch.set_num_threads(1)
    from nessai.utils.logging import setup_logger
    setup_logger(output=None, log_level="CRITICAL")
    job = json.load(sys.stdin)
    out = {}
    table = {"flow": run_flow_case, "rej": run_rej_case, "radial": run_radial, "prims": run_prims,
             "real": run_real, "ins": run_ins_draw, "stat": run_stat, "latent": run_latent}
    for kind, fn in table.items():
        res = []
        for c in job.get(kind, []):
            try:
                res.append(fn(c))
            except Cap:
                res.append({"cap": True})
            except Exception as e:
                import traceback
                res.append({"child_error": err(e), "trace": traceback.format_exc()[-1500:]})
        out[kind] = res
    json.dump(out, sys.stdout)


if __name__ == "__main__":
    main()
