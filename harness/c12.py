"""C12: resuming restores the checkpointed state and yields a valid, accounted run."""
import json
import os
import sys
import threading

import common
from common import cB, cL, cOpt, cStr, cT, cZ

sys.path.insert(0, common.VERIF + "/translator")

PID = "C12"
IMPORTS = "From NessaiV Require Import Model.C12_Resume Proofs.C12_Resume_proofs Run.C12_run.\nOpen Scope string_scope.\n"

INS = {"importance_nested_sampler": True, "nlive": 100, "min_samples": 20, "plot": False, "seed": 1,
       "signal_handling": False, "max_iteration": 3, "flow_config": {"n_blocks": 2, "n_neurons": 8},
       "training_config": {"max_epochs": 20}, "checkpoint_interval": 1, "checkpoint_on_iteration": True}
STD = {"nlive": 50, "plot": False, "seed": 1, "signal_handling": False, "checkpoint_on_iteration": True,
       "checkpoint_interval": 1, "max_iteration": 160}
KWARGS = {
    "std": STD,                                                           # a checkpoint after every iteration
    "aug": dict(STD, flow_proposal_class="augmentedflowproposal", max_iteration=130),
    "std_pool": dict(STD, poolsize=10, max_iteration=140),                # small pool: checkpoints with an empty pool
    # time-triggered with a vanishing interval: a resumed sampler checkpoints at loop entry
    "std_entry": dict(STD, checkpoint_on_iteration=False, checkpoint_interval=1e-9, max_iteration=130),
    "std_time": dict(STD, checkpoint_on_iteration=False, checkpoint_interval=0.05),    # time-triggered
    "std_chain": dict(STD, checkpoint_interval=10),
    "aug_chain": dict(STD, checkpoint_interval=10, flow_proposal_class="augmentedflowproposal", max_iteration=130),
    "ins": INS,                                                           # save_log_q=False: densities re-derived
    "ins_logq": dict(INS, save_log_q=True),
    "ins_chain": dict(INS, max_iteration=4),
    "ins_legs": dict(INS, max_iteration=6, min_iteration=5),
    # SIGTERM delivered at a likelihood call inside FlowProposal.populate: the handler's checkpoint has populating=True
    "std_signal_a": dict(STD, signal_handling=True, checkpoint_interval=100000),
    "std_signal_b": dict(STD, signal_handling=True, checkpoint_interval=100000),
    # many stored samples (15 000 per store after two iterations; the density table is re-derived on resume)
    "ins_big": dict(INS, nlive=5000, min_samples=500, max_iteration=2, training_config={"max_epochs": 10}),
    "ins_huge": dict(INS, nlive=20000, min_samples=2000, max_iteration=3, training_config={"max_epochs": 5}),
}
# class of each digested object -> (nessai class whose skeleton applies, classification table)
OBJ_CLASS = {
    ("std", "ns"): "NestedSampler", ("std", "ns._flow_proposal"): "FlowProposal",
    ("aug", "ns._flow_proposal"): "AugmentedFlowProposal",
    ("std", "ns._uninformed_proposal"): "RejectionProposal",
    ("ins", "ns"): "ImportanceNestedSampler", ("ins", "ns.proposal"): "ImportanceFlowProposal",
    ("ins", "ns.proposal.flow"): "ImportanceFlowModel",
    ("ins", "ns.training_samples"): "OrderedSamples", ("ins", "ns.iid_samples"): "OrderedSamples",
}


def family(sampler):
    return "ins" if sampler.startswith("ins") else "std"


def obj_class(sampler, role):
    if role == "ns._flow_proposal" and sampler.startswith("aug"):
        return "AugmentedFlowProposal"
    return OBJ_CLASS.get((family(sampler), role))


# ---------------------------------------------------------------------------------------------
# tie A
# ---------------------------------------------------------------------------------------------
def translate(chk):
    import c12_fields as t
    from pyast import Declined
    known = json.load(open(os.path.join(common.VERIF, "corpus", "C12", "known_fields.json")))["fields"]
    status, sks, infos = {}, {}, {}
    unclassified = {}
    for cname, cls in t.TARGETS:
        try:
            term, info = t.skeleton(cname)
            sks[cname] = (term, cls)
            infos[cname] = info
            new = sorted(set(info["fields"]) - set(known.get(cname, [])))
            status[cname] = (f"translated: excl={info['excl']} over={info['over']} carried={info['carried']} "
                             f"reattach={info['reattach']} rederive={info['rederive']} fields={len(info['fields'])}")
            if new:
                unclassified[cname] = new
                status[cname] += f"; unclassified fields (not in the committed universe): {new}"
        except Declined as e:
            status[cname] = f"declined: {e} (correspondence decides)"
        except Exception as e:
            status[cname] = f"declined: translator error {type(e).__name__}: {e}"
    try:
        sks["OrderedSamples_saved"] = (t.saved_log_q_variant(), "cls_samples_saved")
        status["OrderedSamples(save_log_q=True)"] = "translated"
    except Declined as e:
        status["OrderedSamples(save_log_q=True)"] = f"declined: {e}"
    except Exception as e:
        status["OrderedSamples(save_log_q=True)"] = f"declined: translator error {type(e).__name__}: {e}"
    effs = None
    try:
        effs = t.counter_effects()
        status["counters"] = f"translated: {effs}"
    except Declined as e:
        status["counters"] = f"declined: {e}"
    except Exception as e:
        status["counters"] = f"declined: translator error {type(e).__name__}: {e}"
    prol = None
    try:
        prol = t.loop_prologue()
        status["loop_prologue"] = f"translated: {prol}"
    except Declined as e:
        status["loop_prologue"] = f"declined: {e}"
    except Exception as e:
        status["loop_prologue"] = f"declined: translator error {type(e).__name__}: {e}"
    try:
        bplan, per = t.log_prob_plan()
        status["log_prob_batching"] = f"translated: {bplan} (log_prob_all, log_prob_ith: {per})" + \
            ("; no batching" if bplan == "NoBatch" else "")
        chk._bplan = bplan
    except Declined as e:
        status["log_prob_batching"] = f"declined: {e}"
        chk._bplan = None
    except Exception as e:
        status["log_prob_batching"] = f"declined: translator error {type(e).__name__}: {e}"
        chk._bplan = None
    try:
        seff, sites = t.resume_seeding()
        status["resume_seeding"] = f"translated: {seff}" + (f" sites: {sites}" if sites else " (the resume path does not touch the generators)")
        chk._seff = seff
    except Declined as e:
        status["resume_seeding"] = f"declined: {e}"
        chk._seff = None
    except Exception as e:
        status["resume_seeding"] = f"declined: translator error {type(e).__name__}: {e}"
        chk._seff = None
    chk.translator = status
    return sks, infos, effs, unclassified, known, prol


def today(chk, sks, effs, unclassified, prol=None):
    txt = common.COQ_HEADER + IMPORTS
    for cname, (term, cls) in sks.items():
        # unclassified (new) attributes are left to the correspondence: drop them from the universe
        txt += f"Definition sk_{cname}_all : skel := {term}.\n"
        drop = cL([cStr(f) for f in unclassified.get(cname, [])])
        txt += (f"Definition sk_{cname} : skel := {{| sk_fields := filter (fun f => negb (fmem f {drop})) "
                f"(sk_fields sk_{cname}_all); sk_excl := sk_excl sk_{cname}_all; sk_over := sk_over sk_{cname}_all; "
                f"sk_carried := sk_carried sk_{cname}_all; sk_reattach := sk_reattach sk_{cname}_all; "
                f"sk_rederive := sk_rederive sk_{cname}_all |}}.\n")
        txt += f"Lemma today_{cname} : fields_ok sk_{cname} {cls} = true.\nProof. vm_compute. reflexivity. Qed.\n"
        txt += (f"Lemma today_property_{cname} : forall (V : Type) (ov env : field -> option V) "
                f"(drv : obj V -> field -> option V) (o : obj V),\n"
                f"  consistent V sk_{cname} {cls} ov drv o -> forall f, In f (sk_fields sk_{cname}) ->\n"
                f"  result_view V {cls} (roundtrip V sk_{cname} ov env drv o) f = result_view V {cls} o f.\n"
                f"Proof. intros V ov env drv o. exact (roundtrip_view V sk_{cname} {cls} today_{cname} ov env drv o). Qed.\n")
    if effs:
        for key, e in effs.items():
            txt += f"Definition effs_{key} : list ceff := {e}.\n"
            txt += f"Lemma today_counter_{key} : counter_ok effs_{key} = true.\nProof. vm_compute. reflexivity. Qed.\n"
            txt += (f"Lemma today_counter_property_{key} : forall segs, chain effs_{key} segs = total segs.\n"
                    f"Proof. exact (counters effs_{key} today_counter_{key}). Qed.\n")
    if prol:
        txt += f"Definition prologue_now : list peff := {prol}.\n"
        txt += "Lemma today_prologue : prologue_ok prologue_now = true.\nProof. vm_compute. reflexivity. Qed.\n"
        txt += ("Lemma today_prologue_property : forall orig cks, Forall (fun note => note = orig) "
                "(p_written (prologue prologue_now cks (after_resume_pool orig))).\n"
                "Proof. exact (prologue_sound prologue_now today_prologue). Qed.\n")
    if getattr(chk, "_bplan", None):
        txt += f"Definition bplan_now : bplan := {chk._bplan}.\n"
        txt += "Lemma today_bplan : bplan_ok bplan_now = true.\nProof. vm_compute. reflexivity. Qed.\n"
        txt += ("Lemma today_bplan_property : forall (A B : Type) (d : A) (f : A -> B) (garbage : nat -> B) (l : list A),\n"
                "  batch_eval d f garbage (plan_of bplan_now (List.length l)) l = map f l.\n"
                "Proof. exact (bplan_sound bplan_now today_bplan). Qed.\n")
    if getattr(chk, "_seff", None) is not None:
        txt += f"Definition seeding_now : list seff := {chk._seff}.\n"
        txt += "Lemma today_seeding : seeding_ok seeding_now = true.\nProof. vm_compute. reflexivity. Qed.\n"
        txt += ("Lemma today_seeding_property : forall seed legs, NoDup (map fst legs) -> NoDup (run_draws seeding_now seed legs).\n"
                "Proof. exact (seeding_sound seeding_now today_seeding). Qed.\n")
    ok, _, err = chk.coq_run("today", txt)
    chk.oblige("today: fields_ok on the regenerated skeletons of NestedSampler, ImportanceNestedSampler, FlowProposal, "
               "AugmentedFlowProposal, RejectionProposal, ImportanceFlowProposal, ImportanceFlowModel, OrderedSamples, "
               "Model; counter_ok on resume_from_pickled_sampler; prologue_ok on the loop prologue of nested_sampling_loop "
               "(check_resume before the first update_state); bplan_ok on the batching of log_prob_all / log_prob_ith; seeding_ok on the resume path (no seeding); "
               "instantiated roundtrip / counter / entry-checkpoint / batched re-derivation theorems",
               "today", ok, err)
    if not ok:
        ex = common.COQ_HEADER + IMPORTS
        for cname, (term, cls) in sks.items():
            ex += f"Eval vm_compute in (bad_fields {term} {cls}).\n"
        ok2, evals, _ = chk.coq_run("today_explain", ex)
        if ok2:
            chk.notes.append("fields the checker rejects per class: " +
                             "; ".join(f"{c}: {e}" for c, e in zip(sks, evals) if e.strip() != "[]"))
    return ok


# ---------------------------------------------------------------------------------------------
def gen_jobs(chk):
    q = chk.tier == "quick"
    sel = {"max": 9} if q else {"stride": 5}
    shards = [
        [{"id": "std", "kind": "snapshots", "sampler": "std", "select": sel}],
        [{"id": "aug", "kind": "snapshots", "sampler": "aug", "select": {"max": 4} if q else {"stride": 8}},
         {"id": "ins", "kind": "snapshots", "sampler": "ins", "select": {"first": 5}}],
        [{"id": "ins_logq", "kind": "snapshots", "sampler": "ins_logq", "select": {"first": 5}},
         {"id": "chain-ins", "kind": "chain", "sampler": "ins_chain", "kills": [450, 300], "pre_evals": 3}],
        [{"id": "chain-std", "kind": "chain", "sampler": "std_chain", "kills": [180, 250], "pre_evals": 3}],
        [{"id": "std_pool", "kind": "snapshots", "sampler": "std_pool", "select": {"max": 6} if q else {"stride": 6}}],
        [{"id": "std_entry", "kind": "regen", "sampler": "std_entry", "select": {"max": 2 if q else 8}}],
        [{"id": "ins_big", "kind": "snapshots", "sampler": "ins_big", "select": {"first": 5}},
         {"id": "std_signal_a", "kind": "snapshots", "sampler": "std_signal_a", "signal_at": 420}],
        # runs resumed four times: kills in the uninformed phase (the proposal draws straight from numpy.random) and in
        # the flow phase
        [{"id": "chain-std-legs", "kind": "chain", "sampler": "std_chain", "kills": [130, 40, 60, 300, 120], "pre_evals": 2},
         {"id": "std_signal_b", "kind": "snapshots", "sampler": "std_signal_b", "signal_at": 540}],
        [{"id": "chain-ins-legs", "kind": "chain", "sampler": "ins_legs", "kills": [401, 210, 210, 210], "pre_evals": 1}],
    ]
    if not q:
        shards += [
            [{"id": "ins_huge", "kind": "snapshots", "sampler": "ins_huge", "select": {"first": 6}}],
            [{"id": "std_time", "kind": "snapshots", "sampler": "std_time", "select": {"stride": 7, "max": 25}}],
            [{"id": "chain-std-2", "kind": "chain", "sampler": "std_chain", "kills": [101, 120, 333, 50], "pre_evals": 5},
             {"id": "chain-ins-2", "kind": "chain", "sampler": "ins_chain", "kills": [401, 250, 250], "pre_evals": 1}],
            [{"id": "chain-aug", "kind": "chain", "sampler": "aug_chain", "kills": [420, 200], "pre_evals": 2},
             {"id": "chain-std-3", "kind": "chain", "sampler": "std_chain", "kills": [520, 150, 90], "pre_evals": 0}],
        ]
    return shards


def run_children(chk, shards):
    outs = [None] * len(shards)

    import time as _time
    t_child0 = _time.time()

    def work(i):
        job = {"root": os.path.join(chk.build, f"w{i}"), "timeout": 400, "kwargs": KWARGS, "jobs": shards[i]}
        rc, out, err = chk.child("c12_child.py", timeout=1500 if chk.tier == "quick" else 3000, inp=json.dumps(job))
        try:
            outs[i] = json.loads(out)["results"]
        except (ValueError, KeyError):
            outs[i] = [{"id": f"shard{i}", "error": f"rc={rc} {err[-1500:]}"}]
        chk.notes.append(f"worker {i} ({', '.join(j['id'] for j in shards[i])}): {_time.time() - t_child0:.0f} s")

    ths = [threading.Thread(target=work, args=(i,)) for i in range(len(shards))]
    for t in ths:
        t.start()
    for t in ths:
        t.join()
    return [r for o in outs for r in o]


# ---------------------------------------------------------------------------------------------
def chain_facts(r):
    """segments (m0, d) of a kill / resume chain, the count finally reported, and failures.
    A process resumes from the newest checkpoint on disk, which an earlier process than the one
    killed last may have written (a process killed before its first checkpoint leaves nothing)."""
    procs = r["procs"]
    problems = []
    parent = {}
    for i, p in enumerate(procs):
        if p.get("error"):
            # an exception in the very first process is the harness's business; in a resumed one it is the property's
            problems.append(("harness" if i == 0 else "resumed-run-raised", p["error"][-300:]))
            return [], None, problems
        if p["start"] is None:
            problems.append(("resume-raised", f"process {i} could not be started / resumed (status {p['status']})"))
            return [], None, problems
        st = p["start"]
        if i == 0 or not st["resumed"]:
            if i and any(q["checkpoints"] for q in procs[:i]):
                problems.append(("not-resumed", f"process {i} started afresh although a checkpoint had been written"))
                return [], None, problems
            parent[i] = None
            continue
        found = None
        for j in range(i - 1, -1, -1):
            cps = [c for c in procs[j]["checkpoints"] if c["meta"]["iteration"] == st["iteration"]]
            if cps:
                found = (j, cps[-1])
                break
            if procs[j]["checkpoints"]:
                break       # a newer checkpoint exists on disk than the one resumed from
        if found is None:
            problems.append(("resumed-unknown-checkpoint", f"process {i} resumed at iteration {st['iteration']}, which is "
                                                           f"not the newest checkpoint on disk"))
            return [], None, problems
        parent[i] = found
    last = len(procs) - 1
    if procs[last]["end"] is None:
        problems.append(("did-not-finish", f"last process ended with status {procs[last]['status']}"))
        return [], None, problems
    segs = [(procs[last]["start"]["m0"], procs[last]["end"]["calls"] - procs[last]["start"]["m0"])]
    i = last
    while parent.get(i) is not None:
        j, cp = parent[i]
        segs.insert(0, (procs[j]["start"]["m0"], cp["meta"]["calls"] - procs[j]["start"]["m0"]))
        i = j
    # timing: within one process the sampler cannot have accumulated more sampling time than the process has spent
    # inside run() (a larger increment means an interval counted twice or the time between kill and resume counted),
    # a resumed process starts from the time its checkpoint recorded, and the reported time never decreases
    for i, p in enumerate(procs):
        st = p["start"]
        if st is None or "sampling_time" not in st:
            continue
        marks = [c["meta"] for c in p["checkpoints"]] + ([p["end"]["meta"]] if p.get("end") else [])
        prev = st["sampling_time"]
        for m in marks:
            if "sampling_time" not in m:
                continue
            inc = m["sampling_time"] - st["sampling_time"]
            if inc > m.get("wall_in_run", 0.0) * 1.05 + 0.5:
                problems.append(("sampling-time-inflated",
                                 f"process {i} ({'resumed' if st['resumed'] else 'fresh'}): sampling time grew by {inc:.2f} s by "
                                 f"iteration {m['iteration']} although only {m.get('wall_in_run', 0.0):.2f} s had been spent inside run()"))
                break
            if m["sampling_time"] < prev - 1e-6:
                problems.append(("sampling-time-reset", f"process {i}: sampling time went from {prev:.2f} s to {m['sampling_time']:.2f} s"))
                break
            prev = m["sampling_time"]
        if st["resumed"] and parent.get(i) is not None:
            cp = parent[i][1]["meta"]
            if "sampling_time" in cp and abs(cp["sampling_time"] - st["sampling_time"]) > 1e-6:
                problems.append(("sampling-time-not-restored",
                                 f"process {i} resumed with sampling time {st['sampling_time']:.3f} s, the checkpoint recorded {cp['sampling_time']:.3f} s"))
    return segs, procs[last]["end"], problems


def inv_problems(inv, ref):
    out = []
    if "n_nested" in inv:
        off = lambda v: (v["n_nested"] - v["iteration"], v["n_insertion"] - v["iteration"], v["n_logLs"] - v["iteration"],
                         v["n_live"])
        for k in ("sorted", "live_sorted", "live_above", "finite_logZ"):
            if not inv[k]:
                out.append(f"{k} is false")
        if inv.get("n_distinct") is not None and inv["n_distinct"] != inv["n_points"]:
            out.append(f"{inv['n_points'] - inv['n_distinct']} of the {inv['n_points']} accepted points (nested + live) are exact "
                       f"duplicates of another one")
        if inv.get("strictly_increasing") is False and (ref is None or ref.get("strictly_increasing", True)):
            out.append("the nested log-likelihoods are not strictly increasing (an uninterrupted run's are)")
        if ref is not None and off(inv) != off(ref) and inv["finalised"] == ref["finalised"]:
            out.append(f"counts (nested-it, insertion-it, logLs-it, nlive) = {off(inv)}, uninterrupted run has {off(ref)}")
        if ref is None and off(inv)[:3] != (0, 0, 1) and not inv["finalised"]:
            out.append(f"counts (nested-it, insertion-it, logLs-it) = {off(inv)[:3]}, expected (0, 0, 1)")
    else:
        if not inv["sorted"] or not inv["finite_logZ"]:
            out.append("samples unsorted or evidence not finite")
        if inv.get("n_distinct") is not None and inv["n_distinct"] != inv["n_samples"]:
            out.append(f"{inv['n_samples'] - inv['n_distinct']} of the {inv['n_samples']} samples are exact duplicates")
        if not (inv["n_samples"] == inv["counts_total"] == inv["state_n"]):
            out.append(f"sample accounting: samples {inv['n_samples']}, counts {inv['counts_total']}, state {inv['state_n']}")
        if inv["log_q_shape"] != [inv["n_samples"], inv["n_models"] + 1]:
            out.append(f"log_q shape {inv['log_q_shape']} for {inv['n_samples']} samples and {inv['n_models']} flows")
        bad = {k: v for k, v in inv["history_len"].items() if v not in (0, inv["iteration"])}
        if bad:
            out.append(f"history lengths {bad} at iteration {inv['iteration']}")
    return out


def run(chk):
    chk.rule = ("real checkpoints of real runs (standard sampler with a checkpoint after every iteration: uninformed and flow "
                "phase, populated pool, after each training; augmented proposal; importance sampler with and without "
                "saved density tables; time-triggered checkpoints in the thorough tier), each resumed in a fresh process and "
                "compared attribute by attribute; kill / resume chains with kills at chosen likelihood calls; non-trivial = a "
                "checkpoint with a state category (phase, pool, training count, level) not seen before or a chain; distinct "
                "by (run, checkpoint index)")
    chk.assumptions += [
        "oracle: pickle / torch.save round-trip values exactly (the digests compare bytes of arrays, float bit patterns)",
        "oracle: the density table log_q is a function of the samples and the flows (what resume recomputes when "
        "save_log_q=False); compared numerically with rtol=atol=1e-4 ('float32 accuracy')",
        "the resuming process starts from a fresh model object (C12_counters_reused_model_refuted shows it is needed)",
        "classification of attributes into result-bearing / derived / transient (tables in coq/Model/C12_Resume.v); an "
        "attribute not in corpus/C12/known_fields.json is 'unclassified': if __getstate__ drops it, it is presumed "
        "transient and only the continuation of the run can tell otherwise",
    ]
    chk.static_props(["C12"], ["C12_run"])
    sks, infos, effs, unclassified, known, prol = translate(chk)
    today(chk, sks, effs, unclassified, prol)

    results = run_children(chk, gen_jobs(chk))
    fields, field_src, rts = [], [], []
    chains, chain_src = [], []
    ref_inv = {}
    ids = {}
    seen_cat = set()

    def did(d):
        return ids.setdefault(d, len(ids))

    def compare(sampler, n, before, after, close, replay, out, out_src, with_rt):
        """attribute-by-attribute literals (class kind, field, digest before, digest after, presumed transient)"""
        bef = {(e["role"], e["field"]): e for e in before}
        aft = {(e["role"], e["field"]): e for e in after}
        by_obj = {}
        for key in sorted(set(bef) | set(aft)):
            role, f = key
            kind = (bef.get(key) or aft.get(key))["kind"]
            b = bef[key]["digest"] if key in bef else None
            x = aft[key]["digest"] if key in aft else None
            if f == "log_q" and close.get(f"{role}:log_q", {}).get("close") and not KWARGS[sampler].get("save_log_q"):
                x = b          # re-derived density table agrees to float32 accuracy (a saved one must be exact)
            cname = obj_class(sampler, role)
            presumed = bool(cname and cname in infos and f in infos[cname]["excl"]
                            and f not in known.get(cname, []) and f not in infos[cname]["carried"])
            if presumed:
                chk.count("presumed-transient:" + f)
            out.append(cT(cStr(kind), cStr(f), cOpt(None if b is None else did(b)),
                          cOpt(None if x is None else did(x)), cB(presumed)))
            out_src.append((sampler, n, role, f, replay))
            if b is not None and not presumed:
                by_obj.setdefault((role, kind), []).append((f, did(b)))
        if with_rt:
            for (role, kind), fl in by_obj.items():
                cname = obj_class(sampler, role)
                if cname in sks:
                    rts.append((cname, cT(cStr(kind), cL([cT(cStr(f), str(i)) for f, i in fl]))))

    entry_fields, entry_src = [], []
    for r in results:
        if "error" in r:
            chk.oblige(f"job {r['id']} ran", "harness", False, r["error"])
            continue
        if r["kind"] == "regen":
            sampler = r["id"]
            chk.count(f"{sampler}:checkpoints_written", r["n_checkpoints"])
            for c in r["cases"]:
                chk.evaluations += 1
                chk.nontriv((sampler, "regen", c["n"]))
                m1 = c["meta1"]
                replay = {"job": {"id": r["id"], "kind": "regen", "sampler": sampler, "select": {"only": [c["n"]]}},
                          "kwargs": KWARGS[sampler], "meta": m1}
                if "gen2" not in c:
                    chk.fail(f"C12:{sampler}:resumed-run-raised", f"{sampler} checkpoint {c['n']} (iteration {m1['iteration']}): the "
                             f"resumed sampler did not reach its first checkpoint: {c.get('gen2_error', '')[-300:]}",
                             dict(replay, expect="resume-raised"))
                    continue
                m2 = c["meta2"]
                at_entry = m2["iteration"] == m1["iteration"]
                chk.count(f"{sampler}:second-generation:" + ("at-loop-entry" if at_entry else "after-new-iterations")
                          + (":pool" if (m1.get("pool") or 0) > 0 else ""))
                if at_entry:
                    # no iteration in between: the resumed sampler must hold what the first one held
                    compare(sampler, c["n"], c["gen1"], c["gen2"], {}, dict(replay, stage="entry"), entry_fields, entry_src, False)
                a = c["after2"]
                if "ready" not in a:
                    chk.fail(f"C12:{sampler}:resume-raised:{a.get('resume_error')}",
                             f"{sampler} second-generation checkpoint of {c['n']}: FlowSampler(resume=True) failed: "
                             f"{a.get('resume_error')}: {a.get('msg', '')[:200]}", dict(replay, expect="resume-raised"))
                    continue
                compare(sampler, c["n"], c["gen2"], a["ready"], a.get("derived", {}), dict(replay, stage="second"),
                        fields, field_src, True)
                if at_entry:
                    # ... and so must the sampler resumed from that second-generation checkpoint
                    compare(sampler, c["n"], c["gen1"], a["ready"], {}, dict(replay, stage="entry-resumed"),
                            entry_fields, entry_src, False)
                chk.sample({"run": sampler, "checkpoint": c["n"], "meta_first": m1, "meta_second_generation": m2}, limit=8)
            continue
        if r["kind"] == "snapshots":
            sampler = r["id"]
            if r.get("final"):
                ref_inv[family(sampler) if sampler in ("std", "ins") else sampler] = r["final"]["invariants"]
                for prob in inv_problems(r["final"]["invariants"], None):
                    chk.oblige(f"uninterrupted run {sampler} satisfies the invariants asked of resumed runs", "harness", False, prob)
            chk.count(f"{sampler}:checkpoints_written", r["n_checkpoints"])
            for c in r["cases"]:
                chk.evaluations += 1
                m = c["meta"]
                cat = (sampler, m.get("uninformed"), m.get("populated"), (m.get("pool") or 0) > 0, m.get("training_count"),
                       m.get("levels"))
                if cat not in seen_cat:
                    seen_cat.add(cat)
                    chk.nontriv((sampler, c["n"]))
                chk.count(f"{sampler}:" + ("uninformed" if m.get("uninformed") else "flow" if "uninformed" in m else "level")
                          + (":pool" if (m.get("pool") or 0) > 0 else ":empty-pool" if "pool" in m and not m.get("uninformed") else ""))
                a = c["after"]
                replay = {"job": {"id": r["id"], "kind": "snapshots", "sampler": sampler, "select": {"only": [c["n"]]}},
                          "kwargs": KWARGS[sampler], "meta": m}
                if r.get("signal_at"):
                    replay["job"]["signal_at"] = r["signal_at"]
                    replay["job"].pop("select")
                if "ready" not in a:
                    chk.fail(f"C12:{sampler}:resume-raised:{a.get('resume_error')}",
                             f"{sampler} checkpoint {c['n']} (iteration {m['iteration']}): FlowSampler(resume=True) failed: "
                             f"{a.get('resume_error')}: {a.get('msg', '')[:200]}", dict(replay, expect="resume-raised"))
                    continue
                for key, dv in a.get("derived", {}).items():
                    if key.startswith("probe:"):
                        # what the restored flow proposal does with fixed live points vs what the writer's did
                        chk.count(f"{sampler}:probes" + (":written-inside-populate" if m.get("populating") else ""))
                        if not dv.get("close"):
                            chk.fail(f"C12:{sampler}:{key}:restored-proposal-acts-differently",
                                     f"{sampler} checkpoint {c['n']} (iteration {m['iteration']}, populating={m.get('populating')}, "
                                     f"{m.get('training_count')} trainings): {key[6:]} of 8 fixed live points computed by the resumed "
                                     f"proposal differs from what the proposal that wrote the checkpoint computed (max abs "
                                     f"difference {dv.get('max_abs')})", dict(replay, expect="probe"))
                        else:
                            chk.oracle_validations += 1
                        continue
                    chk.count(f"{sampler}:log_q rows " + ("> 50000" if dv.get("rows", 0) > 50000 else "> 10000"
                                                          if dv.get("rows", 0) > 10000 else "<= 10000"))
                    if dv.get("independent_close") is False or dv.get("independent_error"):
                        chk.fail(f"C12:{sampler}:{key}:differs-from-independent-evaluation",
                                 f"{sampler} checkpoint {c['n']}: the density table {key} of the resumed sampler ({dv.get('rows')} rows) "
                                 f"differs from a flow-by-flow evaluation in chunks ({dv.get('independent_error') or 'rtol=atol=1e-4'}"
                                 f"; rows not matching the writer's table: {dv.get('bad_rows')})",
                                 dict(replay, expect="independent"))
                    else:
                        chk.oracle_validations += 1
                compare(sampler, c["n"], c["before"], a["ready"], a.get("derived", {}), replay, fields, field_src, True)
                bef = {(e["role"], e["field"]): e for e in c["before"]}
                aft = {(e["role"], e["field"]): e for e in a["ready"]}
                close = a.get("derived", {})
                if len(chk.samples) < 4:
                    chk.sample({"run": sampler, "checkpoint": c["n"], "meta": m,
                                "differing_fields": sorted(f"{k[0]}.{k[1]}" for k in set(bef) | set(aft)
                                                           if (bef.get(k) or {}).get("digest") != (aft.get(k) or {}).get("digest")),
                                "derived": close})
        else:
            chk.evaluations += 1
            chk.nontriv(r["id"])
            segs, end, problems = chain_facts(r)
            sampler = r["id"]
            creplay = {"job": r["job"], "kwargs": KWARGS[r["job"]["sampler"]]}
            chk.count("chain:processes", len(r["procs"]))
            for what, why in problems:
                if what == "harness":
                    chk.oblige(f"chain {r['id']} ran", "harness", False, why)
                else:
                    chk.fail(f"C12:{r['id'].split('-')[1]}:chain:{what}", f"{r['id']}: {why}", creplay)
            if end is None:
                continue
            reported = end["invariants"]["total_evals"]
            if reported != sum(a + b for a, b in segs):
                chk.fail(f"C12:{r['id'].split('-')[1]}:chain:evaluation-count",
                         f"{r['id']}: total_likelihood_evaluations = {reported}, the processes evaluated "
                         f"{[a + b for a, b in segs]} (sum {sum(a + b for a, b in segs)}) up to the checkpoints resumed from",
                         dict(creplay, segs=segs, reported=reported))
            fam = "ins" if "ins" in r["id"] else ("aug" if "aug" in r["id"] else "std")
            for prob in inv_problems(end["invariants"], ref_inv.get(fam)):
                chk.fail(f"C12:{fam}:chain:invariant", f"{r['id']}: {prob}", dict(creplay, invariants=end["invariants"]))
            chains.append(cT(cL([cT(cZ(a), cZ(b)) for a, b in segs]), cZ(reported)))
            chain_src.append(r["id"])
            chk.sample({"chain": r["id"], "segments_m0_d": segs, "reported": reported, "invariants": end["invariants"]}, limit=8)

    # ---- comparison inside Coq
    txt = common.COQ_HEADER + IMPORTS
    txt += f"Definition fieldsz := {cL(fields)}.\nEval vm_compute in (mism chk_field fieldsz).\n"
    n_rt = 0
    for cname in sorted({c for c, _ in rts}):
        lits = [l for c, l in rts if c == cname]
        n_rt += len(lits)
        txt += f"Definition sk_{cname} : skel := {sks[cname][0]}.\n"
        txt += f"Definition rt_{cname} := {cL(lits)}.\nEval vm_compute in (mism (chk_model_roundtrip sk_{cname}) rt_{cname}).\n"
    txt += f"Definition entryz := {cL(entry_fields)}.\nEval vm_compute in (mism chk_field_entry entryz).\n"
    eff_term = effs["likelihood_evaluations"] if effs else "counter_today"
    txt += f"Definition chainsz := {cL(chains)}.\nEval vm_compute in (mism (chk_chain {eff_term}) chainsz).\n"
    ok, evals, err = chk.coq_run("cases", txt)
    ncls = len({c for c, _ in rts})
    if not ok or len(evals) != 3 + ncls:
        chk.oblige("correspondence batch evaluated in Coq", "correspondence", False, err)
        return
    bad = common.parse_nat_list(evals[0])
    for i in bad:
        sampler, n, role, f, replay = field_src[i]
        chk.fail(f"C12:{sampler}:{role}.{f}:not-restored",
                 f"{sampler} checkpoint {n}: attribute {role}.{f} differs between the sampler that wrote the checkpoint and "
                 f"the one FlowSampler(resume=True) gives in a fresh process", dict(replay, expect=[role, f]))
    chk.oblige(f"correspondence: every result-bearing / derived attribute has the same digest before pickling and after "
               f"FlowSampler(resume=True) in a fresh process ({len(fields)} attributes of {chk.evaluations - len(chains)} "
               f"checkpoints)", "correspondence", not bad,
               "differs: " + ", ".join(f"{field_src[i][0]}#{field_src[i][1]}:{field_src[i][2]}.{field_src[i][3]}" for i in bad[:8]))
    badrt = []
    for k, cname in enumerate(sorted({c for c, _ in rts})):
        b = common.parse_nat_list(evals[1 + k])
        if b:
            badrt.append(f"{cname}: {len(b)} objects")
    chk.oblige(f"correspondence: the model's getstate/setstate/resume on the regenerated skeleton keeps every result-bearing "
               f"attribute the real objects have ({n_rt} objects)", "correspondence", not badrt, "; ".join(badrt))
    bad = common.parse_nat_list(evals[-2])
    seen_keys = set()
    for i in bad:
        sampler, n, role, f, replay = entry_src[i]
        if (sampler, role, f) in seen_keys:
            continue
        seen_keys.add((sampler, role, f))
        chk.fail(f"C12:{sampler}:{role}.{f}:lost-at-entry-checkpoint",
                 f"{sampler} checkpoint {n}: a sampler resumed from it writes its first checkpoint at loop entry (same "
                 f"iteration); attribute {role}.{f} of that second-generation state differs from what the sampler that wrote "
                 f"the first checkpoint held", dict(replay, expect=[role, f]))
    chk.oblige(f"correspondence: a resumed sampler holds, when it writes its first checkpoint at loop entry, and gives back "
               f"when resumed from it, what the writer of the checkpoint it came from held ({len(entry_fields)} attributes)",
               "correspondence", not bad,
               "differs: " + ", ".join(f"{entry_src[i][0]}#{entry_src[i][1]}:{entry_src[i][2]}.{entry_src[i][3]}" for i in bad[:8]))
    bad = common.parse_nat_list(evals[-1])
    chk.oblige(f"correspondence: evaluation count reported at the end of each kill/resume chain = model chain on the observed "
               f"segments ({len(chains)} chains)", "correspondence", not bad, ", ".join(chain_src[i] for i in bad))
    chk.traces = len(fields) + len(entry_fields) + n_rt + len(chains)
    chk.oracle_validations += sum(1 for s in field_src if s[3] == "log_q")


def replay(data):
    import subprocess
    rp = data["replay"]
    if rp["job"].get("kind") == "chain":
        sampler = rp["job"]["sampler"]
        job = {"root": os.path.join(common.BUILD_ROOT, "C12_replay"), "timeout": 400, "kwargs": {sampler: rp["kwargs"]},
               "jobs": [rp["job"]]}
        r = subprocess.run(["timeout", "1200", common.PY, os.path.join(common.VERIF, "harness", "c12_child.py")],
                           input=json.dumps(job), capture_output=True, text=True, env=common.child_env())
        try:
            out = json.loads(r.stdout)["results"][0]
        except (ValueError, KeyError, IndexError):
            print("replay child failed:", r.stderr[-1500:])
            return 2
        segs, end, problems = chain_facts(out)
        probs = [f"{a}: {b}" for a, b in problems]
        if end is not None:
            reported = end["invariants"]["total_evals"]
            if reported != sum(a + b for a, b in segs):
                probs.append(f"total_likelihood_evaluations = {reported}, processes evaluated {segs}")
            probs += inv_problems(end["invariants"], None)
        print(json.dumps({"chain": out["id"], "segments_m0_d": segs, "end": end, "problems": probs}, indent=1)[:3000])
        if probs:
            print(f"VIOLATION property={PID} replay=(replayed) " + "; ".join(probs)[:300])
            return 1
        return 0
    if rp["job"].get("kind") == "regen":
        sampler = rp["job"]["sampler"]
        job = {"root": os.path.join(common.BUILD_ROOT, "C12_replay"), "timeout": 400, "kwargs": {sampler: rp["kwargs"]},
               "jobs": [rp["job"]]}
        r = subprocess.run(["timeout", "1200", common.PY, os.path.join(common.VERIF, "harness", "c12_child.py")],
                           input=json.dumps(job), capture_output=True, text=True, env=common.child_env())
        try:
            out = json.loads(r.stdout)["results"][0]
        except (ValueError, KeyError, IndexError):
            print("replay child failed:", r.stderr[-1500:])
            return 2
        rc = 0
        for c in out.get("cases", []):
            if "gen2" not in c or "ready" not in c.get("after2", {}):
                print(json.dumps({"checkpoint": c["n"], "gen2_error": c.get("gen2_error"), "after2": c.get("after2")})[:1500])
                print(f"VIOLATION property={PID} replay=(replayed) the resumed sampler failed")
                rc = 1
                continue
            if isinstance(rp.get("expect"), list):
                role, f = rp["expect"]
                pick = lambda lst: [e["digest"] for e in lst if e["role"] == role and e["field"] == f]
                stage = rp.get("stage", "entry")
                a, b = {"entry": (c["gen1"], c["gen2"]), "entry-resumed": (c["gen1"], c["after2"]["ready"]),
                        "second": (c["gen2"], c["after2"]["ready"])}[stage]
                print(json.dumps({"checkpoint": c["n"], "iteration_first": c["meta1"]["iteration"],
                                  "iteration_second_generation": c["meta2"]["iteration"], "attribute": f"{role}.{f}",
                                  "stage": stage, "before": pick(a), "after": pick(b),
                                  "populated_first": c["meta1"].get("populated"), "pool_first": c["meta1"].get("pool"),
                                  "populated_second_generation": c["meta2"].get("populated")}))
                if pick(a) != pick(b):
                    print(f"VIOLATION property={PID} replay=(replayed) {role}.{f} differs ({stage})")
                    rc = 1
        return rc
    sampler = rp["job"]["sampler"]
    job = {"root": os.path.join(common.BUILD_ROOT, "C12_replay"), "timeout": 400, "kwargs": {sampler: rp["kwargs"]},
           "jobs": [rp["job"]]}
    r = subprocess.run(["timeout", "900", common.PY, os.path.join(common.VERIF, "harness", "c12_child.py")],
                       input=json.dumps(job), capture_output=True, text=True, env=common.child_env())
    try:
        out = json.loads(r.stdout)["results"][0]
    except (ValueError, KeyError, IndexError):
        print("replay child failed:", r.stderr[-1500:])
        return 2
    rc = 0
    for c in out.get("cases", []):
        a = c["after"]
        if "ready" not in a:
            print(json.dumps({"checkpoint": c["n"], "meta": c["meta"], "resume": a}, indent=1)[:1500])
            print(f"VIOLATION property={PID} replay=(replayed) resume raised {a.get('resume_error')}")
            rc = 1
            continue
        if rp.get("expect") == "probe":
            bad = {k: v for k, v in a.get("derived", {}).items() if k.startswith("probe:") and not v.get("close")}
            print(json.dumps({"checkpoint": c["n"], "meta": c["meta"], "probes": {k: v for k, v in a.get("derived", {}).items()
                                                                                   if k.startswith("probe:")}})[:1500])
            if bad:
                print(f"VIOLATION property={PID} replay=(replayed) the restored proposal acts differently: {sorted(bad)}")
                rc = 1
            continue
        if rp.get("expect") == "independent":
            bad = {k: v for k, v in a.get("derived", {}).items() if v.get("independent_close") is False or v.get("independent_error")
                   or v.get("close") is False}
            print(json.dumps({"checkpoint": c["n"], "derived": a.get("derived")})[:1200])
            if bad:
                print(f"VIOLATION property={PID} replay=(replayed) re-derived density table differs: {sorted(bad)}")
                rc = 1
            continue
        if isinstance(rp.get("expect"), list):
            role, f = rp["expect"]
            b = [e["digest"] for e in c["before"] if e["role"] == role and e["field"] == f]
            x = [e["digest"] for e in a["ready"] if e["role"] == role and e["field"] == f]
            print(json.dumps({"checkpoint": c["n"], "attribute": f"{role}.{f}", "before": b, "after": x}))
            if b != x:
                print(f"VIOLATION property={PID} replay=(replayed) {role}.{f} not restored")
                rc = 1
    return rc
