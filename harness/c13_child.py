"""C13 child: invokes the REAL FlowSampler.safe_exit from a sys.settrace line hook before a chosen
source line of the iteration, lets the process exit, resumes in a fresh process and reports what the
checkpoint and the resumed run looked like.  stdin: JSON {"tasks": [...]}; stdout: JSON list.

Every sampler run happens in a forked child of this (sampler-free) process: phase 1 runs until the
hook fires and the handler exits the process; phase 2 is a fresh process that resumes from the files
phase 1 left behind and finishes the run.
"""
import hashlib
import inspect
import json
import logging
import os
import pickle
import signal
import sys
import tempfile
import time
import traceback

import numpy as np

EXIT_CODE = 77  # the default configured exit code (deliberately not nessai's default 130); task["exit_code"] overrides
FINISHED = 112  # phase 1 ended WITHOUT the handler ending the process (run completed / exit swallowed)


def configured_exit(task):
    return int(task.get("exit_code", EXIT_CODE))


def make_model(dims=2):
    from nessai.model import Model

    class Gauss(Model):
        def __init__(self):
            self.names = [f"x{i}" for i in range(dims)]
            self.bounds = {n: [-5.0, 5.0] for n in self.names}

        def log_prior(self, x):
            lp = np.log(self.in_bounds(x), dtype="float")
            for n in self.names:
                lp -= np.log(self.bounds[n][1] - self.bounds[n][0])
            return lp

        def log_likelihood(self, x):
            ll = np.zeros(x.size)
            for n in self.names:
                ll += -0.5 * x[n] ** 2 - 0.5 * np.log(2 * np.pi)
            return ll

        def to_unit_hypercube(self, x):
            y = x.copy()
            for n in self.names:
                y[n] = (x[n] - self.bounds[n][0]) / (self.bounds[n][1] - self.bounds[n][0])
            return y

        def from_unit_hypercube(self, x):
            y = x.copy()
            for n in self.names:
                y[n] = x[n] * (self.bounds[n][1] - self.bounds[n][0]) + self.bounds[n][0]
            return y

    return Gauss()


def sampler_kwargs(task):
    if task["sampler"] == "ins":
        return dict(importance_nested_sampler=True, nlive=task.get("nlive", 100), n_initial=task.get("nlive", 100),
                    min_samples=20, plot=False, checkpointing=True, checkpoint_on_iteration=True, checkpoint_interval=1,
                    seed=task.get("seed", 5), max_iteration=task.get("max_iteration", 5),
                    min_iteration=task.get("min_iteration", 3), exit_code=configured_exit(task),
                    flow_config=dict(n_blocks=2, n_neurons=4, n_layers=1),
                    training_config=dict(max_epochs=task.get("max_epochs", 10), patience=5))
    nlive = task.get("nlive", 30)
    # plot=True (the library default) makes update_state produce the state / trace / insertion-index
    # plots every nlive iterations: the functions called there are on the signal path too
    kw = dict(nlive=nlive, plot=bool(task.get("plot", False)), seed=task.get("seed", 3), stopping=task.get("stopping", 0.5),
              max_iteration=task.get("max_iteration", 600), analytic_priors=not task.get("rejection", False),
              maximum_uninformed=task.get("maximum_uninformed", 40), poolsize=task.get("poolsize", 20),
              flow_config=dict(n_blocks=2, n_neurons=4, max_epochs=task.get("max_epochs", 8), patience=4),
              exit_code=configured_exit(task), checkpointing=True)
    kw.update(task.get("proposal_kwargs") or {})   # non-default FlowProposal options (truncate_log_q, ...)
    if task.get("uninformed_only"):
        # stay with the uninformed (prior) proposal for the whole run
        kw.update(maximum_uninformed=10 ** 9, uninformed_acceptance_threshold=0.0)
    if task.get("ckpt_interval"):
        # periodic checkpoints on iterations (made by update_state)
        kw.update(checkpoint_on_iteration=True, checkpoint_interval=int(task["ckpt_interval"]))
    return kw


def quiet():
    os.environ.setdefault("MPLBACKEND", "Agg")
    logging.disable(logging.CRITICAL)
    import warnings
    warnings.filterwarnings("ignore")
    import torch
    torch.set_num_threads(1)


def pid_of(p, names):
    return "".join(float(p[n]).hex() for n in names)


def snap(ns, full=False, names=None):
    """the tracked fields of the standard sampler"""
    st = ns.state
    if names is None:
        names = ns.model.names
    live = None if ns.live_points is None else [pid_of(p, names) for p in ns.live_points]
    d = {"iteration": int(ns.iteration), "n_dead": len(ns.nested_samples), "n_idx": len(ns.insertion_indices),
         "n_logLs": len(st.logLs), "n_logvols": len(st.log_vols), "n_nlive": len(st.nlive), "n_info": len(st.info),
         "logZ": float(st.logZ), "logw": float(st.logw), "live": live, "logLmin": float(ns.logLmin),
         "finalised": bool(ns.finalised),
         "live_logL": None if ns.live_points is None else [float(v) for v in ns.live_points["logL"]]}
    if full:
        d["dead"] = [pid_of(p, names) for p in ns.nested_samples]
    return d


def resolve_target(task):
    """(code object, line number) of the statement the signal is delivered before"""
    import nessai.samplers.nestedsampler as nsm
    import nessai.samplers.importancesampler as ism
    import nessai.evidence as evm
    import nessai.proposal.flowproposal as fpm
    import nessai.proposal.analytic as apm
    import nessai.samplers.base as bsm
    owners = {"NestedSampler": nsm.NestedSampler, "ImportanceNestedSampler": ism.ImportanceNestedSampler,
              "_NSIntegralState": evm._NSIntegralState, "FlowProposal": fpm.FlowProposal,
              "AnalyticProposal": apm.AnalyticProposal, "BaseNestedSampler": bsm.BaseNestedSampler}
    cls, meth = task["func"].split(".")
    fn = inspect.unwrap(getattr(owners[cls], meth))
    lines, start = inspect.getsourcelines(fn)
    if task.get("lineno") and start <= task["lineno"] < start + len(lines) \
            and lines[task["lineno"] - start].strip() == task["text"]:
        return fn.__code__, task["lineno"]
    # the source moved: find the occ-th line of the function with the same text
    hits = [start + i for i, l in enumerate(lines) if l.strip() == task["text"]]
    occ = task.get("occ", 0)
    if len(hits) <= occ:
        return fn.__code__, None
    return fn.__code__, hits[occ]


def phase1(task, outdir):
    """run until the hook fires; the handler exits the process"""
    quiet()
    from nessai.flowsampler import FlowSampler
    import nessai.samplers.nestedsampler as nsm
    model = make_model(task.get("dims", 2))
    if task.get("prior_samplers"):
        # a pipeline: earlier analyses in the same process (their own output, their own exit code)
        for j in range(int(task["prior_samplers"])):
            kw = sampler_kwargs(task)
            kw.update(exit_code=configured_exit(task) + 1 + j, max_iteration=8)
            prior = FlowSampler(make_model(task.get("dims", 2)), output=os.path.join(outdir, f"prior{j}"), resume=True,
                                signal_handling=True, **kw)
            prior.run(plot=False, save=False)
    fs = FlowSampler(model, output=outdir, resume=True, signal_handling=True, **sampler_kwargs(task))
    ns = fs.ns
    code, lineno = resolve_target(task)
    info = {"reached": False, "target_line": lineno, "started_at_iteration": int(ns.iteration)}
    if lineno is None:
        with open(os.path.join(outdir, "inject.json"), "w") as fh:
            json.dump({"reached": False, "why": "line not found in the current source"}, fh)
        os._exit(0)
    ins = task["sampler"] == "ins"
    st = {"calls": 0, "armed": False, "base": None, "seen": 0}
    consume_code = None if ins else inspect.unwrap(nsm.NestedSampler.consume_sample).__code__

    def inject(frame):
        sys.settrace(None)
        frame.f_trace = None
        stack, frames, f = [], [], frame
        while f is not None:
            stack.append(f.f_code.co_name)
            frames.append([f.f_code.co_name, f.f_lineno, os.path.basename(f.f_code.co_filename)])
            f = f.f_back
        info["frames"] = frames[:12]
        info.update({"reached": True, "calls": st["calls"], "base": st["base"],
                     "func": frame.f_code.co_name, "lineno": frame.f_lineno, "stack": stack[:12]})
        if ins:
            info["iteration"] = int(ns.iteration)
            info["files_before"] = file_hashes(outdir)
        else:
            info["at"] = snap(ns)
        with open(os.path.join(outdir, "inject.json"), "w") as fh:
            json.dump(info, fh)
        if task.get("second_signal"):
            st["first_handler_running"] = True   # the wrapped __getstate__ sends the second signal
        if task.get("real_signal"):
            # whatever handler the process has REGISTERED for the signal runs before the next bytecode
            os.kill(os.getpid(), getattr(signal, task.get("signum", "SIGTERM")))
            time.sleep(5)
            os._exit(99)
        fs.safe_exit(signal.SIGTERM, frame)       # raises SystemExit(exit_code) at this line

    def local(frame, event, arg):
        if event == "line" and frame.f_code is code and frame.f_lineno == lineno and st["armed"]:
            if ins and (ns.iteration < task.get("after", 1)
                        or not os.path.exists(os.path.join(outdir, "nested_sampler_resume.pkl"))):
                return local   # wait until an iteration-boundary checkpoint exists
            st["seen"] += 1
            if st["seen"] > task.get("skip", 0):
                inject(frame)
        elif event == "return" and frame.f_code is consume_code:
            st["base"] = snap(ns, full=True)
        return local

    def glob(frame, event, arg):
        if frame.f_code is consume_code:
            st["base"] = snap(ns, full=True)
            return local
        if frame.f_code is code:
            return local
        return None

    if task.get("second_signal"):
        # a second signal while the handler of the first one is pickling the sampler (Ctrl-C twice):
        # delivered on entry of the Python-level __getstate__ the pickler calls from the handler's checkpoint
        import nessai.samplers.base as bsm
        orig_getstate = bsm.BaseNestedSampler.__getstate__

        def getstate(self_):
            if st.get("first_handler_running") and not st.get("second_sent"):
                st["second_sent"] = True
                with open(os.path.join(outdir, "second.json"), "w") as fh:
                    json.dump({"sent": task["second_signal"], "iteration": int(ns.iteration)}, fh)
                os.kill(os.getpid(), getattr(signal, task["second_signal"]))
            return orig_getstate(self_)

        bsm.BaseNestedSampler.__getstate__ = getstate
    if ins:
        st["armed"] = True
        cls = type(ns)
        orig_loop = cls.nested_sampling_loop

        def loop(self_):
            sys.settrace(glob)
            try:
                return orig_loop(self_)
            finally:
                sys.settrace(None)

        cls.nested_sampling_loop = loop     # class attribute: never pickled with the sampler
    else:
        cls = type(ns)
        orig = cls.consume_sample

        def consume_sample(self_):
            st["calls"] += 1
            if st["calls"] >= task.get("after", 5) and not st["armed"]:
                st["armed"] = True
                st["base"] = snap(ns, full=True)
                # frames that are already running (the sampling loop) get the local hook too
                f = sys._getframe(1)
                while f is not None:
                    if f.f_code is code:
                        f.f_trace = local
                    f = f.f_back
                sys.settrace(glob)
            return orig(self_)

        cls.consume_sample = consume_sample   # class attribute: never pickled with the sampler
    try:
        fs.run(plot=False, save=False)
    except SystemExit as e:
        sys.settrace(None)
        os._exit(e.code if isinstance(e.code, int) else (0 if e.code is None else 1))
    except BaseException:  # noqa
        sys.settrace(None)
        with open(os.path.join(outdir, "phase1_error.txt"), "w") as fh:
            fh.write(traceback.format_exc())
        os._exit(3)
    sys.settrace(None)
    if not info["reached"]:
        with open(os.path.join(outdir, "inject.json"), "w") as fh:
            json.dump({"reached": False, "why": "run finished before the line was executed"}, fh)
    os._exit(FINISHED)


def file_hashes(outdir):
    out = {}
    for name in ("nested_sampler_resume.pkl", "nested_sampler_resume.pkl.old"):
        p = os.path.join(outdir, name)
        if os.path.exists(p):
            with open(p, "rb") as fh:
                out[name] = hashlib.sha256(fh.read()).hexdigest()
    return out


def phase2(task, outdir):
    """fresh process: resume from what phase 1 left, finish, describe the result"""
    quiet()
    from nessai.flowsampler import FlowSampler
    model = make_model(task.get("dims", 2))
    res = {"completed": False}
    try:
        fs = FlowSampler(model, output=outdir, resume=True, signal_handling=False, **sampler_kwargs(task))
        ns = fs.ns
        res["resumed_iteration"] = int(ns.iteration)
        fs.run(plot=False, save=True)
        res["completed"] = True
        if task["sampler"] == "ins":
            s = ns.samples_unit if hasattr(ns, "samples_unit") else ns.samples
            ll = np.asarray(s["logL"])
            res.update({"iteration": int(ns.iteration), "logZ": float(fs.logZ), "n_samples": int(len(ll)),
                        "sorted": bool(np.all(ll[:-1] <= ll[1:])), "finalised": bool(ns.finalised)})
        else:
            names = model.names
            nsamp = ns.nested_samples
            ids = [pid_of(p, names) for p in nsamp]
            ll = [float(p["logL"]) for p in nsamp]
            res.update({"iteration": int(ns.iteration), "n_ns": len(nsamp), "n_idx": len(ns.insertion_indices),
                        "n_logLs": len(ns.state.logLs), "n_logvols": len(ns.state.log_vols), "nlive": int(ns.nlive),
                        "finalised": bool(ns.finalised), "ids": ids,
                        "live_ids": None if ns.live_points is None else [pid_of(p, names) for p in ns.live_points],
                        "logLs_match": [float(v) for v in ns.state.logLs[1:]] == ll,
                        "monotone": all(a <= b for a, b in zip(ll, ll[1:])),
                        "logZ": float(fs.logZ), "n_post": int(fs.posterior_samples.size)})
    except BaseException as e:  # noqa
        res["error"] = type(e).__name__ + ": " + str(e)[:300]
        res["tb"] = traceback.format_exc()[-1200:]
    with open(os.path.join(outdir, "final.json"), "w") as fh:
        json.dump(res, fh)
    os._exit(0)


def forked(fn, task, outdir, timeout):
    pid = os.fork()
    if pid == 0:
        try:
            os.setsid()
            devnull = os.open(os.devnull, os.O_WRONLY)
            os.dup2(devnull, 1)
            os.dup2(devnull, 2)
            # a forked child inherits the parent's generator state; a really fresh interpreter starts from OS
            # entropy - without this, two resumed processes of one history would replay the same random stream
            import random
            import torch
            np.random.seed(None)
            random.seed()
            torch.seed()
            fn(task, outdir)
        finally:
            os._exit(98)
    t0 = time.time()
    while True:
        p, status = os.waitpid(pid, os.WNOHANG)
        if p:
            return os.waitstatus_to_exitcode(status)
        if time.time() - t0 > timeout:
            try:
                os.killpg(pid, signal.SIGKILL)
            except ProcessLookupError:
                pass
            os.waitpid(pid, 0)
            return "timeout"
        time.sleep(0.02)


def read_checkpoint(task, outdir, out):
    rf = os.path.join(outdir, "nested_sampler_resume.pkl")
    out["checkpoint"] = None
    out["files"] = sorted(f for f in os.listdir(outdir) if f.startswith("nested_sampler_resume"))
    if os.path.exists(rf):
        try:
            with open(rf, "rb") as fh:
                ck = pickle.load(fh)
            out["checkpoint"] = snap(ck, full=True, names=[f"x{i}" for i in range(task.get("dims", 2))])
        except BaseException as e:  # noqa
            out["checkpoint_error"] = type(e).__name__ + ": " + str(e)[:200]
    else:
        out["checkpoint_error"] = "no resume file; present: " + ", ".join(out["files"])


def run_stage(task, outdir):
    out = {}
    for name in ("inject.json", "second.json", "phase1_error.txt"):
        p = os.path.join(outdir, name)
        if os.path.exists(p):
            os.remove(p)
    out["exit"] = forked(phase1, task, outdir, task.get("timeout", 240))
    ip = os.path.join(outdir, "inject.json")
    out["inject"] = json.load(open(ip)) if os.path.exists(ip) else None
    sp = os.path.join(outdir, "second.json")
    if os.path.exists(sp):
        out["second"] = json.load(open(sp))
    ep = os.path.join(outdir, "phase1_error.txt")
    if os.path.exists(ep):
        out["phase1_error"] = open(ep).read()[-1200:]
    return out


def run_task(task, root, j):
    """One history: signal [, resume, signal]* , resume, finish.  `task["then"]` lists the later signals
    (each a dict that overrides func / text / after / ... of the first one)."""
    outdir = os.path.join(root, f"t{j}")
    os.makedirs(outdir, exist_ok=True)
    out = {"task": task, "stages": []}
    stages = [task] + [dict({k: v for k, v in task.items() if k != "then"}, **t2) for t2 in task.get("then", [])]
    last = None
    for k, stage_task in enumerate(stages):
        st_out = run_stage(stage_task, outdir)
        if not st_out["inject"] or not st_out["inject"].get("reached"):
            st_out["stage"] = k
            out["stages"].append(st_out)
            last = st_out
            break
        if task["sampler"] == "ins":
            st_out["files_after"] = file_hashes(outdir)
        else:
            read_checkpoint(stage_task, outdir, st_out)
        st_out["stage"] = k
        out["stages"].append(st_out)
        last = st_out
    # the last stage is what the single-signal predicate looks at
    out.update({k: v for k, v in last.items() if k != "stage"})
    slim = []
    for st_out in out["stages"]:
        c = st_out.get("checkpoint") or {}
        slim.append({"stage": st_out["stage"], "exit": st_out.get("exit"),
                     "reached": bool(st_out.get("inject") and st_out["inject"].get("reached")),
                     "started_at": (st_out.get("inject") or {}).get("started_at_iteration"),
                     "ckpt_iteration": c.get("iteration"), "ckpt_live": c.get("live"), "ckpt_n_dead": c.get("n_dead"),
                     "ckpt_dead": c.get("dead") if len(out["stages"]) > 1 else None,
                     "checkpoint_error": st_out.get("checkpoint_error"), "second": st_out.get("second")})
    out["stages"] = slim
    if not out["inject"] or not out["inject"].get("reached"):
        return out
    rc2 = forked(phase2, task, outdir, task.get("timeout", 240))
    out["resume_exit"] = rc2
    fp = os.path.join(outdir, "final.json")
    out["final"] = json.load(open(fp)) if os.path.exists(fp) else None
    return out


def main():
    quiet()
    import nessai.flowsampler  # noqa: imported once here, inherited by the forked children
    spec = json.load(sys.stdin)
    outs = []
    with tempfile.TemporaryDirectory(dir=os.getcwd()) as root:
        for j, t in enumerate(spec["tasks"]):
            try:
                outs.append(run_task(t, root, j))
            except BaseException as e:  # noqa
                outs.append({"task": t, "harness_error": type(e).__name__ + ": " + str(e)[:300]})
    json.dump(outs, sys.stdout)


if __name__ == "__main__":
    main()
