"""Shared machinery of the nessai verification harness.

One `Check` object per invocation of ./check: it collects proof obligations
(static theorems recompiled with Print Assumptions, `today` lemmas over
regenerated skeletons, correspondence batches evaluated inside Coq), failures
(with replays), oracle validations and the measured input distribution, and
writes /verif/evidence/<id>.json at the end.
"""
import fcntl
import hashlib
import json
import os
import random
import re
import shutil
import struct
import subprocess
import sys
import time

VERIF = os.path.dirname(os.path.dirname(os.path.abspath(__file__)))
REPO = os.environ.get("NESSAI_REPO", "/repo")
COQ = os.path.join(VERIF, "coq")
BUILD_ROOT = os.path.join(VERIF, "build")
PY = "/venv/bin/python"
FORBIDDEN = re.compile(
    r"\b(Admitted|admit|Axiom|Axioms|Parameter|Parameters|Conjecture|Conjectures|"
    r"Admit Obligations|bypass_check|native_compute)\b|Unset Guard|Unset Positivity|"
    r"Unset Universe|type-in-type|impredicative-set"
)

CHILD_ENV = {
    "PYTHONPATH": REPO,
    "PYTHONHASHSEED": "0",
    "OMP_NUM_THREADS": "1",
    "MKL_NUM_THREADS": "1",
    "OPENBLAS_NUM_THREADS": "1",
    "NUMEXPR_NUM_THREADS": "1",
    "MPLBACKEND": "Agg",
    "PIP_NO_INDEX": "1",
}


def child_env(extra=None):
    env = dict(os.environ)
    env.update(CHILD_ENV)
    env["PYTHONPATH"] = REPO + os.pathsep + os.path.join(VERIF, "harness")
    if extra:
        env.update(extra)
    return env


# ---------------------------------------------------------------------------
# Coq literal rendering
# ---------------------------------------------------------------------------
def cZ(n):
    n = int(n)
    return f"({n})%Z" if n < 0 else f"{n}%Z"


def cN(n):
    n = int(n)
    assert n >= 0
    return f"{n}%nat"


def cB(b):
    return "true" if b else "false"


def cL(items):
    return "[" + "; ".join(items) + "]"


def cT(*items):
    return "(" + ", ".join(items) + ")"


def cOpt(x):
    return "None" if x is None else f"(Some {x})"


def cStr(s):
    return '"' + s.replace('"', '""') + '"%string'


# ---------------------------------------------------------------------------
# float64 helpers (trusted base: these few lines)
# ---------------------------------------------------------------------------
def float_key(x):
    """Strictly monotone map from non-NaN float64 to int; -0.0 and +0.0 share a key."""
    x = float(x)
    if x != x:
        raise ValueError("NaN has no order key")
    if x == 0.0:
        return 0
    (b,) = struct.unpack("<q", struct.pack("<d", x))
    return b if b >= 0 else -(b & 0x7FFFFFFFFFFFFFFF)


def float_dyadic(x):
    """Exact (m, e) with x = m * 2**e for a finite float."""
    x = float(x)
    if x != x or x in (float("inf"), float("-inf")):
        raise ValueError("not finite")
    if x == 0.0:
        return (0, 0)
    m, e = x.hex(), 0
    num, den = x.as_integer_ratio()
    e = -(den.bit_length() - 1)
    return (num, e)


# ---------------------------------------------------------------------------
class Check:
    def __init__(self, pid, tier, seed):
        self.pid = pid
        self.tier = tier
        self.seed = seed
        self.t0 = time.time()
        self.rng = random.Random(f"{pid}:{seed}")
        # a run against a scratch copy of the repo (mutation trial) keeps its build, evidence and
        # replays away from the real ones
        self.scratch = os.path.realpath(REPO) != "/repo"
        self.out_root = os.path.join(BUILD_ROOT, f"trial_{os.getpid()}") if self.scratch else VERIF
        # one build directory per process: two runs of the same check (a quick run started while a thorough one is still
        # going) must not delete each other's files; directories left by dead processes are removed here
        self.build = os.path.join(BUILD_ROOT, pid + (f"_trial_{os.getpid()}" if self.scratch else f"_run_{os.getpid()}"))
        if os.path.isdir(BUILD_ROOT):
            for d in os.listdir(BUILD_ROOT):
                if d == pid or d.startswith(pid + "_run_") or d.startswith(pid + "_trial_"):
                    owner = d.rsplit("_", 1)[-1]
                    if owner.isdigit() and os.path.exists(f"/proc/{owner}"):
                        continue
                    shutil.rmtree(os.path.join(BUILD_ROOT, d), ignore_errors=True)
        shutil.rmtree(self.build, ignore_errors=True)
        os.makedirs(self.build, exist_ok=True)
        self.obligations = []  # dict(name, kind, ok, detail)
        self.failures = []  # dict(key, what, replay)
        self.known_hits = []
        self.samples = []
        self.distribution = {}
        self.evaluations = 0
        self.nontrivial = set()
        self.oracle_validations = 0
        self.traces = 0
        self.assumptions_report = {}
        self.translator = {}
        self.notes = []
        self.rule = ""
        self.assumptions = []
        self.known = [
            k for k in load_known() if k.get("property") == pid and k.get("status", "open") == "open"
        ]

    # ---- bookkeeping ------------------------------------------------------
    def oblige(self, name, kind, ok, detail=""):
        self.obligations.append({"name": name, "kind": kind, "ok": bool(ok), "detail": detail[-2000:]})
        return ok

    def sample(self, s, limit=6):
        if len(self.samples) < limit:
            self.samples.append(s)

    def count(self, key, n=1):
        self.distribution[key] = self.distribution.get(key, 0) + n

    def nontriv(self, case_repr):
        self.nontrivial.add(hashlib.sha1(repr(case_repr).encode()).hexdigest())

    def fail(self, key, what, replay):
        """Record a property failure.  `key` is the semantic identity used to match
        known findings; `replay` is JSON-serialisable data that reproduces it."""
        for k in self.known:
            if key == k["key"] or (k.get("key_regex") and re.fullmatch(k["key_regex"], key)):
                if not any(h["key"] == k["key"] for h in self.known_hits):
                    self.known_hits.append({"key": k["key"], "what": k["what"], "observed": what})
                return
        self.failures.append({"key": key, "what": what, "replay": replay})

    # ---- Coq --------------------------------------------------------------
    def ensure_built(self, targets=None):
        """Bring the needed part of the static development up to date (no-op after setup.sh).
        targets: list like ["Props/C10.vo", "Run/C10_run.vo"]; None = everything."""
        lock = open(os.path.join(COQ, ".build.lock"), "w")
        fcntl.flock(lock, fcntl.LOCK_EX)
        try:
            subprocess.run(["sh", os.path.join(COQ, "mkproject.sh")], check=True, cwd=COQ,
                           stdout=subprocess.DEVNULL)
            cmd = ["timeout", "3000", "make", "-j16"] + (list(targets) if targets else [])
            r = subprocess.run(cmd, cwd=COQ, capture_output=True, text=True)
        finally:
            fcntl.flock(lock, fcntl.LOCK_UN)
        return r.returncode == 0, (r.stdout + r.stderr)

    def coqc(self, vpath, timeout=600, out=None):
        cmd = ["timeout", str(timeout), "coqc", "-Q", COQ, "NessaiV", "-w",
               "-notation-overridden,-deprecated-hint-without-locality,-deprecated-instance-without-locality,-ambiguous-paths,-deprecated-hint-rewrite-without-locality"]
        if out:
            cmd += ["-o", out]
        cmd.append(vpath)
        r = subprocess.run(cmd, capture_output=True, text=True, cwd=self.build)
        return r.returncode == 0, r.stdout, r.stderr

    def dep_closure(self, rel_files):
        """Transitive closure of `From NessaiV Require ... X.Y` imports, as paths relative to coq/."""
        seen, todo = set(), list(rel_files)
        while todo:
            f = todo.pop()
            if f in seen or not os.path.exists(os.path.join(COQ, f)):
                continue
            seen.add(f)
            txt = strip_comments(open(os.path.join(COQ, f)).read())
            for m in re.finditer(r"From\s+NessaiV\s+Require\s+(?:Import\s|Export\s)?\s*(.+?)\.(?=\s|$)", txt, re.S):
                for mod in m.group(1).split():
                    todo.append(mod.replace(".", "/") + ".v")
            for m in re.finditer(r"Require\s+(?:Import|Export)?\s+((?:NessaiV\.[A-Za-z0-9_.]+\s*)+)\.", txt):
                for mod in m.group(1).split():
                    todo.append(mod[len("NessaiV."):].replace(".", "/") + ".v")
        return sorted(seen)

    def hygiene(self, rel_files=None):
        bad = []
        if rel_files is None:
            rel_files = [os.path.relpath(os.path.join(r, f), COQ) for r, _, fs in os.walk(COQ) for f in fs
                         if f.endswith(".v")]
        for rel in rel_files:
            txt = strip_comments(open(os.path.join(COQ, rel)).read())
            for m in FORBIDDEN.finditer(txt):
                bad.append(f"coq/{rel}: {m.group(0)}")
            # a Variable / Hypothesis / Context outside every Section declares an axiom
            stack = []
            for ln, line in enumerate(txt.split("\n"), 1):
                m = re.match(r"\s*Section\s+(\w+)", line)
                if m:
                    stack.append(m.group(1))
                m = re.match(r"\s*End\s+(\w+)", line)
                if m and stack and stack[-1] == m.group(1):
                    stack.pop()
                if re.match(r"\s*(Variable|Variables|Hypothesis|Hypotheses|Context)\b", line) and not stack:
                    bad.append(f"coq/{rel}:{ln}: {line.strip()[:40]} outside a section")
        self.oblige(f"hygiene: no Admitted/admit/Axiom/Parameter/Conjecture/guard switches, no Variable/Hypothesis outside a section in the {len(rel_files)} "
                    "Coq files this property depends on", "hygiene", not bad, "; ".join(bad))
        self.notes.append("coq files in scope: " + " ".join(rel_files))
        return not bad

    def static_props(self, props_files, run_files=()):
        """Build Props/<f>.vo and Run/<r>.vo with their dependencies, then recompile a copy of each
        Props/<f>.v (statements + exact + Print Assumptions): one obligation per theorem."""
        targets = [f"Props/{f}.vo" for f in props_files] + [f"Run/{r}.vo" for r in run_files]
        ok, log = self.ensure_built(targets)
        self.oblige("static development builds (make, full .vo)", "build", ok, log)
        self.hygiene(self.dep_closure([f"Props/{f}.v" for f in props_files] + [f"Run/{r}.v" for r in run_files]))
        if not ok:
            return False
        allok = True
        for f in props_files:
            src = os.path.join(COQ, "Props", f + ".v")
            txt = open(src).read()
            names = re.findall(r"Print Assumptions\s+([A-Za-z0-9_']+)\s*\.", txt)
            dst = os.path.join(self.build, f + ".v")
            shutil.copy(src, dst)
            okc, out, err = self.coqc(dst)
            blocks = parse_assumptions(out)
            if not okc or len(blocks) != len(names):
                allok = False
                for n in names:
                    self.oblige(f"theorem {n}", "theorem", False, err or out)
                continue
            for n, b in zip(names, blocks):
                self.assumptions_report[n] = b
                self.oblige(f"theorem {n}", "theorem", True, "; ".join(b))
        if self.tier == "thorough" and allok and os.environ.get("VERIF_NO_COQCHK") != "1":
            # independent re-check of the compiled property files and everything they depend on
            for f in props_files:
                r = subprocess.run(["timeout", "2400", "coqchk", "-silent", "-o", "-Q", COQ, "NessaiV", f"NessaiV.Props.{f}"],
                                   capture_output=True, text=True, cwd=COQ)
                out = r.stdout + r.stderr
                summ = out[out.find("CONTEXT SUMMARY"):] if "CONTEXT SUMMARY" in out else out[-1500:]
                axioms = re.findall(r"^\s{4}([A-Za-z_][A-Za-z0-9_.']*)\s*$", summ.split("* Constants/Inductives relying on type-in-type")[0], re.M)
                bad_sections = [h for h in ("relying on type-in-type", "relying on unsafe (co)fixpoints", "whose positivity is assumed")
                                if h in summ and "<none>" not in summ.split(h)[1].split("*")[0]]
                ok = r.returncode == 0 and not bad_sections
                self.oblige(f"coqchk re-checks Props/{f}.vo and its dependencies (axioms of all loaded libraries: "
                            f"{len(axioms)}; type-in-type / unsafe fixpoints / assumed positivity: none)", "coqchk", ok, summ[-1500:])
                self.notes.append({f"coqchk axioms ({f})": axioms})
        return allok

    def coq_run(self, name, text, timeout=600):
        """Compile a generated file in the build directory; returns (ok, list of Eval results, stderr)."""
        path = os.path.join(self.build, name + ".v")
        with open(path, "w") as fh:
            fh.write(text)
        ok, out, err = self.coqc(path, timeout=timeout)
        return ok, parse_evals(out), (err or "") + ("" if ok else out[-2000:])

    # ---- real code in a child process ---------------------------------------
    def child(self, script, args=(), timeout=300, env=None, inp=None):
        """Run harness/<script> under /venv python with PYTHONPATH=/repo; returns (rc, stdout, stderr)."""
        cmd = ["timeout", "-k", "5", str(timeout), PY, os.path.join(VERIF, "harness", script), *map(str, args)]
        r = subprocess.run(cmd, capture_output=True, text=True, env=child_env(env), input=inp, cwd=self.build)
        return r.returncode, r.stdout, r.stderr

    # ---- end ----------------------------------------------------------------
    def finish(self):
        wall = time.time() - self.t0
        n_ob = len(self.obligations)
        n_ok = sum(1 for o in self.obligations if o["ok"])
        broken = [o for o in self.obligations if not o["ok"]]
        viol_lines = []
        replay_dir = os.path.join(self.out_root, "replays", self.pid)
        if self.failures or broken:
            os.makedirs(replay_dir, exist_ok=True)
        # one replay per semantic key (the smallest case), at most 8 keys
        bykey = {}
        for f in self.failures:
            cur = bykey.get(f["key"])
            if cur is None or len(json.dumps(f["replay"], default=str)) < len(json.dumps(cur["replay"], default=str)):
                bykey[f["key"]] = f
        n_fail_total = len(self.failures)
        reported = list(bykey.values())[:8]
        for i, f in enumerate(reported):
            path = os.path.join(replay_dir, f"{self.tier}_{self.seed}_{i}.json")
            with open(path, "w") as fh:
                json.dump({"property": self.pid, "key": f["key"], "what": f["what"], "replay": f["replay"]},
                          fh, indent=1, default=str)
            viol_lines.append(f"VIOLATION property={self.pid} replay={path}")
        if broken and not self.failures:
            # a theorem / today lemma / correspondence no longer checks, and the search
            # found no concrete failing input (or only known findings)
            path = os.path.join(replay_dir, f"{self.tier}_{self.seed}_broken.json")
            with open(path, "w") as fh:
                json.dump({"property": self.pid, "no_longer_checks": broken,
                           "note": "no failing input found by the search"}, fh, indent=1, default=str)
            viol_lines.append(f"VIOLATION property={self.pid} replay={path} no-failing-input-found")
        tb = [
            "Coq 8.16.1 kernel incl. vm_compute (no native_compute); coqchk in the thorough tier",
            "harness/common.py float_key / float_dyadic encoders, Coq literal printer, output parser",
            "translator/*.py (Python ast -> Coq values) and harness drivers (run real nessai, compare inside Coq)",
        ]
        for n, b in sorted(self.assumptions_report.items()):
            tb.append(f"Print Assumptions {n}: " + ("; ".join(b) if b else "?"))
        ev = {
            "property_id": self.pid,
            "tier": self.tier,
            "seed": self.seed,
            "level": "proof",
            "coverage": {
                "obligations": n_ob,
                "discharged": n_ok,
                "checker_cmd": f"./check {self.pid} --tier {self.tier}  (coqc -Q coq NessaiV on Props/, generated today-lemmas and case files)",
                "trusted_base": tb + self.assumptions,
                "obligation_list": [{"name": o["name"], "kind": o["kind"], "ok": o["ok"]} for o in self.obligations],
                "evaluations": self.evaluations,
                "distinct_nontrivial": len(self.nontrivial),
                "rule": self.rule,
                "samples": self.samples,
                "traces_validated_against_impl": self.traces,
                "oracle_validations": self.oracle_validations,
                "input_distribution": self.distribution,
                "translator": self.translator,
                "known_findings_observed": self.known_hits,
                "notes": self.notes,
            },
            "assumptions": self.assumptions,
            "wall_s": round(wall, 2),
            "violations": len(viol_lines),
            "failing_cases_total": n_fail_total,
        }
        os.makedirs(os.path.join(self.out_root, "evidence"), exist_ok=True)
        with open(os.path.join(self.out_root, "evidence", f"{self.pid}.json"), "w") as fh:
            json.dump(ev, fh, indent=1, default=str)
        for h in self.known_hits:
            print(f"KNOWN-FINDING: property={self.pid} {h['what']}")
        for line in viol_lines:
            print(line)
        for o in broken:
            print(f"  broken obligation: {o['name']}: {o['detail'][-400:]}", file=sys.stderr)
        print(f"{self.pid} {self.tier}: {n_ok}/{n_ob} obligations, {self.evaluations} evaluations, "
              f"{len(self.nontrivial)} distinct non-trivial, {len(self.known_hits)} known findings, "
              f"{len(viol_lines)} violations, {wall:.1f}s")
        if os.environ.get("VERIF_KEEP_BUILD") != "1":
            shutil.rmtree(self.build, ignore_errors=True)
        return 1 if viol_lines else 0


# ---------------------------------------------------------------------------
def load_known():
    out = []
    p = os.path.join(VERIF, "known_findings.json")
    if os.path.exists(p):
        out += json.load(open(p)).get("findings", [])
    import glob
    for q in sorted(glob.glob(os.path.join(VERIF, "known_findings.d", "*.json"))):
        out += json.load(open(q)).get("findings", [])
    return out


def strip_comments(txt):
    out, depth, i = [], 0, 0
    while i < len(txt):
        if txt.startswith("(*", i):
            depth += 1
            i += 2
        elif txt.startswith("*)", i) and depth:
            depth -= 1
            i += 2
        else:
            if depth == 0:
                out.append(txt[i])
            i += 1
    return "".join(out)


def parse_assumptions(out):
    """Split coqc stdout into one block per Print Assumptions."""
    blocks, cur = [], None
    for line in out.splitlines():
        if line.startswith("Closed under the global context"):
            if cur is not None:
                blocks.append(cur)
                cur = None
            blocks.append(["Closed under the global context"])
        elif line.startswith("Axioms:"):
            if cur is not None:
                blocks.append(cur)
            cur = []
        elif cur is not None:
            m = re.match(r"^([A-Za-z_][A-Za-z0-9_.']*)\s*(:|$)", line)
            if m:
                cur.append(m.group(1))
    if cur is not None:
        blocks.append(cur)
    return blocks


def parse_evals(out):
    """Results of `Eval vm_compute in ...` commands: text between '     = ' and the final '     : type'."""
    res, cur = [], None
    for line in out.splitlines():
        if line.startswith("     = "):
            if cur is not None:
                res.append(finish_eval(cur))
            cur = [line[7:]]
        elif cur is not None:
            cur.append(line)
    if cur is not None:
        res.append(finish_eval(cur))
    return res


def finish_eval(lines):
    txt = "\n".join(lines)
    k = txt.rfind("\n     : ")
    if k >= 0:
        txt = txt[:k]
    return " ".join(txt.split())


def parse_nat_list(s):
    s = s.strip()
    if s.startswith("["):
        s = s[1:-1]
    s = s.strip()
    if not s:
        return []
    return [int(re.sub(r"%\w+", "", t).strip().strip("()")) for t in s.split(";")]


COQ_HEADER = """From Coq Require Import List ZArith Bool Arith String.
Import ListNotations.
Set Printing Width 1000000.
Set Printing Depth 1000000.
"""


def source_hash(paths):
    h = hashlib.sha1()
    for p in paths:
        with open(os.path.join(REPO, p), "rb") as fh:
            h.update(fh.read())
    return h.hexdigest()[:12]
