"""C05: returned results are mutually consistent and faithful to the model."""
import json
import math
import os
import subprocess
import sys
from concurrent.futures import ThreadPoolExecutor

import common
from common import cL, cN, cT, cZ, float_dyadic

sys.path.insert(0, common.VERIF + "/translator")
PID = "C05"
INF = float("inf")


def dy(x):
    m, e = float_dyadic(x)
    return cT(cZ(m), cZ(e))


def odyo(x):
    return "None" if x == -INF else f"(Some {dy(x)})"


def pow2_ge(x):
    return 2.0 ** math.ceil(math.log2(x))


def configs(tier, seed):
    s = 100 * seed
    std = [
        {"name": "std-default", "kwargs": {"nlive": 50}},
        {"name": "std-capped", "prior": "gauss", "kwargs": {"nlive": 50, "max_iteration": 40}},
        {"name": "std-offset-1e4", "offset": 1.0e4, "kwargs": {"nlive": 50}},
        {"name": "std-flow-t", "sharp": 6.0,
         "kwargs": {"nlive": 80, "maximum_uninformed": 80, "shrinkage_expectation": "t", "training_frequency": 80}},
        # proposals that carry auxiliary parameters with their own prior: the stored logP must still be the MODEL's log-prior
        {"name": "std-augmented", "sharp": 4.0, "prior": "gauss",
         "kwargs": {"nlive": 60, "maximum_uninformed": 60, "training_frequency": 60, "flow_proposal_class": "AugmentedFlowProposal",
                    "augment_dims": 1, "max_iteration": 260}},
        # the same questions about a run that died after a checkpoint and was resumed, twice, across the switch to the flow
        {"name": "std-resumed", "sharp": 4.0, "resume_after": [40, 130], "checkpoint_interval": 5, "resume_finished": True,
         "kwargs": {"nlive": 60, "maximum_uninformed": 60, "training_frequency": 60}},
    ]
    ins = [
        {"name": "ins-default", "ins": True, "kwargs": {"nlive": 60, "max_iteration": 3, "min_samples": 20, "min_remove": 2}},
        {"name": "ins-no-iid", "ins": True,
         "kwargs": {"nlive": 60, "max_iteration": 3, "min_samples": 20, "min_remove": 2, "draw_iid_live": False}},
        # a large constant in the log-likelihood: |log Z| far beyond the range where exp() of the raw weights is
        # representable in double precision (the uncertainty must still be the estimator of the returned samples)
        {"name": "ins-offset-m400", "ins": True, "offset": -400.0,
         "kwargs": {"nlive": 60, "max_iteration": 3, "min_samples": 20, "min_remove": 2}},
        {"name": "ins-offset-m2000", "ins": True, "offset": -2000.0,
         "kwargs": {"nlive": 60, "max_iteration": 3, "min_samples": 20, "min_remove": 2}},
        {"name": "ins-gaussprior", "ins": True, "prior": "gauss",
         "kwargs": {"nlive": 60, "max_iteration": 3, "min_samples": 20, "min_remove": 2}},
        {"name": "ins-cut", "ins": True, "cut": 2.5,
         "kwargs": {"nlive": 80, "max_iteration": 3, "min_samples": 20, "min_remove": 2}},
        {"name": "ins-resumed", "ins": True, "resume_after": [1, 2], "resume_finished": True,
         "kwargs": {"nlive": 60, "max_iteration": 4, "min_samples": 20, "min_remove": 2}},
        {"name": "ins-strict-replace", "ins": True,
         "kwargs": {"nlive": 60, "max_iteration": 3, "min_samples": 20, "min_remove": 2, "strict_threshold": True,
                    "draw_constant": False}},
    ]
    if tier == "thorough":
        std += [
            {"name": "std-stopping", "kwargs": {"nlive": 100, "stopping": 0.5}},
            {"name": "std-flow-logt", "sharp": 10.0, "kwargs": {"nlive": 100, "maximum_uninformed": 100, "training_frequency": 100}},
            {"name": "std-capped-flow", "sharp": 6.0, "kwargs": {"nlive": 60, "maximum_uninformed": 60, "max_iteration": 200}},
            {"name": "std-resumed-often", "resume_after": [5, 6, 7, 60, 200], "checkpoint_interval": 1, "kwargs": {"nlive": 50}},
            {"name": "std-resumed-t-capped", "sharp": 6.0, "resume_after": [100], "checkpoint_interval": 10,
             "kwargs": {"nlive": 60, "maximum_uninformed": 60, "shrinkage_expectation": "t", "max_iteration": 180}},
        ]
        ins += [
            {"name": "ins-replace-all", "ins": True,
             "kwargs": {"nlive": 80, "max_iteration": 4, "min_samples": 30, "min_remove": 2, "replace_all": True}},
            {"name": "ins-none-reparam", "ins": True,
             "kwargs": {"nlive": 80, "max_iteration": 5, "min_samples": 30, "min_remove": 2, "reparameterisation": None}},
            # run(redraw_samples=True) cannot complete on the current tree (open finding of C20:
            # ImportanceFlowProposal.unnormalised_weights is never assigned), so there is no completed run to check
            {"name": "ins-resumed-no-iid-savelogq", "ins": True, "resume_after": [2, 4], "resume_finished": True,
             "kwargs": {"nlive": 80, "max_iteration": 6, "min_samples": 30, "min_remove": 2, "draw_iid_live": False, "save_log_q": True}},
            {"name": "ins-no-iid-tol", "ins": True,
             "kwargs": {"nlive": 80, "max_iteration": 6, "min_samples": 30, "min_remove": 2, "draw_iid_live": False,
                        "stopping_criterion": "ess", "tolerance": 200.0}},
        ]
    out = []
    for i, c in enumerate(std + ins):
        c = dict(c)
        c["seed"] = s + i + 1
        out.append(c)
    return out


def translate(chk):
    import c05_fields
    from pyast import Declined
    fields = None
    try:
        fields = c05_fields.ins_fields()
        chk.translator["ImportanceNestedSampler property chains + get_result_dictionary + run_importance_nested_sampler"] = "translated"
    except Declined as e:
        chk.translator["ImportanceNestedSampler property chains"] = f"declined: {e}"
    try:
        chk.translator["standard sampler result keys"] = c05_fields.std_fields()
    except Declined as e:
        chk.translator["standard sampler result keys"] = f"declined: {e}"
    return fields


def today(chk, fields):
    hdr = (common.COQ_HEADER + "From Coq Require Import Reals.\n"
           "From NessaiV Require Import Lib.Enclose Model.C05_Results Proofs.C05_Results_proofs.\n"
           f"Definition fields_now : ins_fields :=\n  {fields}.\n")
    ok, evals, err = chk.coq_run("today_fields_eval", hdr + "Eval vm_compute in (fields_consistent fields_now).\n"
                                 "Eval vm_compute in (map (fun k => (has_redraw k, has_iid k, draw_iid k, reachable fields_now k, cfg_ok fields_now k)) all_cfgs).\n")
    verdict = evals[0].strip() if ok and evals else "?"
    txt = hdr + ("Lemma today : fields_consistent fields_now = true.\nProof. vm_compute. reflexivity. Qed.\n"
                 "Lemma today_property : forall k, reachable fields_now k = true -> exists s, s <> SNone\n"
                 "  /\\ Forall (fun c => resolve k c = s) (f_dict fields_now)\n"
                 "  /\\ (has_redraw k = false -> Forall (fun c => resolve k c = s) (f_sampler fields_now))\n"
                 "  /\\ (has_redraw k = true -> Forall (fun c => resolve k c = s) (f_sampler_redraw fields_now)).\n"
                 "Proof. exact (fields_sound fields_now today). Qed.\n")
    ok2, _, err2 = chk.coq_run("today_fields", txt)
    chk.oblige("today: fields_consistent (regenerated property chains: result dictionary, FlowSampler attributes and the "
               "sampler object read one and the same existing store in every reachable configuration) + instantiated soundness",
               "today", ok2, (err2 or "") + (f" | per-configuration table (redraw, has_iid, draw_iid, reachable, ok): {evals[1]}" if len(evals) > 1 else ""))
    return verdict


def run_one(chk, i, cfg):
    c = dict(cfg)
    c["output"] = os.path.join(chk.build, f"run_{i}")
    rc, out, err = chk.child("c05_child.py", [json.dumps(c)], timeout=900)
    try:
        return json.loads(out)
    except Exception:
        return {"error": "child failed", "trace": (err or out)[-1500:]}


def close(a, b, rel=1e-12):
    return a == b or abs(a - b) <= rel * max(1.0, abs(a), abs(b))


def check_std(chk, cfg, r, c02_cases, err_cases):
    name = cfg["name"]
    rep = lambda extra: {"config": cfg, **extra}
    S = r["samples"]
    n_ret, it, nlive = len(S["logL"]), r["iterations"], r["nlive"]
    want = it + nlive if r["finalised"] else it
    fails = []
    if not (n_ret == want == r["fs"]["n_nested"] == (r.get("dict") or {"n": want})["n"]):
        fails.append(("C05:std-count", f"{n_ret} returned samples (FlowSampler {r['fs']['n_nested']}, dict {(r.get('dict') or {}).get('n')}), "
                      f"expected iterations {'+ nlive' if r['finalised'] else ''} = {want}"))
    if any(a > b for a, b in zip(S["logL"], S["logL"][1:])):
        fails.append(("C05:std-order", "returned nested samples are not in ascending likelihood order"))
    if not all(close(a, b) for a, b in zip(S["logL"], r["logL_re"])) or not all(close(a, b) for a, b in zip(S["logP"], r["logP_re"])):
        fails.append(("C05:std-model", "stored logL / logP differ from the model evaluated at the sample"))
    chk.oracle_validations += 2 * n_ret
    if len(r["birth"]) != n_ret or not all(b < l for b, l in zip(r["birth"], S["logL"])):
        bad = [(i, b, l) for i, (b, l) in enumerate(zip(r["birth"], S["logL"])) if not b < l][:3]
        fails.append(("C05:std-birth", f"birth likelihood not strictly below the sample's likelihood at {bad}"))
    if len(r.get("resumed_at", [])) != len(cfg.get("resume_after", [])) + (1 if cfg.get("resume_finished") else 0):
        fails.append(("C05:std-resume-did-not-happen", f"resumed at {r.get('resumed_at')} for the requested stops {cfg.get('resume_after')}"))
    if r.get("unstable"):
        fails.append(("C05:std-read-mutates", f"reported results changed after merely reading the public properties of the sampler: {r['unstable'][:6]}"))
    if r.get("dict_error"):
        fails.append(("C05:std-dict-raised", f"get_result_dictionary raised: {r['dict_error'][:200]}"))
    elif r.get("dict"):
        d = r["dict"]
        if not (d["log_evidence"] == r["fs"]["logZ"] == r["state"]["logZ"] and d["log_evidence_error"] == r["fs"]["logZ_error"] == r["state"]["error"]
                and d["lpw"] == r["state"]["lpw"] and d["nested_logL"] == S["logL"] == r["fs"]["nested_logL"] and d["birth"] == r["birth"]):
            fails.append(("C05:std-dict", "result dictionary, FlowSampler and sampler object report different evidence / error / weights / samples"))
    sched = [nlive] * it + ([nlive - i for i in range(nlive)] if r["finalised"] else [])
    if sched != r["state"]["nlive_schedule"]:
        fails.append(("C05:std-schedule", "live-count schedule is not nlive per iteration then nlive..1"))
    for k, w in fails:
        chk.fail(k, f"[{name}] {w}", rep({"observed": {"iterations": it, "nlive": nlive, "n_returned": n_ret, "finalised": r["finalised"]}}))
    # Coq: C02's verified evaluator on the returned samples alone
    md = "LogT" if r["mode"] == "logt" else "TT"
    ls = cL(odyo(v) for v in S["logL"])
    ns = cL(f"{n}%positive" for n in sched)
    groups = [cT("3%nat", cL(odyo(v) for v in r["state"]["lpw"]))]
    groups.append(cT("2%nat" if r["finalised"] else "1%nat", cL([odyo(r["fs"]["logZ"])])))
    c02_cases.append((name, cT(md, ls, ns, cL(groups))))
    e = r["fs"]["logZ_error"]
    if e != e and r["state"]["info"] < 0:
        # sqrt of a negative information estimate (possible for nearly flat likelihoods early in a run): the model's
        # real square root is not defined there either; recorded, nothing to compare
        chk.count("std uncertainty NaN from a negative information estimate")
        return
    if not (math.isfinite(e) and math.isfinite(r["fs"]["logZ"])):
        chk.fail("C05:std-not-finite", f"[{name}] reported log Z {r['fs']['logZ']} / uncertainty {e} not finite", rep({}))
        return
    # the information recurrence subtracts numbers of the size of the log-likelihoods: its float64 error grows with
    # max|logL| (cancellation), so the tolerance does too: 2^-30 (1 + max|logL| / 10) relative
    mag = max([abs(v) for v in S["logL"] if v == v and abs(v) != INF] + [0.0])
    err_cases.append((name, cT(md, ls, ns, f"{nlive}%positive", dy(e), dy(pow2_ge(2.0 ** -30 * (1.0 + mag / 10.0) * max(e, 1e-300))))))
    chk.nontriv(("std", name, it))


def check_ins(chk, cfg, r, ins_cases):
    name = cfg["name"]
    rep = lambda extra: {"config": cfg, **extra}
    S = r["samples"]
    n_ret, total = len(S["logL"]), sum(r["counts"].values())
    fails = []
    if len(r.get("resumed_at", [])) != len(cfg.get("resume_after", [])) + (1 if cfg.get("resume_finished") else 0):
        fails.append(("C05:ins-resume-did-not-happen", f"resumed at {r.get('resumed_at')} for the requested stops {cfg.get('resume_after')}"))
    if r.get("unstable"):
        fails.append(("C05:ins-read-mutates", f"reported results changed after merely reading the public properties of the sampler: {r['unstable'][:6]}"))
    if r.get("dict_error"):
        fails.append(("C05:ins-dict-raised", f"get_result_dictionary raised after sampling: {r['dict_error'][-300:]}"))
    d = r.get("dict")
    if d is not None and (d["log_evidence"] is None or d["n"] is None):
        fails.append(("C05:ins-dict-none", "result dictionary reports None for evidence / samples although the sampler has results"))
        d = None
    if not r["redraw"]:
        if not (n_ret == total == r["fs"]["n_nested"]) or (d is not None and d["n"] != n_ret):
            fails.append(("C05:ins-count", f"{n_ret} returned samples (FlowSampler {r['fs']['n_nested']}, dict {(d or {}).get('n')}), "
                          f"sum of the draws of every level = {total} (counts {r['counts']})"))
        if d is not None and not (d["log_evidence"] == r["fs"]["logZ"] == r["state"]["logZ"]
                                  and d["log_evidence_error"] == r["fs"]["logZ_error"] == r["state"]["error"]
                                  and d["lpw"] == r["state"]["lpw"] and d["logL"] == S["logL"]):
            fails.append(("C05:ins-dict", "result dictionary, FlowSampler and sampler object report different evidence / error / weights / samples"))
    if any(a > b for a, b in zip(S["logL"], S["logL"][1:])):
        fails.append(("C05:ins-order", "returned samples are not in ascending likelihood order"))
    if "logP_re" in r and not all(close(a, b) for a, b in zip(S["logP"], r["logP_re"])):
        bad = [(i, a, b) for i, (a, b) in enumerate(zip(S["logP"], r["logP_re"])) if not close(a, b)][:3]
        fails.append(("C05:ins-model-logP", f"stored logP differs from the model's log-prior at the sample for {sum(1 for a, b in zip(S['logP'], r['logP_re']) if not close(a, b))} "
                      f"of {len(S['logP'])} returned samples, e.g. {bad}"))
    if not all(close(a, b) for a, b in zip(S["logL"], r["logL_re"])):
        fails.append(("C05:ins-model", "stored logL differs from the model evaluated at the physical point"))
    chk.oracle_validations += n_ret
    for k, w in fails:
        chk.fail(k, f"[{name}] {w}", rep({"observed": {"iterations": r["iterations"], "counts": r["counts"], "n_returned": n_ret}}))
    # Coq: estimator recomputed from the samples the result reports
    src = None
    if d is not None:
        src = (d["logL"], d["logW"], d["log_evidence"], d["log_evidence_error"], d["lpw"])
    elif not r["redraw"]:
        src = (S["logL"], S["logW"], r["fs"]["logZ"], r["fs"]["logZ_error"], r["state"]["lpw"])
    if src and not (math.isfinite(src[2]) and math.isfinite(src[3]) and all(v == v and v != INF for v in src[4])):
        chk.fail("C05:ins-not-finite", f"[{name}] reported log Z {src[2]} / uncertainty {src[3]} / weights are not finite numbers "
                 f"although the estimator on the returned samples is", rep({"observed": {"logZ": src[2], "logZ_error": src[3]}}))
        src = None
    if src and len(src[0]) >= 2:
        logL, logW, lz, er, lpw = src
        ws = cL(cT(odyo(a), odyo(b)) for a, b in zip(logL, logW))
        tz = pow2_ge(2.0 ** -40 * max(1.0, abs(lz)))
        te = pow2_ge(2.0 ** -30 * max(er, 1e-300))
        tw = pow2_ge(2.0 ** -40 * max(1.0, max(abs(v) for v in lpw if v > -INF)))
        ins_cases.append((name, cT(ws, dy(lz), dy(er), cL(odyo(v) for v in lpw), dy(tz), dy(te), dy(tw))))
    chk.nontriv(("ins", name, r["iterations"]))


def run(chk):
    chk.rule = ("completed real runs of both samplers on a 2-d Gaussian (standard: tolerance-terminated, cut by the iteration cap, "
                "flow phase, both shrinkage modes; importance: default, without the independent store, strict threshold / variable "
                "draws, replace-all, no reparameterisation, redraw in thorough); every returned sample enters the direct predicate; "
                "the reported evidence, uncertainty and weights are recomputed from the returned samples inside Coq; "
                "non-trivial = a completed run; distinct by configuration and iteration count")
    chk.assumptions += [
        "oracle: the user's log_likelihood / log_prior (validated: every returned sample is re-evaluated)",
        "C02's verified evaluator (Run/C02_run.v check_case, theorem C02_check_sound) is reused for log Z and the posterior weights of the standard sampler",
        "tolerances: importance log Z and weights 2^-40 max(1,|.|), uncertainty 2^-30 relative; standard: C02's tolerances, "
        "uncertainty 2^-30 (1 + max|logL|/10) relative (the recurrence cancels numbers of the size of the log-likelihoods)",
        "the model of the standard uncertainty is the information recurrence exactly as _NSIntegralState.increment codes it "
        "(its first finite step contributes ln W_1 where the exact information has ln L_1)",
    ]
    chk.static_props(["C05"], ["C05_run", "C02_run"])
    fields = translate(chk)
    if fields:
        today(chk, fields)
    cfgs = configs(chk.tier, chk.seed)
    with ThreadPoolExecutor(max_workers=10) as ex:
        results = list(ex.map(lambda t: run_one(chk, *t), enumerate(cfgs)))
    c02_cases, err_cases, ins_cases = [], [], []
    for cfg, r in zip(cfgs, results):
        chk.evaluations += 1
        if "error" in r:
            key = "C05:run-failed:" + cfg["name"]
            if cfg.get("ins") and "get_result_dictionary" in r.get("trace", "") or "final_samples" in r.get("trace", ""):
                key = "C05:ins-dict-raised"
            chk.fail(key, f"[{cfg['name']}] run failed: {r['trace'][-500:]}", {"config": cfg, "trace": r["trace"]})
            continue
        chk.traces += 1
        chk.count("runs:" + ("ins" if r["ins"] else "std"))
        if r["ins"]:
            check_ins(chk, cfg, r, ins_cases)
        else:
            check_std(chk, cfg, r, c02_cases, err_cases)
        chk.sample({"config": cfg, "iterations": r["iterations"], "logZ": r["fs"]["logZ"], "logZ_error": r["fs"]["logZ_error"],
                    "n_returned": r["fs"]["n_nested"]})
    # ---- inside Coq -----------------------------------------------------------------------------
    hdr = (common.COQ_HEADER + "From Coq Require Import Reals.\nFrom Interval Require Import Basic.\n"
           "From NessaiV Require Import Lib.Enclose Model.C02_Quadrature Run.C02_run Model.C05_Results Run.C05_run.\n")

    def one(job):
        kind, name, lit = job
        if kind == "c02":
            txt = hdr + f"Definition c0 : case := {lit}.\nEval vm_compute in (check_case P100 c0).\n"
        elif kind == "err":
            txt = hdr + f"Definition c0 : errcase := {lit}.\nEval vm_compute in (chk_std_err c0).\n"
        else:
            txt = hdr + f"Definition c0 : inscase2 := {lit}.\nEval vm_compute in (chk_ins2 c0).\n"
        ok, evals, err = chk.coq_run(f"{kind}_{name}".replace("-", "_"), txt, timeout=900)
        return kind, name, ok, (evals[0] if evals else ""), err

    jobs = [("c02", n, l) for n, l in c02_cases] + [("err", n, l) for n, l in err_cases] + [("ins", n, l) for n, l in ins_cases]
    with ThreadPoolExecutor(max_workers=12) as ex:
        res = list(ex.map(one, jobs))
    for kind, what in (("c02", "standard sampler: reported log Z and posterior weights within C02's tolerance of the quadrature of the RETURNED samples"),
                       ("err", "standard sampler: reported uncertainty within 2^-30 of sqrt(information recurrence / nlive) of the RETURNED samples"),
                       ("ins", "importance sampler: reported log Z, uncertainty and posterior weights within tolerance of lse(logL+logW) - ln n etc. of the RETURNED samples")):
        rs = [r for r in res if r[0] == kind]
        bad = []
        for _, name, ok, ev, err in rs:
            good = ok and (ev.strip() in ("[]", "true"))
            if not good:
                bad.append(f"{name}: {ev or err[-300:]}")
                if ok:
                    cfg = next(c for c in cfgs if c["name"] == name)
                    r = results[cfgs.index(cfg)]
                    clause = {"c02": "log Z / posterior weights", "err": "uncertainty", "ins": "log Z / uncertainty / posterior weights (clauses " + ev + ")"}[kind]
                    chk.fail(f"C05:recompute:{kind}", f"[{name}] the reported {clause} is not what the estimator gives on the returned "
                             f"samples (reported logZ {r['fs']['logZ']}, error {r['fs']['logZ_error']})",
                             {"config": cfg, "observed": {"logZ": r["fs"]["logZ"], "logZ_error": r["fs"]["logZ_error"], "coq": ev}})
        chk.oblige(f"correspondence: {what} ({len(rs)} runs, decided inside Coq)", "correspondence", not bad, "; ".join(bad)[:1500])


def replay(data):
    rp = data["replay"]
    cfg = dict(rp["config"])
    import tempfile
    with tempfile.TemporaryDirectory() as d:
        cfg["output"] = d
        r = subprocess.run([common.PY, os.path.join(common.VERIF, "harness", "c05_child.py"), json.dumps(cfg)],
                           capture_output=True, text=True, env=common.child_env())
    res = json.loads(r.stdout)

    class Fake:
        def __init__(self):
            self.fails, self.oracle_validations = [], 0

        def fail(self, key, what, replay):
            self.fails.append((key, what))

        def nontriv(self, x):
            pass

    fk = Fake()
    if "error" in res:
        fk.fails.append(("run-failed", res["trace"][-400:]))
    elif res["ins"]:
        check_ins(fk, cfg, res, [])
    else:
        check_std(fk, cfg, res, [], [])
    for k, w in fk.fails:
        print(k, w[:400])
    if fk.fails:
        print(f"VIOLATION property={PID} replay=(replayed) {fk.fails[0][1][:200]}")
        return 1
    print("replayed: no failure")
    return 0
