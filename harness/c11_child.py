"""C11 child: runs the REAL nessai checkpoint / weights writers with a crash injector and the REAL
FlowSampler(resume=True) on the directory the kill leaves behind.

One long-lived worker process imports nessai once and never touches a sampler itself; every
phase (base run, crashing writer, classification of the directory, resume) happens in a fork of
it that ends with os._exit, so the resuming process holds no state of the process that died.

stdin : {"kwargs": {...}, "bases": {name: spec}, "cases": [case, ...], "root": dir}
stdout: {"bases": {...}, "results": [...]}
"""
import builtins
import hashlib
import io
import json
import os
import pickle
import select
import shutil
import signal
import sys
import time
import traceback

CRASH_CODE = 77
RESUME_FILE = "nested_sampler_resume.pkl"


# ---------------------------------------------------------------------------------------------
# names: real paths <-> model names (Coq syntax)
# ---------------------------------------------------------------------------------------------
def model_name(root, path):
    """Coq term of type fname for a tracked path under root, else None."""
    rel = os.path.relpath(os.path.abspath(path), os.path.abspath(root))
    wrap = []
    while True:
        if rel.endswith(".old"):
            wrap.append("Old")
            rel = rel[:-4]
        elif rel.endswith(".temp"):
            wrap.append("Temp")
            rel = rel[:-5]
        else:
            break
    parts = rel.split(os.sep)
    if parts == [RESUME_FILE]:
        base = "(Base Pkl)"
    elif parts == ["proposal", "model.pt"]:
        base = "(Base Wt)"
    elif len(parts) == 4 and parts[:2] == ["proposal", "training"] and parts[2].startswith("block_") \
            and parts[3] == "model.pt" and parts[2][6:].isdigit():
        base = f"(Base (Blk {int(parts[2][6:])}))"
    elif len(parts) == 3 and parts[0] == "levels" and parts[1].startswith("level_") and parts[2] == "model.pt" \
            and parts[1][6:].isdigit():
        base = f"(Base (Lvl {int(parts[1][6:])}))"
    else:
        return None
    for w in reversed(wrap):
        base = f"({w} {base})"
    return base


def tracked_files(root):
    out = []
    for d, _, fs in os.walk(root):
        for f in fs:
            p = os.path.join(d, f)
            n = model_name(root, p)
            if n is not None:
                out.append((n, p))
    return sorted(out)


# ---------------------------------------------------------------------------------------------
# the crash injector
# ---------------------------------------------------------------------------------------------
class Injector:
    """Counts the file-system events nessai issues on tracked files and kills the process
    (os._exit, no cleanup, no flush) before event k, or after j bytes of the write run k."""

    def __init__(self, root, k, j, emit, kk=None):
        self.root, self.k, self.j, self.emit = root, k, j, emit
        self.kk = kk            # symbolic kill point: [kind, n] = before the n-th event of that kind
        self.seen = {}
        self.n = 0
        self.armed = False
        self.depth = 0
        self.real = {}

    # -- bookkeeping
    def event(self, kind, **kw):
        """Announce event number self.n; die here if it is the chosen one (not for write runs)."""
        idx = self.n
        self.n += 1
        self.emit({"ev": kind, "i": idx, **kw})
        self.seen[kind] = self.seen.get(kind, 0) + 1
        if self.kk and kind == self.kk[0] and self.seen[kind] == self.kk[1] and kind != "write":
            self.emit({"crash": "before", "i": idx, "kind": kind})
            os._exit(CRASH_CODE)
        if self.k is not None and idx == self.k and kind != "write":
            self.emit({"crash": "before", "i": idx, "kind": kind})
            os._exit(CRASH_CODE)
        return idx

    def name(self, path):
        try:
            return model_name(self.root, os.fspath(path))
        except TypeError:
            return None

    # -- wrappers
    def install(self):
        import torch
        inj = self
        R = self.real
        R["open"] = builtins.open
        R["move"] = shutil.move
        R["replace"] = os.replace
        R["rename"] = os.rename
        R["exists"] = os.path.exists
        R["remove"] = os.remove
        R["save"] = torch.save

        class WFile:
            def __init__(self, fh, nm):
                self.fh, self.nm = fh, nm
                self.run = None        # event index of the write run
                self.count = 0
                self.closed_ = False

            def write(self, data):
                data = bytes(data)
                if self.run is None:
                    self.run = inj.n
                    inj.n += 1
                    inj.emit({"ev": "write", "i": self.run, "f": self.nm})
                if inj.k is not None and self.run == inj.k:
                    j = inj.j or 0
                    room = j - self.count
                    if len(data) >= room:
                        # let exactly j bytes reach the disk, then die
                        if room > 0:
                            self.fh.write(data[:room])
                        self.fh.flush()
                        inj.emit({"crash": "in-write", "i": self.run, "bytes": j})
                        os._exit(CRASH_CODE)
                self.count += len(data)
                inj.emit({"wbytes": len(data), "i": self.run})
                return self.fh.write(data)

            def flush(self):
                return self.fh.flush()

            def fileno(self):
                return self.fh.fileno()

            def close(self):
                if not self.closed_:
                    self.closed_ = True
                    if inj.k is not None and self.run == inj.k:
                        # the chosen cut lies beyond what was written: die with the handle open
                        inj.emit({"crash": "open-handle", "i": self.run, "bytes": self.count})
                        os._exit(CRASH_CODE)
                    inj.event("close", f=self.nm)
                    self.fh.close()

            def __enter__(self):
                return self

            def __exit__(self, *a):
                self.close()
                return False

            def __getattr__(self, a):
                return getattr(self.fh, a)

        def w_open(file, mode="r", *a, **kw):
            nm = inj.name(file) if inj.armed and isinstance(file, (str, os.PathLike)) else None
            if nm is None or not any(c in mode for c in "wax+"):
                return R["open"](file, mode, *a, **kw)
            inj.event("open", f=nm, mode=mode)
            return WFile(R["open"](file, mode, *a, **kw), nm)

        def mover(realname):
            def w_move(src, dst, *a, **kw):
                na, nb = (inj.name(src), inj.name(dst)) if inj.armed and inj.depth == 0 else (None, None)
                if na is None and nb is None:
                    return R[realname](src, dst, *a, **kw)
                inj.event("move", a=na, b=nb, via=realname)
                inj.depth += 1
                try:
                    return R[realname](src, dst, *a, **kw)
                finally:
                    inj.depth -= 1
            return w_move

        def w_exists(path):
            r = R["exists"](path)
            if inj.armed and inj.depth == 0:
                nm = inj.name(path)
                if nm is not None:
                    inj.event("exists", f=nm, result=bool(r))
            return r

        def w_remove(path, *a, **kw):
            if inj.armed and inj.depth == 0:
                nm = inj.name(path)
                if nm is not None:
                    inj.event("remove", f=nm)
            return R["remove"](path, *a, **kw)

        def w_save(obj, f, *a, **kw):
            nm = inj.name(f) if inj.armed and isinstance(f, (str, os.PathLike)) else None
            if nm is None:
                return R["save"](obj, f, *a, **kw)
            # torch.save(obj, path) = open, write the zip archive, close (torch writes through its own
            # C++ file writer; the same bytes are produced in memory and sent through the wrapped open)
            buf = io.BytesIO()
            R["save"](obj, buf, *a, **kw)
            data = buf.getvalue()
            try:
                inj.emit({"new_digest": digest_state(obj), "f": nm, "len": len(data)})
            except Exception:
                pass
            fh = w_open(f, "wb")
            try:
                fh.write(data)
            finally:
                fh.close()

        builtins.open = w_open
        shutil.move = mover("move")
        os.replace = mover("replace")
        os.rename = mover("rename")
        os.path.exists = w_exists
        os.remove = w_remove
        torch.save = w_save


def digest_state(sd):
    import torch
    h = hashlib.sha1()
    for k in sorted(sd.keys()):
        v = sd[k]
        h.update(k.encode())
        if isinstance(v, torch.Tensor):
            h.update(v.detach().cpu().contiguous().numpy().tobytes())
        else:
            h.update(repr(v).encode())
    return h.hexdigest()[:16]


# ---------------------------------------------------------------------------------------------
# forks
# ---------------------------------------------------------------------------------------------
def in_fork(fn, timeout):
    """Run fn(emit) in a forked child; returns (exit status or None on timeout, list of messages)."""
    r, w = os.pipe()
    sys.stdout.flush()
    pid = os.fork()
    if pid == 0:
        os.close(r)
        # a forked child inherits the generator states of the worker: every "fresh process" would replay the same
        # random stream.  Give it what a really fresh interpreter has: state from OS entropy.
        try:
            import random as _random
            _random.seed(os.urandom(16))
            if "numpy" in sys.modules:
                sys.modules["numpy"].random.seed(int.from_bytes(os.urandom(4), "little"))
            if "torch" in sys.modules:
                sys.modules["torch"].manual_seed(int.from_bytes(os.urandom(7), "little"))
        except Exception:
            pass

        def emit(msg):
            os.write(w, (json.dumps(msg) + "\n").encode())
        code = 0
        try:
            fn(emit)
        except SystemExit as e:
            # nessai's own signal handler ends the process with sys.exit(code)
            code = e.code if isinstance(e.code, int) else 0
        except BaseException:
            code = 3
            try:
                emit({"harness_error": traceback.format_exc()[-3000:]})
            except BaseException:
                pass
        os._exit(code)
    os.close(w)
    buf = b""
    deadline = time.time() + timeout
    status = None
    while True:
        left = deadline - time.time()
        if left <= 0:
            os.kill(pid, signal.SIGKILL)
            os.waitpid(pid, 0)
            break
        ready, _, _ = select.select([r], [], [], min(left, 1.0))
        if ready:
            chunk = os.read(r, 1 << 16)
            if not chunk:
                _, st = os.waitpid(pid, 0)
                status = os.waitstatus_to_exitcode(st)
                break
            buf += chunk
    os.close(r)
    msgs = []
    for line in buf.decode(errors="replace").splitlines():
        try:
            msgs.append(json.loads(line))
        except ValueError:
            pass
    return status, msgs


# ---------------------------------------------------------------------------------------------
# real nessai
# ---------------------------------------------------------------------------------------------
def make_model():
    import numpy as np
    from nessai.model import Model

    class Gauss(Model):
        names = ["x", "y"]
        bounds = {"x": [-5.0, 5.0], "y": [-5.0, 5.0]}

        def log_prior(self, x):
            return np.log(self.in_bounds(x), dtype="float") - np.log(100.0)

        def log_likelihood(self, x):
            return -0.5 * (x["x"] ** 2 + x["y"] ** 2)

        def to_unit_hypercube(self, x):
            y = x.copy()
            for n in self.names:
                y[n] = (x[n] + 5.0) / 10.0
            return y

        def from_unit_hypercube(self, x):
            y = x.copy()
            for n in self.names:
                y[n] = x[n] * 10.0 - 5.0
            return y

    return Gauss()


def make_sampler(root, kwargs):
    from nessai.flowsampler import FlowSampler
    return FlowSampler(make_model(), output=root, resume=True, **kwargs)


def sampler_version(ns):
    mark = getattr(ns, "_c11_ver", 0)
    if mark:
        return f"m{mark}"          # set by the harness right before the writer under test
    try:
        t = f"{ns.sampling_time.total_seconds():.6f}"
    except Exception:
        t = "?"
    return f"m0:i{ns.iteration}:t{t}"


def pickled_wspec(root, obj):
    """What the pickled sampler will ask for on resume, as a Coq term of type wspec."""
    prop = getattr(obj, "_flow_proposal", None)
    if prop is not None:
        wf = getattr(prop, "weights_file", None)
        if wf is None:
            return "NoW"
        nm = model_name(root, wf)
        return f"(StdW {nm})" if nm else "(StdW (Base (Other 0)))"      # a path the model has no name for
    prop = getattr(obj, "proposal", None)
    flow = getattr(prop, "flow", None)
    n = getattr(flow, "_resume_n_models", None)
    if n is not None:
        return f"(InsW {int(n)})"
    return "NoW"


def classify(root):
    """[{name, state: whole|bad, ver/w or digest, exc}] for every tracked file present."""
    import torch
    out = []
    for nm, p in tracked_files(root):
        ent = {"name": nm, "size": os.path.getsize(p)}
        if "Pkl" in nm:
            try:
                with open(p, "rb") as fh:
                    obj = pickle.load(fh)
                ent.update(state="whole", kind="pk", ver=sampler_version(obj), w=pickled_wspec(root, obj))
            except Exception as e:
                ent.update(state="bad", kind="pk", exc=type(e).__name__)
        else:
            try:
                sd = torch.load(p)
                ent.update(state="whole", kind="wt", digest=digest_state(sd))
            except Exception as e:
                ent.update(state="bad", kind="wt", exc=type(e).__name__)
        out.append(ent)
    return out


def restore(root, snap):
    shutil.rmtree(root, ignore_errors=True)
    shutil.copytree(snap, root)


def path_of(root, which):
    base = {"PKL": os.path.join(root, RESUME_FILE), "WT": os.path.join(root, "proposal", "model.pt")}
    suffix = ""
    while which.endswith(".old") or which.endswith(".temp"):
        cut = 4 if which.endswith(".old") else 5
        suffix = which[-cut:] + suffix
        which = which[:-cut]
    if which.startswith("LVL"):
        return os.path.join(root, "levels", f"level_{int(which[3:])}", "model.pt") + suffix
    return base[which] + suffix


def apply_manip(root, manip):
    for m in manip:
        op = m[0]
        if op == "rm":
            p = path_of(root, m[1])
            if os.path.exists(p):
                os.remove(p)
        elif op == "copy":          # ["copy", src, dst, fraction]
            src, dst = path_of(root, m[1]), path_of(root, m[2])
            data = open(src, "rb").read()
            n = len(data) if m[3] is None else int(len(data) * m[3])
            os.makedirs(os.path.dirname(dst), exist_ok=True)
            with open(dst, "wb") as fh:
                fh.write(data[:n])
        elif op == "truncate":
            p = path_of(root, m[1])
            n = os.path.getsize(p)
            with open(p, "r+b") as fh:
                fh.truncate(int(n * m[2]))
        else:
            raise ValueError(op)


def run_writer(ns, root, writer, emit):
    import torch
    from nessai.samplers.base import BaseNestedSampler
    ins = hasattr(ns, "training_samples")
    if writer in ("checkpoint", "checkpoint_keep", "checkpoint_nokeep"):
        if writer == "checkpoint":
            ns.checkpoint(periodic=True, force=True)
        elif ins:
            ns.save_existing_checkpoint = (writer == "checkpoint_keep")
            ns.checkpoint(periodic=True, force=True)
        else:
            BaseNestedSampler.checkpoint(ns, periodic=True, force=True, save_existing=(writer == "checkpoint_keep"))
    elif writer == "save_weights":
        if ins:
            flow = ns.proposal.flow
            n = ns.proposal.level_count + 1
            d = os.path.join(ns.proposal.output, f"level_{n}", "")
            os.makedirs(d, exist_ok=True)
            flow.add_new_flow(reset=True)
            flow.save_weights(os.path.join(d, "model.pt"))
        else:
            flow = ns._flow_proposal.flow
            with torch.no_grad():
                for p in flow.model.parameters():
                    p.add_(1e-3)
            flow.save_weights(os.path.join(ns._flow_proposal.output, "model.pt"))
    elif writer == "train":
        if ins:
            ns.proposal.train(ns.training_samples.samples[ns.training_samples.live_points_indices]
                              if getattr(ns.training_samples, "live_points_indices", None) is not None
                              else ns.training_samples.samples, max_epochs=2)
        else:
            ns._flow_proposal.flow.training_config["max_epochs"] = 3
            ns._flow_proposal.train(ns.live_points.copy(), plot=False)
    else:
        raise ValueError(writer)


def writer_phase(root, kwargs, step):
    """Fork body: resume the sampler from the (pristine) directory, put the directory into the
    wanted initial state, then run the real writer with the injector armed."""
    def body(emit):
        try:
            fs = make_sampler(root, kwargs)
        except BaseException as e:
            # the directory cannot be resumed (already reported by the previous step's resume phase)
            emit({"skipped": f"cannot resume before this step: {type(e).__name__}"})
            return
        ns = fs.ns
        if not getattr(ns, "resumed", False):
            emit({"skipped": "nothing to resume before this step (fresh sampler)"})
            return
        apply_manip(root, step.get("manip", []))
        emit({"init_view": classify(root), "flow_weights_file": flow_file(root, ns)})
        ns._c11_ver = step.get("mark", 2)
        # the file this (resumed) sampler checkpoints to
        emit({"new_ver": sampler_version(ns), "new_w": live_wspec(root, ns),
              "held": model_name(root, getattr(ns, "resume_file", "") or "")})
        inj = Injector(root, step.get("k"), step.get("j"), emit, step.get("kk"))
        inj.install()
        inj.armed = True
        run_writer(ns, root, step["writer"], emit)
        inj.armed = False
        emit({"completed": True, "events": inj.n})
    return body


def flow_file(root, ns):
    prop = getattr(ns, "_flow_proposal", None)
    flow = getattr(prop, "flow", None)
    wf = getattr(flow, "weights_file", None)
    return model_name(root, wf) if wf else None


def live_wspec(root, ns):
    """The weights reference a pickle of the live sampler would hold now."""
    prop = getattr(ns, "_flow_proposal", None)
    if prop is not None:
        wf = getattr(getattr(prop, "flow", None), "weights_file", None)
        return "NoW" if wf is None else f"(StdW {model_name(root, wf) or '(Base (Other 0))'})"
    flow = getattr(getattr(ns, "proposal", None), "flow", None)
    if flow is not None and getattr(flow, "models", None) is not None:
        return f"(InsW {len(flow.models)})"
    return "NoW"


def resume_phase(root, kwargs, cont):
    def body(emit):
        try:
            fs = make_sampler(root, kwargs)
        except BaseException as e:
            emit({"outcome": "fail", "exc": type(e).__name__, "msg": str(e)[:300]})
            return
        ns = fs.ns
        if not getattr(ns, "resumed", False):
            emit({"outcome": "fresh", "iteration": int(ns.iteration)})
            return
        res = {"outcome": "loaded", "ver": sampler_version(ns), "iteration": int(ns.iteration)}
        if hasattr(ns, "_flow_proposal"):
            flow = ns._flow_proposal.flow
            wf = getattr(flow, "weights_file", None)
            res["weights"] = [digest_state(flow.model.state_dict())] if wf else []
            res["loaded_from"] = model_name(root, wf) if wf else None
        else:
            flow = ns.proposal.flow
            res["weights"] = [digest_state(m.state_dict()) for m in flow.models]
        emit(res)
        if cont:
            # "sampling can continue from it": the real loop goes on in the directory the kill left - for the
            # importance sampler one more level (training + weights save + checkpoint), for the standard sampler
            # `cont` more iterations (with per-training block directories: enough to train again)
            was_finished = bool(getattr(ns, "finalised", False))
            try:
                if hasattr(ns, "_flow_proposal"):
                    ns.max_iteration = ns.iteration + (cont if isinstance(cont, int) and cont > 1 else 3)
                    ns.finalised = False
                else:
                    ns.max_iteration = ns.iteration + 1
                    ns.finalised = False
                it0 = ns.iteration
                tc0 = int(getattr(getattr(ns, "_flow_proposal", None), "training_count", 0) or 0)
                fs.run(plot=False, save=False)
                on_disk = None
                try:
                    with open(os.path.join(root, RESUME_FILE), "rb") as fh:
                        on_disk = int(pickle.load(fh).iteration)
                except Exception as e:
                    on_disk = f"unreadable: {type(e).__name__}"
                emit({"continued": True, "from": int(it0), "to": int(fs.ns.iteration), "was_finished": was_finished,
                      "checkpoint_iteration": on_disk,
                      "trainings": int(getattr(getattr(fs.ns, "_flow_proposal", None), "training_count", 0) or 0) - tc0})
            except BaseException as e:
                emit({"continued": False, "exc": type(e).__name__, "msg": str(e)[:300],
                      "tb": traceback.format_exc()[-600:]})
    return body


def base_phase(root, kwargs, spec):
    def body(emit):
        shutil.rmtree(root, ignore_errors=True)
        kw = dict(kwargs)
        kw.update(spec.get("kwargs", {}))
        fs = make_sampler(root, kw)
        if spec.get("stop_after"):
            # a run that is still going: stop like a kill right after its N-th checkpoint has completed
            import nessai.samplers.base as base
            real = base.safe_file_dump
            seen = {"n": 0}

            def counted(data, filename, module, save_existing=False):
                real(data, filename, module, save_existing=save_existing)
                seen["n"] += 1
                if seen["n"] >= spec["stop_after"]:
                    emit({"base_done": True, "iteration": int(data.iteration), "stopped_mid_run": True,
                          "evals": int(data.model.likelihood_evaluations)})
                    os._exit(0)
            base.safe_file_dump = counted
        fs.run(plot=False, save=False)
        emit({"base_done": True, "iteration": int(fs.ns.iteration),
              "evals": int(fs.ns.model.likelihood_evaluations)})
    return body


def first(msgs, key):
    for m in msgs:
        if key in m:
            return m
    return None


def run_steps(root, snaps, kwargs_by_base, case, timeout):
    base = case["base"]
    kwargs = kwargs_by_base[base]
    restore(root, snaps[base])
    out = {"id": case["id"], "case": case, "steps": []}
    for step in case["steps"]:
        st, msgs = in_fork(writer_phase(root, kwargs, step), timeout)
        rec = {"status": st, "writer": step["writer"], "k": step.get("k"), "j": step.get("j")}
        for key in ("init_view", "new_ver", "new_digest", "completed", "harness_error", "crash", "skipped"):
            m = first(msgs, key)
            if m is not None:
                rec[key] = m if key in ("crash",) else m[key]
        m = first(msgs, "new_ver")
        if m:
            rec["new_w"] = m["new_w"]
            rec["held"] = m.get("held")
        m = first(msgs, "init_view")
        if m:
            rec["flow_weights_file"] = m.get("flow_weights_file")
        if "skipped" in rec:
            out["steps"].append(rec)
            break
        rec["events"] = [m for m in msgs if "ev" in m]
        rec["wbytes"] = {}
        for m in msgs:
            if "wbytes" in m:
                rec["wbytes"][str(m["i"])] = rec["wbytes"].get(str(m["i"]), 0) + m["wbytes"]
        st2, msgs2 = in_fork(lambda emit: emit({"view": classify(root)}), timeout)
        m = first(msgs2, "view")
        rec["post_view"] = m["view"] if m else None
        st3, msgs3 = in_fork(resume_phase(root, kwargs, step.get("cont", False)), timeout)
        m = first(msgs3, "outcome")
        rec["resume"] = m if m else {"outcome": "fail", "exc": "HarnessTimeoutOrCrash", "status": st3,
                                     "msg": json.dumps(msgs3)[-300:]}
        m = first(msgs3, "continued")
        if m is not None:
            rec["continued"] = m
        out["steps"].append(rec)
    return out


def cut_points(length, cuts):
    """Byte counts let through before the kill: fractions in [0,1), positive ints from the start,
    negative ints from the end."""
    out = []
    for c in cuts:
        if isinstance(c, float):
            j = int(length * c)
        elif c < 0:
            j = length + c
        else:
            j = c
        j = max(0, min(length - 1, j))
        if j not in out:
            out.append(j)
    return out


def run_case(root, snaps, kwargs_by_base, case, timeout):
    """A case is a chain of steps (resume, writer with an optional kill, classification, fresh
    resume).  With "expand", the last step is first run without a kill (the reference: event
    sequence, byte counts) and then once per crash point."""
    exp = case.get("expand")
    if not exp:
        return [run_steps(root, snaps, kwargs_by_base, case, timeout)]
    ref_case = json.loads(json.dumps(case))
    ref_case.pop("expand")
    ref_case["steps"][-1]["k"] = None
    ref_case["steps"][-1]["j"] = None
    ref_case["id"] = case["id"] + ":ref"
    ref = run_steps(root, snaps, kwargs_by_base, ref_case, timeout)
    outs = [ref]
    last = ref["steps"][-1] if ref["steps"] else None
    if not last or not last.get("completed"):
        return outs
    only = exp.get("only_kinds")
    for ev in last["events"]:
        if only and ev["ev"] not in only:
            continue
        if ev["ev"] == "write":
            length = last["wbytes"].get(str(ev["i"]), 0)
            points = [(ev["i"], j) for j in cut_points(length, exp.get("cuts", [0, 1, 0.5, -1]))]
        else:
            points = [(ev["i"], None)]
        for k, j in points:
            c = json.loads(json.dumps(ref_case))
            c["steps"][-1]["k"], c["steps"][-1]["j"] = k, j
            c["id"] = f"{case['id']}:k{k}" + (f":j{j}" if j is not None else "")
            outs.append(run_steps(root, snaps, kwargs_by_base, c, timeout))
    return outs


def main():
    job = json.load(sys.stdin)
    import logging
    logging.disable(logging.CRITICAL)
    import numpy as np  # noqa: F401
    import torch
    torch.set_num_threads(1)
    import nessai.flowsampler  # noqa: F401
    import nessai.samplers.importancesampler  # noqa: F401
    work = job["root"]
    os.makedirs(work, exist_ok=True)
    # a per-worker run directory: the pickles hold the output path, so every case reuses this path
    root = os.path.join(work, "run")
    snaps, kwargs_by_base, base_info = {}, {}, {}
    timeout = job.get("timeout", 120)
    for name, spec in job["bases"].items():
        kw = dict(job["kwargs"][spec["sampler"]])
        kwargs_by_base[name] = dict(kw, **spec.get("kwargs", {}))
        st, msgs = in_fork(base_phase(root, kw, spec), timeout * 2)
        if first(msgs, "base_done") is None:
            base_info[name] = {"error": json.dumps(msgs)[-2000:], "status": st}
            continue
        # optional preparation of the snapshot (e.g. drop the .old files for an 'early' directory)
        apply_manip(root, spec.get("manip", []))
        snap = os.path.join(work, "snap_" + name)
        shutil.rmtree(snap, ignore_errors=True)
        shutil.copytree(root, snap)
        snaps[name] = snap
        st2, m2 = in_fork(lambda emit: emit({"view": classify(root)}), timeout)
        base_info[name] = {"run": first(msgs, "base_done"), "view": (first(m2, "view") or {}).get("view")}
    results = []
    for case in job["cases"]:
        if case["base"] not in snaps:
            results.append({"id": case["id"], "error": "base run failed"})
            continue
        try:
            results.extend(run_case(root, snaps, kwargs_by_base, case, timeout))
        except Exception:
            results.append({"id": case["id"], "error": traceback.format_exc()[-2000:]})
    shutil.rmtree(work, ignore_errors=True)
    json.dump({"bases": base_info, "results": results}, sys.stdout)


if __name__ == "__main__":
    main()
