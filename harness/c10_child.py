"""Runs the real nessai batch-evaluation code on the cases given on stdin (JSON), prints JSON."""
import json
import sys

import numpy as np

from nessai.livepoint import numpy_array_to_live_points
from nessai.model import Model
from nessai.utils.multiprocessing import batch_evaluate_function, initialise_pool_variables
from nessai.utils.structures import array_split_chunksize


class FakePool:
    """Deterministic order-preserving pool; records the size of every piece it is handed."""

    def __init__(self, processes):
        self._processes = processes
        self.sizes = []

    def map(self, f, it):
        out = []
        for piece in it:
            self.sizes.append(int(np.size(piece)))
            out.append(f(piece))
        return out

    def close(self):
        pass

    def join(self):
        pass

    def terminate(self):
        pass


def points(n, noise=0):
    a = np.zeros((n, 2))
    a[:, 0] = np.arange(n, dtype=float) + 0.5
    a[:, 1] = 0.25
    x = numpy_array_to_live_points(a, ["x", "y"])
    if noise and n:
        # what the non-parameter fields happen to hold is not an input of the batch interface: fill them with values
        # that a shortcut would trip over (zero / infinite / NaN prior, stale likelihoods, iteration labels)
        pat = [-np.inf, 0.0, np.nan, 1.5, np.inf, -np.inf, -3.0]
        x["logP"] = [pat[(i + noise) % len(pat)] for i in range(n)]
        x["logL"] = [[7.0 + i, -np.inf, np.nan][(i + noise) % 3] for i in range(n)]
        x["it"] = np.arange(n) - 1
    return x


def make_func(fvals, kind, calls):
    table = np.array(list(fvals) + [0], dtype=float)

    def vec(x):
        calls.append(int(np.size(x)))
        return table[np.floor(x["x"]).astype(int)]

    def scalar(x):
        calls.append(int(np.size(x)))
        if np.size(x) != 1:
            raise TypeError("not vectorised")
        return float(table[int(np.floor(np.atleast_1d(x["x"])[0]))])

    def arr1(x):
        calls.append(int(np.size(x)))
        if np.size(x) != 1:
            raise TypeError("not vectorised")
        return np.array([table[int(np.floor(np.atleast_1d(x["x"])[0]))]])

    def approx(x):
        # a function whose array path is only approximately its pointwise value (a float32 kernel, say): the values the
        # batch interface owes are the POINTWISE ones, which nessai obtains by not treating such a function as vectorised
        calls.append(int(np.size(x)))
        if np.size(x) == 1:
            v = table[int(np.floor(np.atleast_1d(x["x"])[0]))]
            return float(v) if np.ndim(x) == 0 else np.array([v])
        return table[np.floor(x["x"]).astype(int)] * (1.0 + 2.0 ** -22) + 2.0 ** -30

    def special(v):
        # non-finite values a likelihood may legitimately return: zero likelihood, overflow, undefined
        r = np.asarray(v, dtype=float).copy()
        k = np.floor(r).astype(int) % 7
        r = np.where(k == 0, -np.inf, r)
        r = np.where(k == 1, np.inf, r)
        r = np.where(k == 2, np.nan, r)
        return r

    def vecinf(x):
        calls.append(int(np.size(x)))
        return special(table[np.floor(x["x"]).astype(int)])

    def scalarinf(x):
        calls.append(int(np.size(x)))
        if np.size(x) != 1:
            raise TypeError("not vectorised")
        return float(special(table[int(np.floor(np.atleast_1d(x["x"])[0]))]))

    return {"vec": vec, "scalar": scalar, "arr1": arr1, "approx": approx, "vecinf": vecinf, "scalarinf": scalarinf}[kind]


def special_ref(vals):
    out = []
    for v in vals:
        k = int(v) % 7
        out.append(-np.inf if k == 0 else np.inf if k == 1 else np.nan if k == 2 else float(v))
    return out


class TModel(Model):
    def __init__(self, n, fvals, kind, calls, pcalls, pkind=None, ukind=None):
        self.names = ["x", "y"]
        self.bounds = {"x": [0.0, float(max(n, 1))], "y": [0.0, 1.0]}
        self._f = make_func(fvals, kind, calls)
        self._p = make_func([(v % 7) for v in fvals], pkind or kind, pcalls)
        self._u = make_func([(v % 5) for v in fvals], ukind or kind, pcalls)
        self._n = n

    def log_prior_unit_hypercube(self, x):
        # a user-supplied unit-hypercube prior: defined on the unit cube, looked up at the mapped point
        y = x.copy()
        y["x"] = x["x"] * max(self._n, 1)
        return self._u(y)

    def log_prior(self, x):
        return self._p(x)

    def log_likelihood(self, x):
        return self._f(x)

    def from_unit_hypercube(self, x):
        y = x.copy()
        y["x"] = x["x"] * max(self._n, 1)
        return y

    def to_unit_hypercube(self, x):
        y = x.copy()
        y["x"] = x["x"] / max(self._n, 1)
        return y


def err_name(e):
    n = type(e).__name__
    return n if n in ("ValueError", "TypeError", "IndexError", "RuntimeError") else "Other:" + n


def run_case(c):
    kind = c["kind"]
    if kind == "chunks":
        try:
            return {"lens": [len(p) for p in array_split_chunksize(np.arange(c["n"]), c["k"])]}
        except Exception as e:
            return {"error": err_name(e)}
    if kind == "splitn":
        try:
            return {"lens": [len(p) for p in np.array_split(np.arange(c["n"]), c["p"])]}
        except Exception as e:
            return {"error": err_name(e)}
    if kind == "bef":
        calls = []
        f = make_func(c["fvals"], c["fkind"], calls)
        pool = FakePool(c["n_pool"]) if c["has_pool"] else None
        x = points(c["n"], c.get("noise", 0))
        try:
            out = batch_evaluate_function(
                f, x, c["vectorised"], chunksize=c["chunksize"] or None, pool=pool,
                n_pool=c["n_pool"] if c["has_pool"] else None,
                func_wrapper=f if c.get("wrapper") else None,
            )
            out = [float(v) for v in np.asarray(out).tolist()]
        except Exception as e:
            return {"error": err_name(e)}
        ref = [float(c["fvals"][i]) for i in range(c["n"])]
        return {"out": out, "ref": ref, "calls": calls, "pool_sizes": pool.sizes if pool else None}
    if kind == "model":
        calls, pcalls = [], []
        m = TModel(c["n"], c["fvals"], c["fkind"], calls, pcalls, c.get("pkind"), c.get("ukind"))
        m.likelihood_chunksize = c["chunksize"] or None
        m.parallelise_prior = bool(c.get("parallelise_prior"))
        if c["vect_mode"] == "force_true":
            m.vectorised_likelihood = True
            m.vectorised_prior = True
            m.vectorised_prior_unit_hypercube = True
        elif c["vect_mode"] == "force_false":
            m.allow_vectorised = False
            m.allow_vectorised_prior = False
        pool = None
        if c["pool"] == "fake":
            pool = FakePool(c["n_pool"])
            initialise_pool_variables(m)
            m.configure_pool(pool=pool)
        elif c["pool"] == "real":
            m.configure_pool(n_pool=c["n_pool"])
        x = points(c["n"], c.get("noise", 0))
        if c.get("unit") or c["which"] == "prior_uh":
            x = m.to_unit_hypercube(x)
        # settle the vectorisation probe before counting
        try:
            _ = m.vectorised_likelihood, m.vectorised_prior, m.vectorised_prior_unit_hypercube
        except Exception as e:
            return {"error": "probe:" + err_name(e)}
        before = m.likelihood_evaluations
        ncalls0 = len(calls)
        x_before = x.tobytes()
        try:
            if c["which"] == "likelihood":
                out = m.batch_evaluate_log_likelihood(x, unit_hypercube=bool(c.get("unit")))
                ref = [float(c["fvals"][i]) for i in range(c["n"])]
            elif c["which"] == "single":
                out = np.array([m.evaluate_log_likelihood(xx) for xx in x]).flatten() if c["n"] else np.array([])
                ref = [float(c["fvals"][i]) for i in range(c["n"])]
            elif c["which"] == "prior_uh":
                out = m.batch_evaluate_log_prior_unit_hypercube(x)
                ref = [float(c["fvals"][i] % 5) for i in range(c["n"])]
            else:
                out = m.batch_evaluate_log_prior(x, unit_hypercube=bool(c.get("unit")))
                ref = [float(c["fvals"][i] % 7) for i in range(c["n"])]
            out = [float(v) for v in np.asarray(out).tolist()]
            kind_used = {"likelihood": c["fkind"], "single": c["fkind"], "prior": c.get("pkind") or c["fkind"],
                         "prior_uh": c.get("ukind") or c["fkind"]}[c["which"]]
            if kind_used in ("vecinf", "scalarinf"):
                ref = special_ref(ref)
            res = {"out": out, "ref": ref, "delta": int(m.likelihood_evaluations - before),
                   "calls": calls[ncalls0:], "vectorised": bool(m.allow_vectorised and m.vectorised_likelihood),
                   "input_unchanged": bool(c["which"] == "single" or x.tobytes() == x_before)}
            if c.get("reuse") and c["n"] >= 2 and c["which"] != "single":
                # the same buffer, refilled in place with the points in reverse order, evaluated again
                x[...] = x[::-1].copy()
                if c["which"] == "likelihood":
                    out2 = m.batch_evaluate_log_likelihood(x, unit_hypercube=bool(c.get("unit")))
                elif c["which"] == "prior_uh":
                    out2 = m.batch_evaluate_log_prior_unit_hypercube(x)
                else:
                    out2 = m.batch_evaluate_log_prior(x, unit_hypercube=bool(c.get("unit")))
                res["out2"] = [float(v) for v in np.asarray(out2).tolist()]
                res["ref2"] = ref[::-1]
        except Exception as e:
            res = {"error": err_name(e)}
        finally:
            if c["pool"] == "real":
                m.close_pool()
        return res
    raise SystemExit("unknown kind")


def main():
    cases = json.load(sys.stdin)
    import logging
    logging.disable(logging.CRITICAL)
    out = [run_case(c) for c in cases]
    json.dump(out, sys.stdout)


if __name__ == "__main__":
    main()
