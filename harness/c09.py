"""C09: proposal pools follow the prior inside the contour and never leave the prior."""
import json
import math
import os
import subprocess
import sys
from concurrent.futures import ThreadPoolExecutor

import common
from common import cB, cL, cN, cOpt, cT, cZ, float_dyadic

sys.path.insert(0, common.VERIF + "/translator")
PID = "C09"
NONFINITE_KEY = "C09:nonfinite-logq-IndexError"


# ---------------------------------------------------------------------------------------------------------
def cE(h):
    """float.hex() / 'nan' / 'inf' / '-inf' -> Coq ext literal"""
    if h == "nan":
        return "NaN"
    if h == "inf":
        return "PInf"
    if h == "-inf":
        return "NInf"
    m, e = float_dyadic(float.fromhex(h))
    return f"(Fin {cZ(m)} {cZ(e)})"


def fin(h):
    return h not in ("nan", "inf", "-inf")


def lit_cand(c):
    return f"mkc {cN(c[0])} {cE(c[1])} {cE(c[2])} {cB(c[3])} {cE(c[4])}"


def lit_batch(b):
    return f"mkb {cL(map(lit_cand, b['cands']))} {cL(map(cE, b['us']))} {cB(b['attempt'])}"


# ---------------------------------------------------------------------------------------------------------
def gen_flow(rng, tier):
    cases = []
    n_scripted = 70 if tier == "quick" else 900
    for i in range(n_scripted):
        latent = rng.choice(["truncated_gaussian", "truncated_gaussian", "uniform_nball", "gaussian", "flow"])
        cvm = latent in ("truncated_gaussian", "uniform_nball") and rng.random() < 0.6
        acc = rng.random() < 0.4
        prior = rng.choice(["uniform", "corner", "steps", "nobounds", "nobounds", "steps"])
        if rng.random() < 0.12:
            prior = rng.choice(["nanregion", "pinfregion"])
        cases.append({
            "seed": rng.randrange(1 << 30), "prior": prior, "N": rng.choice([1, 2, 3, 5, 8]),
            "drawsize": rng.choice([1, 2, 3, 5, 8, 12]), "latent": latent, "acc": acc,
            "trunc": rng.random() < 0.25, "cvm": cvm, "radius": rng.choice([1.5, 2.5, 3.5]),
            "expansion": rng.choice([None, 1.0, 4.0]), "flow": "scripted",
            "scale": rng.choice([0.5, 1.5, 3.0, 4.0]), "shift": rng.choice([0.0, 0.5, -2.0, 3.0]),
            "special": rng.random() < 0.3, "max_batches": 0, "npop": rng.choice([1, 2]),
            "max_samples": rng.choice([None, None, 10, 30]) if acc else None, "cls": "flow"})
        if rng.random() < 0.2:
            augment(rng, cases[-1])
        radius_sequence(rng, cases[-1])
    n_real = 8 if tier == "quick" else 60
    for i in range(n_real):
        cls = "augmented" if i % 4 == 3 else "flow"
        latent = rng.choice(["truncated_gaussian", "uniform_nball", "gaussian"])
        cases.append({
            "seed": rng.randrange(1 << 30), "prior": rng.choice(["uniform", "corner", "steps", "nobounds"]),
            "N": rng.choice([4, 10, 25]), "drawsize": rng.choice([5, 10, 30]), "latent": latent,
            "acc": rng.random() < 0.4, "trunc": rng.random() < 0.25,
            "cvm": latent in ("truncated_gaussian", "uniform_nball") and rng.random() < 0.6,
            "radius": rng.choice([1.5, 2.5]), "expansion": rng.choice([None, 4.0]),
            "flow": "trained" if i % 4 == 1 else "real", "scale": 1.0, "shift": 0.0, "special": False,
            "max_batches": 0, "npop": 2, "max_samples": None, "cls": cls})
        if cls == "augmented":
            augment(rng, cases[-1], p_marg=0.7)
        radius_sequence(rng, cases[-1])
    for c in cases:
        if not c["max_batches"]:
            c["max_batches"] = 40 + 300 // c["drawsize"]
    return cases


def augment(rng, c, p_marg=0.6):
    """AugmentedFlowProposal: extra Gaussian dimensions, optionally marginalised over n_marg fresh draws per point."""
    c["cls"] = "augmented"
    c["augment_dims"] = rng.choice([1, 2, 2, 3])
    c["marg"] = rng.random() < p_marg
    c["n_marg"] = rng.choice([1, 2, 3, 5, 8])
    if c["marg"]:
        c["drawsize"] = max(c["drawsize"], 2)


def radius_sequence(rng, c):
    """How the latent radius of successive populations of ONE proposal object is obtained: fixed (constant volume or
    fixed_radius), computed from the worst point handed to each population, or given explicitly to populate(r=...).
    In the last two modes the radius changes from one population to the next (shrinking and growing sequences)."""
    if c["cvm"]:
        c["radius_mode"] = "fixed"
        return
    c["radius_mode"] = rng.choice(["fixed", "worst", "worst", "explicit"])
    if c["radius_mode"] != "fixed":
        c["npop"] = rng.choice([2, 2, 3])
        c["worst_idx"] = [rng.randrange(40) for _ in range(c["npop"])]
        rs = [rng.choice([0.6, 1.0, 1.5, 2.5, 3.5]) for _ in range(c["npop"])]
        if rng.random() < 0.5:
            rs.sort(reverse=rng.random() < 0.7)
        c["radii"] = rs
        c["radius_all"] = c["radius_mode"] == "worst" and rng.random() < 0.2


def gen_latent(rng, tier):
    out = []
    for latent in ("truncated_gaussian", "uniform_nball", "uniform_nsphere", "gaussian", "uniform", "flow"):
        for dims in (1, 2, 3, 8):
            if latent == "flow" and dims == 1:
                continue
            out.append({"seed": rng.randrange(1 << 30), "latent": latent, "dims": dims, "r": rng.choice([0.7, 1.5, 2.5, 4.0]),
                        "fuzz": rng.choice([1.0, 1.2]), "n": 4000 if tier == "quick" else 20000})
    return out


def latent_predicate(c, r):
    """exact binomial bounds on the bin counts, total false-alarm probability below 1e-9 per case"""
    from scipy.stats import binom
    bad, tests = [], 0
    nstat = max(1, sum(len(v["counts"]) for v in r["stats"].values()))
    alpha = 1e-9 / (2 * nstat)
    for name, v in r["stats"].items():
        if v.get("outside"):
            bad.append(f"{name}: {v['outside']} draws outside the support of the stated density")
        n = sum(v["counts"])
        for k, q in zip(v["counts"], v["probs"]):
            tests += 1
            lo, hi = binom.ppf(alpha, n, q), binom.isf(alpha, n, q)
            if not lo <= k <= hi:
                bad.append(f"{name}: bin counts {v['counts']} of {n} draws, expected probabilities {v['probs']} "
                           f"(allowed {int(lo)}..{int(hi)} per bin)")
                break
    return bad, tests


def gen_rej(rng, tier):
    out = []
    n = 40 if tier == "quick" else 400
    for i in range(n):
        out.append({"seed": rng.randrange(1 << 30), "prior": rng.choice(["uniform", "corner", "steps", "steps"]),
                    "N": rng.choice([2, 3, 5, 9, 16]), "what": rng.choice(["rejection", "rejection", "analytic", "newpoint"])})
    return out


def gen_radial(rng, tier):
    out = []
    for i in range(24 if tier == "quick" else 300):
        out.append({"seed": rng.randrange(1 << 30), "what": rng.choice(["ndtg", "tg", "nball", "surface"]),
                    "dims": rng.choice([1, 2, 3, 8, 20]), "r": rng.choice([0.1, 1.0, 2.5, 7.0]),
                    "fuzz": rng.choice([1.0, 1.05, 1.5]), "n": 200})
    return out


def gen_prims(rng, tier):
    sp = ["nan", "inf", "-inf", (0.0).hex(), (-0.0).hex(), (1.0).hex(), (5e-324).hex(), (1.7e308).hex(), (-1.7e308).hex()]
    pairs = [[a, b] for a in sp for b in sp]
    for _ in range(300 if tier == "quick" else 5000):
        k = rng.random()
        if k < 0.4:
            a, b = rng.uniform(-50, 50), rng.uniform(-50, 50)
        elif k < 0.6:
            a = rng.uniform(-10, 10)
            b = a * (1 + rng.choice([1e-15, 1e-12, -1e-9, 3e-16]))
        elif k < 0.8:
            a, b = math.ldexp(rng.random(), rng.randint(-1074, 1023)), math.ldexp(rng.random(), rng.randint(-1074, 1023))
            a = a if rng.random() < 0.5 else -a
        else:
            a, b = float(rng.randint(-9, 9)) / 8, float(rng.randint(-9, 9)) / 4
        pairs.append([a.hex(), b.hex()])
    return pairs


def gen_ins(rng, tier):
    out = []
    # the importance proposal works in the unit hypercube: the prior kinds include one that does not test the bounds itself
    # (a constant-density style prior), and both reparameterisations (with None the flows can leave the hypercube)
    combos = [("corner", "logit"), ("nobounds", None), ("uniform", None), ("steps", "logit"), ("nobounds", "logit"),
              ("corner", None)]
    for i in range(3 if tier == "quick" else 12):
        prior, reparam = combos[i % len(combos)]
        out.append({"seed": rng.randrange(1 << 30), "prior": prior,
                    "n": rng.choice([20, 40]), "iid": i % 2 == 1, "reparam": reparam,
                    "draw_ns": [1, 7, 30], "max_batches": 50,
                    "from_flows": [[rng.choice([5, 40]), "weights"], [rng.choice([60, 200]), rng.choice(["weights", "counts"])]]})
    return out


def gen_real(chk, rng, tier):
    base = os.path.join(chk.build, "runs")
    out = [
        {"sampler": "standard", "prior": "corner", "nlive": 50, "max_it": 260 if tier == "quick" else 1200,
         "seed": 100 + chk.seed, "output": base + "/std"},
        {"sampler": "ins", "prior": "corner", "nlive": 60, "max_it": 3 if tier == "quick" else 8,
         "seed": 200 + chk.seed, "output": base + "/ins"},
        {"sampler": "standard", "prior": "uniform", "nlive": 40, "max_it": 160 if tier == "quick" else 600,
         "seed": 300 + chk.seed, "output": base + "/aug", "cls": "augmentedflowproposal"},
    ]
    out.append({"sampler": "standard", "prior": "steps", "nlive": 40, "max_it": 150 if tier == "quick" else 500,
                "seed": 400 + chk.seed, "output": base + "/ana", "analytic": True})
    if tier != "quick":
        out.append({"sampler": "standard", "prior": "nobounds", "nlive": 60, "max_it": 700, "seed": 500 + chk.seed,
                    "output": base + "/nb", "extra": {"latent_prior": "uniform_nball", "constant_volume_mode": False}})
    return out


# ---------------------------------------------------------------------------------------------------------
def check_pool(pop, support, N, exact):
    """Direct predicate on one population (implementation alone). Returns [(key, what)]."""
    fails = []
    size = len(pop["pool_samples"])
    if (exact and size != N) or size > N:
        fails.append(("C09:pool-size", f"pool has {size} points for a request of {N}"))
    if not all(pop["pool_inb"]):
        fails.append(("C09:pool-out-of-bounds", "a pool point lies outside the prior bounds"))
    if any((not fin(a)) or a != b for a, b in zip(pop.get("pool_logP", []), pop["pool_logP_model"])) \
            or any(not fin(b) for b in pop["pool_logP_model"]):
        fails.append(("C09:pool-logP", "a pool point has a non-finite log-prior or one that differs from the model's"))
    if not all(pop.get("pool_logL_ok", [])):
        fails.append(("C09:pool-logL", "a pool point carries a log-likelihood different from the model's"))
    lik = [i for call in pop["lik"] for i in call]
    bad = [i for i in lik if i < 0 or not support.get(i, False)]
    if bad:
        fails.append(("C09:lik-outside-support", f"the likelihood was evaluated on points outside the prior support (ids {bad[:5]})"))
    if "draws" in pop:
        rows = [r for r, _ in pop["draws"]]
        if len(set(rows)) != len(rows) or any(r < 0 for r in rows):
            fails.append(("C09:pool-index-reused", f"a pool point was handed out twice: rows {rows}"))
        elif len(rows) != size:
            fails.append(("C09:pool-not-exhausted", f"{len(rows)} draws from a pool of {size} before `populated` went False"))
        flags = [f for _, f in pop["draws"]]
        if flags and (flags[-1] or not all(flags[:-1])):
            fails.append(("C09:populated-flag", f"populated flags after each draw: {flags}"))
    return fails


def check_contour(c, pop):
    """Radially truncated latent priors: every latent point of THIS population lies inside THIS population's contour
    r * fuzz, and (truncated Gaussian) was drawn with the truncation of that contour."""
    fails = []
    if c["latent"] not in ("truncated_gaussian", "uniform_nball") or pop.get("r") is None or not pop.get("n_latent"):
        return fails
    lim = pop["r"] * pop["fuzz"]
    if pop["z_max_radius"] > lim * (1 + 1e-9):
        fails.append(("C09:latent-outside-contour", f"a latent point of the population has radius {pop['z_max_radius']:.6g} > "
                      f"r * fuzz = {lim:.6g} (r = {pop['r']:.6g}, radius mode {c.get('radius_mode')})"))
    if "umax_used" in pop:
        lo, hi, want = pop["umax_used"][0], pop["umax_used"][1], pop["umax_want"]
        if want < 1 - 1e-9 and (abs(lo - want) > 1e-6 * want + 1e-12 or abs(hi - want) > 1e-6 * want + 1e-12):
            fails.append(("C09:latent-contour-not-covered", f"the latent points were drawn with truncation mass in "
                          f"[{lo:.6g}, {hi:.6g}] but the contour r * fuzz = {lim:.6g} has mass {want:.6g}: the pool does not "
                          f"cover the contour (radius mode {c.get('radius_mode')})"))
    return fails


def shard_eval(chk, name, hdr, chkname, lits, size=200, maxbytes=150000):
    shards, cur, curb = [], [], 0
    for gi, lit in enumerate(lits):
        if cur and (len(cur) >= size or curb + len(lit) > maxbytes):
            shards.append(cur)
            cur, curb = [], 0
        cur.append((gi, lit))
        curb += len(lit)
    if cur:
        shards.append(cur)

    def one(k):
        txt = hdr + f"Eval vm_compute in (mism {chkname} {cL(l for _, l in shards[k])}).\n"
        ok, evals, err = chk.coq_run(f"{name}_{k}", txt, timeout=900)
        if not ok or len(evals) != 1:
            return None, f"shard {name}_{k} did not evaluate: {err[-600:]}"
        return [shards[k][i][0] for i in common.parse_nat_list(evals[0])], ""

    bad = []
    with ThreadPoolExecutor(max_workers=8) as ex:
        for r, err in ex.map(one, range(len(shards))):
            if r is None:
                return None, err
            bad += r
    return bad, ""


def translate(chk):
    import c09_sites
    from pyast import Declined
    try:
        sk, table = c09_sites.sites()
        chk.translator["likelihood_call_sites"] = table
        return sk
    except Declined as e:
        chk.translator["likelihood_call_sites"] = f"declined: {e}"
        return None


def today(chk, sk):
    txt = (common.COQ_HEADER + "From NessaiV Require Import Model.C09_Pool Proofs.C09_Pool_proofs.\n"
           f"Definition sk_now : list site := {sk}.\n"
           "Lemma today : sites_ok sk_now = true.\nProof. vm_compute. reflexivity. Qed.\n"
           "Lemma today_property : forall s, In s sk_now -> s_flagged s = false ->\n"
           "  forall sel l, Forall (fun c => src_guarantee (s_src s) c = true) l ->\n"
           "  Forall (fun c => in_support c = true) (apply_masks (s_masks s) sel l).\n"
           "Proof. exact (sites_sound sk_now today). Qed.\n")
    ok, _, err = chk.coq_run("today_sites", txt)
    chk.oblige("today: every likelihood call site regenerated from the package is dominated by an in-bounds and a "
               "finite-prior filter or is a listed dead path (sites_ok sk_now = true + instantiated soundness)",
               "today", ok, err)


# ---------------------------------------------------------------------------------------------------------
def run(chk):
    rng = chk.rng
    chk.rule = ("populations of the real FlowProposal / AugmentedFlowProposal with a scripted affine flow (NaN / +-inf "
                "log-densities injected) and with real untrained / briefly trained flows, over N, drawsize, latent prior, "
                "constant volume, accumulate_weights (+max_samples), truncate_log_q, six priors (uniform, support with a "
                "corner removed, non-uniform steps, a prior without a bounds check, NaN and +inf regions); "
                "RejectionProposal / AnalyticProposal / Model.new_point on recorded uniform streams; "
                "populate_live_points and ImportanceFlowProposal.draw with trained flows; radial samplers; short real runs "
                "of both samplers and of the augmented proposal with every log_likelihood argument recorded; "
                "non-trivial = some candidate was filtered or rejected before the pool was full; distinct by full case")
    chk.assumptions += [
        "oracles: the flow's samples and log-densities, the rescaling log-Jacobians, model.in_bounds, the user's log_prior / "
        "log_likelihood (pure functions of the point), the uniform draws log(u), np.random.permutation (a permutation), "
        "logsumexp deciding when the accumulate variant attempts acceptance - recorded per run and fed to the model",
        "float subtraction of finite numbers is a parameter of the model; theorems hold for every such function; the executable "
        "instance (exact difference rounded to nearest-even at 53 bits) and the comparisons are validated against numpy each run",
        "C09_radius: scipy gammaincinv / chi.ppf / power are monotone with the stated inverse property (validated numerically)",
        "oracle: the latent draws follow the density whose log-density populate uses as log_q (truncated Gaussian, uniform n-ball / "
        "n-sphere through alt_dist, Gaussian, uniform, the flow's base) - the hypothesis under which C09_rejection_identity gives "
        "'pool = prior restricted to the contour'; validated each run on the real prep_latent_prior / draw_latent_prior in 1, 2, 3, 8 "
        "dimensions by exact binomial bounds on fixed bins (false-alarm probability < 1e-9 per case), not proved",
        "Model.new_point of a user model is assumed to return points of the prior support (analytic proposal); the default "
        "implementation is modelled and checked",
        "NOT proved: 'distributed as the prior restricted to the contour' (statistical; the code normalises by the batch maximum); "
        "C09_rejection_identity is the exact finite identity behind it; the thorough tier's two-sample test is validation only",
    ]
    chk.static_props(["C09"], ["C09_run"])
    sk = translate(chk)
    if sk:
        today(chk, sk)
    job = {"flow": gen_flow(rng, chk.tier), "rej": gen_rej(rng, chk.tier), "radial": gen_radial(rng, chk.tier),
           "prims": [{"pairs": gen_prims(rng, chk.tier)}], "latent": gen_latent(rng, chk.tier)}
    ins_job = {"ins": gen_ins(rng, chk.tier)}     # own process: the importance sampler adds global live-point fields
    if chk.tier != "quick":
        job["stat"] = [{"seed": rng.randrange(1 << 30), "prior": pr, "N": 1500, "acc": a}
                       for pr, a in (("uniform", False), ("steps", False), ("corner", True))]
    real = gen_real(chk, rng, chk.tier)
    os.makedirs(os.path.join(chk.build, "runs"), exist_ok=True)
    with ThreadPoolExecutor(max_workers=2 + len(real)) as ex:
        fut = ex.submit(chk.child, "c09_child.py", (), 1500, None, json.dumps(job))
        futs = [ex.submit(chk.child, "c09_child.py", (), 300 if chk.tier == "quick" else 2400, None,
                          json.dumps({"real": [r]})) for r in real]
        fut_ins = ex.submit(chk.child, "c09_child.py", (), 900, None, json.dumps(ins_job))
        rc, out, err = fut.result()
        rci, outi, erri = fut_ins.result()
        real_res = [f.result() for f in futs]
    if rc != 0 or rci != 0:
        chk.oblige("implementation child ran", "harness", False, (err + erri)[-1500:])
        return
    res = json.loads(out)
    res["ins"] = json.loads(outi)["ins"]
    job["ins"] = ins_job["ins"]
    hdr = (common.COQ_HEADER + "From NessaiV Require Import Model.C09_Pool Run.C09_run.\nLocal Open Scope Z_scope.\n")
    # ---- library model of float subtraction / comparison ------------------------------------------------
    pairs = job["prims"][0]["pairs"]
    pres = res["prims"][0]
    if isinstance(pres, dict):
        chk.oblige("implementation child ran (prims)", "harness", False, json.dumps(pres)[-800:])
        return
    sub_l = [cT(cE(a), cE(b), cE(r[0])) for (a, b), r in zip(pairs, pres)]
    cmp_l = [cT(cE(a), cE(b), cB(r[1]), cB(r[2])) for (a, b), r in zip(pairs, pres)]
    for nm, fn, lits in (("sub", "chk_sub", sub_l), ("cmp", "chk_cmp", cmp_l)):
        bad, e = shard_eval(chk, "prim_" + nm, hdr, fn, lits, size=1500)
        chk.oblige(f"library model vs numpy: float64 {nm} ({len(lits)} pairs incl. NaN, +-inf, -0.0, subnormal, near-cancellation)",
                   "correspondence", bad == [], e or "mismatch: " + "; ".join(lits[i] for i in (bad or [])[:3]))
        chk.oracle_validations += len(lits)
    # ---- flow populations ---------------------------------------------------------------------------------
    plain, accl, drawl, same, margl, augl = [], [], [], [], [], []
    for c, r in zip(job["flow"], res["flow"]):
        chk.evaluations += 1
        if "child_error" in r or "config_error" in r:
            if "config_error" in r:
                chk.count("flow:rejected-configuration")
                continue
            chk.fail("C09:child-error", r.get("trace", "")[-300:], {"kind": "flow", "case": c, "observed": r})
            continue
        strict = False      # today's backward_pass masks z too; strict = True is the refuted pre-fix variant of the model
        for pi, pop in enumerate(r["pops"]):
            chk.count(f"flow:{c['flow']}:{c['cls']}:{'acc' if c['acc'] else 'plain'}")
            chk.count(f"flow:radius-mode:{c.get('radius_mode', 'fixed')}")
            if pop.get("dup"):
                chk.count("flow:skipped-duplicate-candidates")
                continue
            for mi, mr in enumerate(pop.get("marg", [])):
                if mr.get("unrecorded"):
                    chk.count("flow:marginalise:draws-not-recorded")
                    continue
                chk.count(f"flow:marginalise:n_marg={mr['n_marg']}")
                if mr["n_points"] > 1 and mr["n_marg"] > 1 and mr["spread"] > 1e-6:
                    chk.nontriv((c["seed"], "marg"))
                if not mr["same_finite"] or mr["max_err"] > 1e-8 * (1 + mr["scale"]):
                    chk.fail("C09:marginalised-density-not-own-point",
                             f"_marginalise_augment: the value returned for a point differs by {mr['max_err']:.3g} from "
                             f"logsumexp over the {mr['n_marg']} augment draws of THAT point - log n_marg "
                             f"({mr['n_points']} points in the batch; the weights prior / q of populate use it)",
                             {"kind": "flow", "case": c, "population": pi})
                if mi < 4 and all(fin(t) for t in mr["terms"]) and all(fin(o) for o in mr["outs"]):
                    scale = max([1.0] + [abs(float.fromhex(t)) for t in mr["terms"]])
                    margl.append(cT(cN(mr["n_marg"]), cL(map(cE, mr["terms"])), cE(mr["ln_n"]),
                                    cE((scale * 2.0 ** -20).hex()), cL(map(cE, mr["outs"]))))
            if pop.get("augment_dims"):
                chk.count(f"flow:augment_dims={pop['augment_dims']}:{'marginalised' if c.get('marg') else 'product-prior'}")
            if pop.get("prior_err", 0.0) > 1e-9:
                chk.fail("C09:weight-prior-not-the-full-prior",
                         f"the log-prior that enters the rejection weights differs by {pop['prior_err']:.3g} from the model's prior at "
                         f"the point plus log N(e_k) summed over all {pop.get('augment_dims')} augment parameters "
                         f"({c['cls']} proposal)", {"kind": "flow", "case": c, "population": pi})
            for ar in pop.get("aug_prior", []):
                for m_, fs_, top_ in zip(ar["model"], ar["factors"], ar["top"]):
                    vals = [abs(float.fromhex(v)) for v in [m_] + fs_ if fin(v)]
                    augl.append(cT(cE(m_), cL(map(cE, fs_)), cE((max([1.0] + vals) * 2.0 ** -40).hex()), cE(top_)))
            cands = [x for b in pop["batches"] for x in b["cands"]]
            support = {x[0]: (x[3] and fin(x[4])) for x in cands}
            nonfin = any(not fin(x[1]) for x in cands)
            kind = 0
            if "error" in pop:
                kind = 1
                if "IndexError" in pop["error"] and nonfin:
                    chk.fail(NONFINITE_KEY, "FlowProposal.backward_pass raises IndexError when the flow returns a non-finite "
                             "log-probability (x and log_prob are masked with isfinite, z is not): " + pop["error"],
                             {"kind": "flow", "case": c, "population": pi})
                else:
                    chk.fail("C09:populate-raised", "a population raised " + pop["error"],
                             {"kind": "flow", "case": c, "population": pi})
            elif pop.get("empty_pool"):
                chk.count("flow:empty-pool-after-max_samples-break")
                if not (c["acc"] and c["max_samples"] is not None):
                    chk.fail("C09:pool-size", "a population ended with an empty pool", {"kind": "flow", "case": c, "population": pi})
            elif pop.get("cap"):
                kind = 2
                chk.count("flow:still-looping-at-cap")
                # no progress is possible when every candidate that reaches the weights has a NaN log-prior (D9)
                reach = [x for x in cands if fin(x[1]) and x[3]]
                if reach and all(x[4] == "nan" for x in reach) and c["prior"] not in ("nanregion", "pinfregion"):
                    chk.fail("C09:populate-no-progress", f"population cannot finish: the log-prior of every candidate is NaN "
                             f"({c['max_batches']} batches drawn)", {"kind": "flow", "case": c, "population": pi})
            else:
                exact = not (c["acc"] and c["max_samples"] is not None)
                for key, what in check_contour(c, pop):
                    chk.fail(key, what, {"kind": "flow", "case": c, "population": pi})
                for key, what in check_pool(pop, support, c["N"], exact):
                    chk.fail(key, what, {"kind": "flow", "case": c, "population": pi})
                if any(not support[x[0]] or not fin(x[1]) for x in cands):
                    chk.nontriv((c, pi))
            ids = pop.get("pool", [])
            minlq = cOpt(cE(pop["minlq"])) if c["trunc"] else "None"
            bl = cL(map(lit_batch, pop["batches"]))
            if len(bl) > 200000:
                chk.count("flow:literal-too-large-for-the-in-Coq-comparison")      # only capped (still looping) cases get here
                continue
            if c["acc"]:
                maxs = c["max_samples"] if c["max_samples"] is not None else 1000000
                accl.append(cT(cB(strict), minlq, cN(c["N"]), cN(maxs), bl, cL(map(cE, pop["final_us"])), cN(kind),
                               cL(map(cN, ids))))
            else:
                plain.append(cT(cB(strict), minlq, cN(c["N"]), bl, cN(kind), cL(map(cN, ids))))
            if kind == 0 and not pop.get("empty_pool"):
                first_row = pop["draws"][0][0]
                perm = pop["perm_after_first"] + [first_row]
                if all(r_ >= 0 for r_, _ in pop["draws"]):
                    drawl.append(cT(cL(map(cN, perm)), cL(cT(cN(a), cB(b)) for a, b in pop["draws"])))
                lik = [i for call in pop["lik"] for i in call]
                if all(i >= 0 for i in lik) and all(i >= 0 for i in pop["pool_samples"]):
                    same.append(cT(cL(map(cN, pop["pool_samples"])), cL(map(cN, lik))))
    # ---- rejection / analytic / new_point --------------------------------------------------------------------
    rejl, newl = [], []
    for c, r in zip(job["rej"], res["rej"]):
        chk.evaluations += 1
        chk.count("prior-draws:" + c["what"])
        if "child_error" in r or "error" in r:
            chk.fail("C09:populate-raised", f"{c['what']} raised {r.get('error', r.get('trace', ''))[-300:]}",
                     {"kind": "rej", "case": c})
            continue
        cands = [x for b in r["batches"] for x in b]
        support = {x[0]: (x[3] and fin(x[4])) for x in cands}
        pop = dict(r)
        pop["pool_samples"] = r["pool"]
        for key, what in check_pool(pop, support, c["N"], c["what"] != "rejection"):
            chk.fail(key, what, {"kind": "rej", "case": c})
        if any(not s for s in support.values()) or (c["what"] == "rejection" and len(r["pool"]) < c["N"]):
            chk.nontriv(c)
        bl = cL(cL(map(lit_cand, b)) for b in r["batches"])
        if c["what"] == "rejection":
            rejl.append(cT(cN(c["N"]), bl, cL(map(cE, r["us"])), cL(map(cN, r["pool"]))))
        else:
            newl.append(cT(cN(c["N"]), bl, cL(map(cN, r["pool"]))))
        if "draws" in r and all(a >= 0 for a, _ in r["draws"]) and r["draws"]:
            drawl.append(cT(cL(map(cN, r["perm_after_first"] + [r["draws"][0][0]])),
                            cL(cT(cN(a), cB(b)) for a, b in r["draws"])))
        lik = [i for call in r["lik"] for i in call]
        if c["what"] != "newpoint":
            same.append(cT(cL(map(cN, r["pool"])), cL(map(cN, lik))))
    # ---- importance sampler pieces ------------------------------------------------------------------------------
    insl = []
    for c, r in zip(job["ins"], res["ins"]):
        chk.evaluations += 1
        if "child_error" in r:
            chk.fail("C09:child-error", r.get("trace", "")[-300:], {"kind": "ins", "case": c, "observed": r})
            continue
        if "live_error" in r:
            chk.fail("C09:populate-raised", "populate_live_points raised " + r["live_error"], {"kind": "ins", "case": c})
        lv = r["live"]
        cands = [x for b in lv["batches"] for x in b]
        support = {x[0]: (x[3] and fin(x[4])) for x in cands}
        lik = [i for call in lv["lik"] for i in call]
        if any(i < 0 or not support.get(i, False) for i in lik):
            chk.fail("C09:lik-outside-support", "populate_live_points evaluated the likelihood outside the prior support",
                     {"kind": "ins", "case": c})
        if len(lik) != lv["target"]:
            chk.fail("C09:pool-size", f"populate_live_points evaluated {len(lik)} points for a target of {lv['target']}",
                     {"kind": "ins", "case": c})
        newl.append(cT(cN(lv["target"]), cL(cL(map(lit_cand, b)) for b in lv["batches"]), cL(map(cN, lik))))
        if any(not s for s in support.values()):
            chk.nontriv((c, "live"))
        for d in r.get("draws", []):
            chk.count("ins:proposal.draw")
            if "error" in d:
                chk.fail("C09:populate-raised", "ImportanceFlowProposal.draw raised " + d["error"], {"kind": "ins", "case": c})
                continue
            if d.get("cap"):
                chk.fail("C09:populate-no-progress", "ImportanceFlowProposal.draw did not finish", {"kind": "ins", "case": c})
                continue
            if len(d["out"]) != d["n"]:
                chk.fail("C09:pool-size", f"ImportanceFlowProposal.draw returned {len(d['out'])} points for n={d['n']}",
                         {"kind": "ins", "case": c})
            if not all(d["out_inb"]) or any((not fin(a)) or a != b for a, b in zip(d["out_logP"], d["out_logP_model"])):
                chk.fail("C09:pool-out-of-bounds", "ImportanceFlowProposal.draw returned a point outside the prior support "
                         "or with a log-prior different from the model's", {"kind": "ins", "case": c})
            if any(not (x[3] and fin(x[4])) for b in d["batches"] for x in b):
                chk.nontriv((c, d["n"]))
            if all(i >= 0 for i in d["out"]):
                insl.append(cT(cN(d["n"]), cL(cL(map(lit_cand, b)) for b in d["batches"]), cL(map(cN, d["out"]))))
    # ---- draw_from_flows + the likelihood call that follows it in draw_final_samples -------------------------------------
    ffl = []
    for c, r in zip(job["ins"], res["ins"]):
        for d in r.get("from_flows", []) if isinstance(r, dict) else []:
            chk.evaluations += 1
            chk.count(f"ins:draw_from_flows:{c['prior']}:{c['reparam']}")
            rp = {"kind": "ins", "case": c}
            if "error" in d:
                chk.fail("C09:populate-raised", "ImportanceFlowProposal.draw_from_flows raised " + d["error"], rp)
                continue
            if "out" not in d:
                continue
            if d["n_outside_cube"] or any(not (x[3] and fin(x[4])) for x in d["cands"]):
                chk.nontriv((c, "from_flows", d["n"]))
            if not all(d["out_inb"]) or any((not fin(a)) or a != b for a, b in zip(d["out_logP"], d["out_logP_model"])):
                chk.fail("C09:pool-out-of-bounds", "ImportanceFlowProposal.draw_from_flows returned a point outside the prior "
                         f"bounds or with a log-prior different from the model's ({d['n_outside_cube']} candidates of the batch "
                         "were outside the unit hypercube)", rp)
            if d["n_lik_outside"]:
                chk.fail("C09:lik-outside-support", f"after draw_from_flows the likelihood was evaluated on {d['n_lik_outside']} "
                         f"of {d['lik_points']} points outside the prior support, e.g. {d['lik_outside'][:2]}", rp)
            if all(i >= 0 for i in d["out"]):
                ffl.append(cT(cL(map(lit_cand, d["cands"])), cL(map(cN, d["out"]))))
    # ---- oracle validation: latent draws follow the density whose log-density is used as log_q -----------------------------
    for c, r in zip(job.get("latent", []), res.get("latent", [])):
        chk.evaluations += 1
        if r.get("skipped"):
            continue
        if "child_error" in r:
            chk.fail("C09:child-error", r.get("trace", "")[-300:], {"kind": "latent", "case": c})
            continue
        chk.count(f"latent-distribution:{c['latent']}:dims={c['dims']}")
        bad, tests = latent_predicate(c, r)
        chk.oracle_validations += tests
        if not r["shape_ok"]:
            bad.append("wrong shape")
        if bad:
            chk.fail(f"C09:latent-draw-not-from-stated-density:{c['latent']}",
                     f"latent prior {c['latent']} in {c['dims']} dimensions (r = {c['r']}, fuzz = {c['fuzz']}, via {r['how']}): the "
                     "draws do not follow the density whose log-density populate uses as log_q - " + bad[0],
                     {"kind": "latent", "case": c})
    # ---- radial samplers ----------------------------------------------------------------------------------------
    for c, r in zip(job["radial"], res["radial"]):
        chk.evaluations += 1
        chk.count("radial:" + c["what"])
        if "child_error" in r:
            chk.fail("C09:child-error", r.get("trace", "")[-300:], {"kind": "radial", "case": c})
            continue
        lim = c["r"] * (c["fuzz"] if c["what"] != "surface" else 1.0)
        if not r["all_finite"] or r["max_radius"] > lim * (1 + 1e-9):
            chk.fail("C09:radius", f"{c['what']} produced a point at radius {r['max_radius']} > {lim}", {"kind": "radial", "case": c})
        if c["what"] == "surface" and r["min_radius"] < lim * (1 - 1e-9):
            chk.fail("C09:radius", f"surface sampler produced radius {r['min_radius']} != {lim}", {"kind": "radial", "case": c})
        if not (r["oracle_monotone"] and r["oracle_inverse"]):
            chk.oblige("oracle hypothesis: gammaincinv monotone and inverse of gammainc", "oracle", False, json.dumps(c))
        chk.oracle_validations += 2
    # ---- statistical clause: validation only ------------------------------------------------------------------------
    for c, r in zip(job.get("stat", []), res.get("stat", [])):
        chk.oracle_validations += 1
        chk.notes.append({"two_sample_validation_only": {"case": c, "result": r}})
        ps = [v for k, v in r.items() if k.startswith("ks_p_")]
        chk.count("two-sample:p>0.001" if ps and min(ps) > 1e-3 else "two-sample:p<=0.001-or-error")
    # ---- real runs --------------------------------------------------------------------------------------------------
    for c, (rc2, out2, err2) in zip(real, real_res):
        chk.evaluations += 1
        name = f"{c['sampler']}{':' + c['cls'] if c.get('cls') else ''}{':analytic' if c.get('analytic') else ''}"
        if rc2 != 0:
            if rc2 in (124, 137):
                chk.fail("C09:real-run-hang", f"real {name} run did not finish within its time limit (population loop without "
                         "progress?)", {"kind": "real", "case": c})
            else:
                chk.oblige(f"real {name} run completed", "harness", False, err2[-1500:])
            continue
        rr = json.loads(out2)["real"][0]
        if "child_error" in rr:
            chk.oblige(f"real {name} run completed", "harness", False, rr.get("trace", "")[-1500:])
            continue
        chk.traces += 1
        chk.count(f"real:{name}:likelihood-points", rr["lik_points"])
        chk.count(f"real:{name}:populations", rr["n_pools"])
        chk.sample({"real_run": name, "summary": {k: v for k, v in rr.items() if k != "pools"}})
        if rr["n_bad"]:
            chk.fail("C09:real-lik-outside-support", f"real {name} run: {rr['n_bad']} likelihood evaluations outside the prior "
                     f"support, e.g. {rr['bad'][:2]}", {"kind": "real", "case": c})
        if rr["reused"]:
            chk.fail("C09:pool-index-reused", f"real {name} run: {rr['reused']} pool points handed out twice", {"kind": "real", "case": c})
        for pl in rr["pools"]:
            chk.count(f"real:{name}:pool:{pl.get('cls', 'ImportanceFlowProposal.draw')}")
            if c["sampler"] == "ins":
                okp = pl["size"] == pl["requested"]
            elif pl["cls"] in ("FlowProposal", "AugmentedFlowProposal", "AnalyticProposal"):
                okp = pl["size"] == pl["requested"] == pl["indices"]
            else:
                okp = pl["size"] <= pl["requested"] and pl["size"] == pl["indices"]
            if not okp:
                chk.fail("C09:pool-size", f"real {name} run: pool {pl}", {"kind": "real", "case": c})
                break
    # ---- correspondence inside Coq ----------------------------------------------------------------------------------
    groups = [
        ("plain", "chk_plain", plain, "FlowProposal.populate (plain): ids of self.x = model flow_populate on the recorded oracle values, "
                                      "same outcome (pool / IndexError / still looping)"),
        ("acc", "chk_acc", accl, "FlowProposal.populate (accumulate_weights): ids of self.x = model acc_populate"),
        ("marg", "chk_marg", margl, "AugmentedFlowProposal._marginalise_augment: every returned value is enclosed by the maximum "
                                    "of ITS OWN block of recomputed terms (model blocks; logsumexp is an oracle)"),
        ("augprior", "chk_augprior", augl, "AugmentedFlowProposal.log_prior = model full_prior (model prior + log N(e_k) over ALL "
                                           "augment parameters) at the recorded component values"),
        ("rej", "chk_rej", rejl, "RejectionProposal.populate: pool = model new_points ; rej_populate"),
        ("newp", "chk_newp", newl, "Model.new_point / AnalyticProposal.populate / populate_live_points = model new_points"),
        ("insdraw", "chk_insdraw", insl, "ImportanceFlowProposal.draw = model ins_draw"),
        ("fromflows", "chk_fromflows", ffl, "ImportanceFlowProposal.draw_from_flows = model ins_from_flows"),
        ("draws", "chk_draws", drawl, "rows handed out by draw and the populated flag = model draws on the recorded permutation"),
        ("lik", "chk_same", same, "the batch handed to the user's log_likelihood is exactly the pool, in order"),
    ]
    for name, fn, lits, what in groups:
        if not lits:
            chk.notes.append(f"no cases for {name}")
            continue
        bad, e = shard_eval(chk, name, hdr, fn, lits)
        chk.oblige(f"correspondence: {what} ({len(lits)} cases)", "correspondence", bad == [],
                   e or f"{len(bad or [])} mismatching, first literal: " + (lits[bad[0]][:1500] if bad else ""))
        chk.traces += len(lits)
    for i in range(0, len(job["flow"]), max(1, len(job["flow"]) // 4)):
        r = res["flow"][i]
        chk.sample({"case": job["flow"][i], "observed": [{k: v for k, v in p.items() if k in ("pool", "draws", "error", "cap", "lik")}
                                                         for p in r.get("pops", [])]})


def replay(data):
    rp = data["replay"]
    kind = rp.get("kind")
    if kind not in ("flow", "rej", "ins", "radial", "latent"):
        print("replay of a real run: re-run ./check C09")
        return 0
    r = subprocess.run([common.PY, os.path.join(common.VERIF, "harness", "c09_child.py")],
                       input=json.dumps({kind: [rp["case"]]}), capture_output=True, text=True, env=common.child_env(),
                       cwd="/tmp")
    res = json.loads(r.stdout)[kind][0]
    fails = []
    c = rp["case"]
    if kind == "flow":
        for pop in res.get("pops", []):
            cands = [x for b in pop["batches"] for x in b["cands"]]
            support = {x[0]: (x[3] and fin(x[4])) for x in cands}
            if "error" in pop:
                fails.append(("C09:populate-raised", pop["error"]))
            elif not pop.get("cap") and not pop.get("empty_pool"):
                fails += check_contour(c, pop)
                fails += check_pool(pop, support, c["N"], not (c["acc"] and c["max_samples"] is not None))
    elif kind == "rej" and "error" not in res:
        cands = [x for b in res["batches"] for x in b]
        pop = dict(res)
        pop["pool_samples"] = res["pool"]
        fails += check_pool(pop, {x[0]: (x[3] and fin(x[4])) for x in cands}, c["N"], c["what"] != "rejection")
    if kind == "latent" and "stats" in res:
        fails += [("C09:latent-draw-not-from-stated-density", b) for b in latent_predicate(c, res)[0]]
    print(json.dumps({"case": c, "failures": fails, "observed": {k: v for k, v in res.items() if k != "pops"}})[:3000])
    if fails:
        print(f"VIOLATION property={PID} replay=(replayed) {fails[0][1]}")
        return 1
    return 0
