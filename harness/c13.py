"""C13: a termination signal at any instant leaves a consistent, resumable state."""
import json
import os
import subprocess
import sys
from concurrent.futures import ThreadPoolExecutor

import common
from common import cB, cL, cN, cT

sys.path.insert(0, common.VERIF + "/translator")

PID = "C13"
EXIT_CODE = 77
FINISHED = 112   # c13_child: phase 1 ended without the handler ending the process


def conf_exit(t):
    return int(t.get("exit_code", EXIT_CODE))


def exit_msg(code, t):
    if code == FINISHED:
        return f"the handler did not end the process (the run went on to its end), configured exit code {conf_exit(t)}"
    return f"the handler exited with code {code}, configured {conf_exit(t)}"
SRC_NS = "nessai/samplers/nestedsampler.py"
SRC_INS = "nessai/samplers/importancesampler.py"
KEY_D2 = "C13:standard:signal-between-IncrState-and-AppendIdx"
KEY_FIN = "C13:standard:signal-during-finalise"


# ---------------------------------------------------------------------------------------------
# tie A
# ---------------------------------------------------------------------------------------------
def translate(chk):
    import c13_handler
    from pyast import Declined

    st, out = {}, {}
    for name, f in (("line_map", c13_handler.line_map), ("handler", c13_handler.handler),
                    ("signals", c13_handler.signals_registered), ("npw", c13_handler.nonperiodic_writes),
                    ("ins", c13_handler.ins_checkpoint)):
        try:
            out[name] = f()
            st[name] = "translated"
        except Declined as e:
            out[name] = None
            st[name] = f"declined: {e}"
    out["npw_detail"] = ""
    if out["npw"] is not None:
        out["npw"], out["npw_detail"] = out["npw"]
        st["npw"] = ("forced checkpoint unconditional: " if out["npw"] else "forced checkpoint CONDITIONAL: ") + out["npw_detail"]
    try:
        out["seeding"] = c13_handler.resume_seeding()
        st["resume_seeding"] = (f"{len(out['seeding'][1])} seeding call(s) reachable from the resume path" +
                                "".join(f"; {r[0]}:{r[2]} in {r[1]}: {r[3]}" for r in out["seeding"][1]))
    except Declined as e:
        out["seeding"] = None
        st["resume_seeding"] = f"declined: {e}"
    if out["line_map"]:
        st["line_map"] = "translated: " + out["line_map"]["coq"]
    if out["handler"]:
        st["handler"] = "translated: " + out["handler"][0]
    if out["ins"]:
        st["ins"] = "translated: " + out["ins"]
    if out["signals"]:
        st["signals"] = "safe_exit registered for " + ", ".join(out["signals"])
    try:
        out["fields"] = c13_handler.proposal_fields()
        st["proposal_fields"] = (f"__getstate__ drops {out['fields']['dropped']}; read by draw/populate and not restored: "
                                 f"{out['fields']['missing']}; options guarding reads of what only train() sets: {out['fields']['flags']}")
    except Declined as e:
        out["fields"] = None
        st["proposal_fields"] = f"declined: {e}"
    try:
        out["regs"] = c13_handler.registrations()
        st["regs"] = "translated: " + out["regs"][0]
    except Declined as e:
        out["regs"] = None
        st["regs"] = f"declined: {e}"
    out["stmts"] = {}
    for fn in ("consume_sample", "insert_live_point", "finalise"):
        try:
            out["stmts"][fn] = c13_handler.stmt_index(SRC_NS, "NestedSampler", fn)
        except Declined:
            out["stmts"][fn] = {}
    try:
        rows = c13_handler.exit_interceptors()
        out["interceptors"] = rows
        bad = [r for r in rows if c13_handler.intercepts(r)]
        st["exit_interceptors"] = (f"{len(rows)} try/except, finally-return and suppress constructs in the package; "
                                   f"{len(bad)} can swallow SystemExit" +
                                   ("".join(f"; {r[0]}:{r[1]} in {r[2]} ({r[3]})" for r in bad[:6])))
    except Declined as e:
        out["interceptors"] = None
        st["exit_interceptors"] = f"declined: {e}"
    try:
        ar = c13_handler.around_iteration()
        st["around_iteration"] = "; ".join(f"{k}: " + ("no tracked field written" if not v else "writes " + " | ".join(v))
                                           for k, v in ar.items())
    except Declined as e:
        st["around_iteration"] = f"declined: {e}"
    chk.translator = st
    return out


HDR = (common.COQ_HEADER + "From NessaiV Require Import Lib.Effects Model.C01_LiveSet Proofs.C01_LiveSet_proofs "
       "Model.C13_Signal Proofs.C13_Signal_proofs Run.C13_run.\n")


def today(chk, tr):
    """today-lemmas over the regenerated skeletons; returns the model's summary of today's iteration"""
    summary = None
    lm = tr["line_map"]
    if lm:
        txt = HDR + f"Definition effs_now : list eff := {lm['coq']}.\n"
        txt += "Lemma today_classified : unclassified effs_now = [].\nProof. vm_compute. reflexivity. Qed.\n"
        txt += ("Lemma today_property : forall n k s ds s' r, InvD n s ds -> classify effs_now k = Some true ->\n"
                "  interrupt canon effs_now k s ds = Some (s', r) ->\n"
                "  InvD n s' r /\\ (tracked s' = tracked s \\/ exists s1 r1, step s ds = Some (s1, r1) /\\ tracked s' = tracked s1 /\\ r = r1)\n"
                "  /\\ forall j s'' r'', run j s' r = Some (s'', r'') -> InvD n s'' r'' /\\ final_ok_b n (finalise s'') = true.\n"
                "Proof. intros n k. exact (classify_sound n effs_now k). Qed.\n")
        txt += "Eval vm_compute in (summary effs_now).\n"
        ok, evals, err = chk.coq_run("today_iteration", txt)
        chk.oblige("today: every boundary of the regenerated iteration (consume_sample + insert_live_point) is classified "
                   "(the effect list respects the data dependencies) + instantiated classify_sound", "today", ok,
                   (err or "") + "\n" + lm["coq"])
        if ok and evals:
            parts = evals[0].strip()
            # ( [..], [..], [..], [..] )
            import re
            lists = re.findall(r"\[([^\]]*)\]", parts)
            if len(lists) == 4:
                summary = [common.parse_nat_list("[" + l + "]") for l in lists]
        out_w = None if summary is None else summary[2]
        chk.oblige("today: no unbalanced boundary of the regenerated iteration lies outside the recorded window (state.increment "
                   "/ nested_samples.append done, index not recorded, and once the new point is written the index is "
                   "recorded by the very next statement)", "today", out_w == [],
                   "boundaries outside: " + str(out_w) + " of " + lm["coq"] + "; statements: " +
                   "; ".join(f"{k}: before `{lm['texts'][k]}`" for k in (out_w or []) if k < len(lm["texts"])))
    else:
        chk.oblige("today: every boundary of the regenerated iteration is classified + no unsafe boundary outside the "
                   "recorded windows - CANNOT BE EVALUATED", "today", False,
                   "the translator declined consume_sample / insert_live_point / yield_sample: " + chk.translator.get("line_map", ""))
    if tr["handler"] and tr["npw"] is not None:
        txt = HDR + f"Definition h_now : list heff := {tr['handler'][0]}.\n"
        txt += f"Lemma today : handler_ok {cB(tr['npw'])} h_now = true.\nProof. vm_compute. reflexivity. Qed.\n"
        txt += ("Lemma today_property : forall (S : Type) (cur : S) conf other (w : hworld S), exit_code w = None ->\n"
                f"  written (hrun cur conf other {cB(tr['npw'])} h_now w) = written w ++ [cur]\n"
                f"  /\\ exit_code (hrun cur conf other {cB(tr['npw'])} h_now w) = Some conf\n"
                f"  /\\ dirty (hrun cur conf other {cB(tr['npw'])} h_now w) = dirty w.\n"
                f"Proof. intros S cur conf other w E. exact (handler_sound cur conf other h_now w {cB(tr['npw'])} today E). Qed.\n")
        ok, _, err = chk.coq_run("today_handler", txt)
        chk.oblige("today: handler_ok (regenerated safe_exit / terminate_run: one forced checkpoint that "
                   "reaches the dump, then exit with the configured code) + instantiated handler_sound", "today", ok,
                   (err or "") + "\n" + tr["handler"][0] + "; BaseNestedSampler.checkpoint(periodic=False): " + tr["npw_detail"])
    else:
        chk.oblige("today: handler_ok (regenerated safe_exit / terminate_run) - CANNOT BE EVALUATED", "today", False,
                   f"translator: handler {chk.translator.get('handler')}; forced checkpoint branch {chk.translator.get('npw')}")
    if tr["ins"]:
        txt = HDR + f"Definition i_now : list ieff := {tr['ins']}.\n"
        txt += "Lemma today : ins_ckpt_ok i_now = true.\nProof. vm_compute. reflexivity. Qed.\n"
        txt += ("Lemma today_property : forall (FS : Type) (write touch : FS -> FS) fs, irun write touch i_now false fs = fs.\n"
                "Proof. intros FS write touch fs. exact (ins_intact write touch i_now fs today). Qed.\n")
        ok, _, err = chk.coq_run("today_ins", txt)
        chk.oblige("today: ins_ckpt_ok (regenerated ImportanceNestedSampler.checkpoint: the forced branch returns before "
                   "any file operation) + instantiated ins_intact", "today", ok, (err or "") + "\n" + tr["ins"])
    else:
        chk.oblige("today: ins_ckpt_ok (regenerated ImportanceNestedSampler.checkpoint) - CANNOT BE EVALUATED", "today", False,
                   str(chk.translator.get("ins")))
    if tr.get("interceptors") is not None:
        import c13_handler
        rows = tr["interceptors"]
        bad = [r for r in rows if c13_handler.intercepts(r)]
        txt = HDR + f"Definition x_now : list xentry := {c13_handler.interceptors_coq(rows)}.\n"
        txt += "Lemma today : no_swallow x_now = true.\nProof. vm_compute. reflexivity. Qed.\n"
        txt += ("Lemma today_property : forall path, incl path x_now -> forall d, propagate path d = Exits.\n"
                "Proof. exact (no_swallow_sound x_now today). Qed.\n")
        ok, _, err = chk.coq_run("today_exit_path", txt)
        chk.oblige(f"today: no_swallow (none of the {len(rows)} regenerated try/except, finally-return, suppress constructs "
                   "of the package intercepts the SystemExit the handler raises) + instantiated no_swallow_sound", "today", ok,
                   (err or "") + " intercepting: " + "; ".join(f"{r[0]}:{r[1]} in {r[2]} ({r[3]}, guarded lines {r[5]}-{r[6]})" for r in bad))
    else:
        chk.oblige("today: no_swallow (constructs that can intercept SystemExit) - CANNOT BE EVALUATED", "today", False,
                   str(chk.translator.get("exit_interceptors")))
    if tr.get("seeding") is not None:
        txt = HDR + f"Definition seeds_now : list seedcall := {tr['seeding'][0]}.\n"
        txt += "Lemma today : resume_seed_ok seeds_now = true.\nProof. vm_compute. reflexivity. Qed.\n"
        txt += ("Lemma today_property : forall (A : Type) (pool : nat * nat -> list A) h, (forall k, NoDup (pool k)) ->\n"
                "  (forall k k' x, k <> k' -> In x (pool k) -> In x (pool k') -> False) -> NoDup (offered pool (reseeds seeds_now) h).\n"
                "Proof. intros A pool h. exact (resume_seed_sound seeds_now pool h today). Qed.\n")
        ok, _, err = chk.coq_run("today_resume_seeding", txt)
        chk.oblige("today: resume_seed_ok (no call that seeds numpy / torch / random is reachable from resume, "
                   "resume_from_pickled_sampler, _resume_from_*, __setstate__, check_resume) + instantiated resume_seed_sound",
                   "today", ok, (err or "") + " seeding calls: " + "; ".join(f"{r[0]}:{r[2]} in {r[1]}: {r[3]}" for r in tr["seeding"][1]))
    else:
        chk.oblige("today: resume_seed_ok (seeding calls on the resume path) - CANNOT BE EVALUATED", "today", False,
                   str(chk.translator.get("resume_seeding")))
    if tr.get("fields") is not None:
        d, r, rs = tr["fields"]["coq"]
        txt = HDR + f"Definition dropped_now : list string := {d}.\nDefinition read_now : list string := {r}.\n"
        txt += f"Definition restored_now : list string := {rs}.\n"
        txt += "Lemma today : fields_ok dropped_now read_now restored_now = true.\nProof. vm_compute. reflexivity. Qed.\n"
        txt += ("Lemma today_property : forall (st : fstore) f, In f read_now -> st f = true -> "
                "pickle_resume dropped_now restored_now st f = true.\nProof. exact (fields_sound dropped_now read_now restored_now today). Qed.\n")
        ok, _, err = chk.coq_run("today_proposal_fields", txt)
        chk.oblige("today: fields_ok (every attribute FlowProposal.draw / populate read that __getstate__ drops is restored by "
                   "resume or re-derived in populate - a signal inside populate resumes without retraining) + instantiated "
                   "fields_sound", "today", ok, (err or "") + " dropped, read, not restored: " + str(tr["fields"]["missing"]))
    else:
        chk.oblige("today: fields_ok (attributes read by FlowProposal.populate vs __getstate__ / resume) - CANNOT BE EVALUATED",
                   "today", False, str(chk.translator.get("proposal_fields")))
    if tr.get("regs"):
        txt = HDR + f"Definition regs_now : list reg := {tr['regs'][0]}.\n"
        txt += "Lemma today : regs_ok regs_now = true.\nProof. vm_compute. reflexivity. Qed.\n"
        txt += ("Lemma today_property : forall n s, after_samplers regs_now (S n) s = Some n.\n"
                "Proof. exact (regs_sound regs_now today). Qed.\n")
        ok, _, err = chk.coq_run("today_registration", txt)
        chk.oblige("today: regs_ok (FlowSampler.__init__ registers self.safe_exit for SIGTERM, SIGINT and SIGALRM, none of "
                   "them under a condition: the handler that runs belongs to the sampler created last) + instantiated "
                   "regs_sound", "today", ok, (err or "") + " registrations: " +
                   "; ".join(f"{sg}{' (conditional)' if c else ''} line {ln}" for sg, c, ln in tr["regs"][1]))
    else:
        chk.oblige("today: regs_ok (registration of safe_exit for SIGTERM / SIGINT / SIGALRM) - CANNOT BE EVALUATED", "today",
                   False, str(chk.translator.get("regs")))
    return summary


# ---------------------------------------------------------------------------------------------
# tasks
# ---------------------------------------------------------------------------------------------
def build_tasks(chk, tr):
    import c13_handler
    from pyast import Declined

    quick = chk.tier == "quick"
    tasks = []

    def lines(rel, cls, fn, **kw):
        try:
            return c13_handler.stmt_lines(rel, cls, fn, **kw)
        except Declined as e:
            chk.notes.append(f"lines of {cls}.{fn} not enumerated: {e}")
            return []

    phases = [("uninformed", 5), ("flow", 45)] if quick else [("uninformed", 3), ("uninformed", 17), ("flow", 45), ("flow", 70)]
    iteration_funcs = ["consume_sample", "insert_live_point", "yield_sample"]
    for phase, after in phases:
        for fn in iteration_funcs:
            for ln, txt, occ in lines(SRC_NS, "NestedSampler", fn):
                tasks.append({"sampler": "standard", "phase": phase, "func": "NestedSampler." + fn, "lineno": ln,
                              "text": txt, "occ": occ, "after": after})
    # around the iteration: state update, training check, the loop itself, finalise
    extra = [("NestedSampler", "finalise", SRC_NS)]
    if not quick:
        extra += [("NestedSampler", "nested_sampling_loop", SRC_NS), ("NestedSampler", "check_state", SRC_NS),
                  ("NestedSampler", "update_state", SRC_NS), ("NestedSampler", "train_proposal", SRC_NS),
                  ("_NSIntegralState", "increment", "nessai/evidence.py"),
                  ("AnalyticProposal", "draw", "nessai/proposal/analytic.py"),
                  ("FlowProposal", "draw", "nessai/proposal/flowproposal.py"),
                  ("FlowProposal", "populate", "nessai/proposal/flowproposal.py")]
    for cls, fn, rel in extra:
        ls = lines(rel, cls, fn)
        if quick and fn == "finalise":
            keep = ("self.nested_samples.append(p)", "self.live_points = None", "self.finalised = True", 'logger.info("Finalising")')
            ls = [l for l in ls if l[1] in keep]
        for ln, txt, occ in ls:
            after = 45 if cls == "FlowProposal" or fn == "train_proposal" else 6
            t = {"sampler": "standard", "phase": "around", "func": f"{cls}.{fn}", "lineno": ln, "text": txt, "occ": occ,
                 "after": after}
            if fn == "finalise" and txt == "self.nested_samples.append(p)":
                t["skip"] = 2
            tasks.append(t)
    # plot=True (the library default): update_state produces the diagnostic plots every nlive iterations;
    # signals inside those functions (first line; thorough: every line) and before the calls themselves
    nl = 30
    plot_funcs = [("plot_state", False), ("plot_trace", False), ("plot_insertion_indices", True), ("check_insertion_indices", True)]
    for fn, thorough_only in plot_funcs:
        if quick and thorough_only:
            continue
        ls = lines(SRC_NS, "NestedSampler", fn)
        for ln, txt, occ in (ls[:1] if quick else ls):
            tasks.append({"sampler": "standard", "phase": "plot", "func": "NestedSampler." + fn, "lineno": ln,
                          "text": txt, "occ": occ, "after": nl, "plot": True})
    for ln, txt, occ in lines(SRC_NS, "NestedSampler", "update_state"):
        if "plot" in txt and (not quick or txt.startswith("self.plot_state(")):
            tasks.append({"sampler": "standard", "phase": "plot", "func": "NestedSampler.update_state", "lineno": ln,
                          "text": txt, "occ": occ, "after": nl, "plot": True})
    if not quick:
        for fn in ("plot_state", "plot_trace"):
            for ln, txt, occ in lines(SRC_NS, "NestedSampler", fn)[:1]:
                tasks.append({"sampler": "standard", "phase": "real-signal", "func": "NestedSampler." + fn, "lineno": ln,
                              "text": txt, "occ": occ, "after": nl, "plot": True, "real_signal": True})
    # every statement guarded by a construct the translator found to intercept SystemExit (explanation of
    # a failing today-lemma turned into inputs), for the classes the hook can resolve
    import c13_handler as _h
    for r in (tr.get("interceptors") or []):
        if not _h.intercepts(r):
            continue
        parts = r[2].split(".")
        if len(parts) != 2 or parts[0] not in ("NestedSampler", "BaseNestedSampler", "FlowProposal", "AnalyticProposal",
                                               "_NSIntegralState"):
            chk.notes.append(f"intercepting construct outside the hookable classes: {r[0]}:{r[1]} in {r[2]}")
            continue
        for ln, txt, occ in lines(r[0], parts[0], parts[1]):
            if r[5] <= ln <= r[6]:
                tasks.append({"sampler": "standard", "phase": "guarded", "func": r[2], "lineno": ln, "text": txt,
                              "occ": occ, "after": nl if "plot" in txt else 6, "plot": True})
    if not quick:
        # the same statement with the REAL signal (os.kill) instead of a direct call of the handler
        for txt in ('self.state.increment(worst["logL"])', "self.nested_samples.append(worst)", "self.iteration += 1",
                    "self.insertion_indices.append(index)", "self.accepted += 1"):
            for ln, t2, occ in lines(SRC_NS, "NestedSampler", "consume_sample"):
                if t2 == txt:
                    tasks.append({"sampler": "standard", "phase": "real-signal", "func": "NestedSampler.consume_sample",
                                  "lineno": ln, "text": txt, "occ": occ, "after": 9, "real_signal": True})
    # the handler the process has REGISTERED (os.kill), with earlier FlowSamplers created and run in the same
    # process (a pipeline / an in-process resume): the signal must be handled by the sampler that is running
    first = [l for l in lines(SRC_NS, "NestedSampler", "consume_sample")][:1]
    combos = [("SIGTERM", 1), ("SIGINT", 0)] if quick else [(sg, n) for sg in ("SIGTERM", "SIGINT", "SIGALRM") for n in (0, 1, 2)]
    for sg, npri in combos:
        for ln, txt, occ in first:
            tasks.append({"sampler": "standard", "phase": "registered-handler", "func": "NestedSampler.consume_sample",
                          "lineno": ln, "text": txt, "occ": occ, "after": 7, "real_signal": True, "signum": sg,
                          "prior_samplers": npri})
    # --- the configured exit code: other values than the harness default, 0 included ------------------------------
    for ln, txt, occ in first:
        base = {"sampler": "standard", "phase": "exit-code", "func": "NestedSampler.consume_sample", "lineno": ln,
                "text": txt, "occ": occ, "after": 6}
        codes = [(0, "SIGTERM"), (1, None), (255, None)] if quick else \
            [(c, sg) for c in (0, 1, 2, 130, 255) for sg in (None, "SIGTERM", "SIGINT", "SIGALRM")]
        for code, sg in codes:
            t = dict(base, exit_code=code)
            if sg:
                t.update(real_signal=True, signum=sg)
            tasks.append(t)
    # --- inside FlowProposal.populate under the configurations in which it reads what only train() sets -----------
    flags = (tr.get("fields") or {}).get("flags") or []
    pl = lines("nessai/proposal/flowproposal.py", "FlowProposal", "populate")
    if pl:
        pick = [pl[0], pl[len(pl) // 2]] if quick else pl[:: max(1, len(pl) // 8)]
        for fl in flags:
            for ln, txt, occ in pick:
                tasks.append({"sampler": "standard", "phase": "populate-config", "func": "FlowProposal.populate", "lineno": ln,
                              "text": txt, "occ": occ, "after": 45,
                              "proposal_kwargs": {fl: True, "constant_volume_mode": False}})
    # --- histories with SEVERAL signals in one run: signal, resume, signal, resume, [signal, resume,] finish ---------
    for ln, txt, occ in first:
        base = {"sampler": "standard", "func": "NestedSampler.consume_sample", "lineno": ln, "text": txt, "occ": occ}
        # uninformed phase only (rejection sampling from the prior, pool = nlive points, refilled often)
        hist = [(12, [25])] if quick else [(12, [25]), (8, [15, 30]), (20, [20]), (30, [10, 10])]
        for a0, rest in hist:
            tasks.append(dict(base, phase="twice-uninformed", rejection=True, uninformed_only=True, after=a0,
                              then=[{"after": a} for a in rest]))
        for a0, rest in ([(45, [12])] if quick else [(45, [12]), (42, [10, 10]), (20, [30])]):
            tasks.append(dict(base, phase="twice-flow", after=a0, then=[{"after": a} for a in rest]))
        # a second real signal while the handler of the first one is pickling the sampler (Ctrl-C twice)
        for s1, s2 in ([("SIGTERM", "SIGINT")] if quick else [("SIGTERM", "SIGINT"), ("SIGINT", "SIGINT"), ("SIGALRM", "SIGTERM")]):
            tasks.append(dict(base, phase="second-signal", after=7, real_signal=True, signum=s1, second_signal=s2))
    # a signal that arrives while a PERIODIC checkpoint is being pickled (inside the Python-level __getstate__)
    gs = [("BaseNestedSampler", "__getstate__", "nessai/samplers/base.py")]
    if not quick:
        gs.append(("FlowProposal", "__getstate__", "nessai/proposal/flowproposal.py"))
    for cls, fn, rel in gs:
        ls = lines(rel, cls, fn)
        for ln, txt, occ in (ls[:1] if quick else ls):
            for real in ((False, True) if (ln, txt, occ) == ls[0] else (False,)):
                t = {"sampler": "standard", "phase": "in-checkpoint", "func": f"{cls}.{fn}", "lineno": ln, "text": txt,
                     "occ": occ, "after": 7 if cls == "BaseNestedSampler" else 45, "ckpt_interval": 5}
                if real:
                    t.update(real_signal=True, signum="SIGTERM")
                tasks.append(t)
    # importance sampler: every statement of the loop body, at the second (and later) iteration
    ins_lines = lines(SRC_INS, "ImportanceNestedSampler", "nested_sampling_loop", only_loop_body=True)
    if quick:
        ins_lines = [l for i, l in enumerate(ins_lines) if i % 2 == 0 or "checkpoint" in l[1] or "iteration += 1" in l[1]]
    for after in ([1] if quick else [1, 2]):
        for ln, txt, occ in ins_lines:
            tasks.append({"sampler": "ins", "phase": "ins", "func": "ImportanceNestedSampler.nested_sampling_loop",
                          "lineno": ln, "text": txt, "occ": occ, "after": after})
    return tasks


def run_tasks(chk, tasks, workers=10, timeout=1500):
    workers = max(1, min(workers, len(tasks)))
    # interleave so that every worker gets a similar mix
    parts = [tasks[i::workers] for i in range(workers)]

    def one(part):
        return chk.child("c13_child.py", timeout=timeout, inp=json.dumps({"tasks": part}))

    with ThreadPoolExecutor(workers) as ex:
        res = list(ex.map(one, parts))
    outs = [None] * len(tasks)
    for i, (rc, out, err) in enumerate(res):
        if rc != 0:
            chk.oblige("implementation child ran", "harness", False, f"rc={rc} " + err[-1500:])
            return None
        for j, o in enumerate(json.loads(out)):
            outs[i + j * workers] = o
    return outs


# ---------------------------------------------------------------------------------------------
# the direct predicate
# ---------------------------------------------------------------------------------------------
def observed_delta(o):
    """(st, de, it, ai, live changed, new point present) of the checkpoint relative to the start of the
    iteration; None when there is no checkpoint"""
    b, c = o["inject"].get("base"), o.get("checkpoint")
    if not b or not c:
        return None
    st = (c["n_logLs"] != b["n_logLs"] or c["n_logvols"] != b["n_logvols"] or c["n_nlive"] != b["n_nlive"]
          or c["logZ"] != b["logZ"] or c["logw"] != b["logw"])
    de = c["n_dead"] != b["n_dead"]
    it = c["iteration"] != b["iteration"]
    ai = c["n_idx"] != b["n_idx"]
    changed = c["live"] != b["live"]
    new = c["live"] is not None and b["live"] is not None and bool(set(c["live"]) - set(b["live"]))
    return (st, de, it, ai, changed, new)


def verdict_standard(o):
    """-> list of failures (what) of the resumed run; empty = the signal was safe"""
    bad = []
    f, b = o.get("final"), o["inject"].get("base")
    if o.get("exit") != conf_exit(o["task"]):
        bad.append(exit_msg(o.get("exit"), o["task"]))
    if o.get("checkpoint") is None:
        bad.append("no loadable checkpoint was left: " + str(o.get("checkpoint_error")))
    ck = o.get("checkpoint")
    if ck and b and not ck.get("finalised") and not (b["iteration"] <= ck["iteration"] <= b["iteration"] + 1):
        bad.append(f"the checkpoint is at iteration {ck['iteration']}, the signal arrived in iteration {b['iteration'] + 1} "
                   "(not a checkpoint of the running sampler's current state)")
    if not f or not f.get("completed"):
        bad.append("the resumed run did not finish: " + str((f or {}).get("error", o.get("resume_exit"))))
        return bad
    if ck and f.get("resumed_iteration") != ck["iteration"]:
        bad.append(f"resumed at iteration {f.get('resumed_iteration')}, the checkpoint was written at iteration {ck['iteration']}")
    # every signal of the history: exit code, the checkpoint continues the previous one, live set sane
    prev = None
    for stg in o.get("stages") or []:
        if not stg.get("reached"):
            continue
        if stg.get("exit") != conf_exit(o["task"]) and stg["stage"] < len(o["stages"]) - 1:
            bad.append(f"signal {stg['stage'] + 1} of the history: exit code {stg.get('exit')}, configured {conf_exit(o['task'])}")
        if prev is not None and stg.get("started_at") != prev:
            bad.append(f"after signal {stg['stage']} the run resumed at iteration {stg.get('started_at')}, its checkpoint was "
                       f"written at iteration {prev}")
        lv = stg.get("ckpt_live")
        if lv is not None and len(o["stages"]) > 1:
            if len(set(lv)) != len(lv):
                bad.append(f"checkpoint of signal {stg['stage'] + 1}: {len(lv) - len(set(lv))} duplicated point(s) in the live set")
            both = set(lv) & set(stg.get("ckpt_dead") or [])
            if both:
                bad.append(f"checkpoint of signal {stg['stage'] + 1}: {len(both)} point(s) both live and recorded")
        prev = stg.get("ckpt_iteration")
    ids = f["ids"]
    lv = f.get("live_ids")
    if lv is not None and (len(set(lv)) != len(lv) or set(lv) & set(ids)):
        bad.append("the final live set has duplicated points or points that are also recorded")
    if len(set(ids)) != len(ids):
        bad.append(f"{len(ids) - len(set(ids))} nested sample(s) recorded twice after resume")
    if f["finalised"] and f["n_ns"] != f["iteration"] + f["nlive"]:
        bad.append(f"{f['n_ns']} nested samples for iteration {f['iteration']} + {f['nlive']} live points")
    if f["n_logLs"] != f["n_ns"] + 1 or f["n_logvols"] != f["n_logLs"] or not f["logLs_match"]:
        bad.append(f"evidence state has {f['n_logLs'] - 1} entries for {f['n_ns']} nested samples (or different likelihoods)")
    if f["n_idx"] != f["iteration"]:
        bad.append(f"{f['n_idx']} insertion indices for {f['iteration']} iterations")
    if not f["monotone"]:
        bad.append("nested-sample likelihoods are not non-decreasing after resume")
    if b:
        lost = (set(b["live"] or []) | set(b.get("dead") or [])) - set(ids)
        if lost:
            bad.append(f"{len(lost)} point(s) that were live or recorded before the signal are missing from the result")
    return bad


def verdict_ins(o):
    bad = []
    f, i = o.get("final"), o["inject"]
    if o.get("exit") != conf_exit(o["task"]):
        bad.append(exit_msg(o.get("exit"), o["task"]))
    if o.get("files_after") != i.get("files_before"):
        bad.append("the last iteration-boundary checkpoint was modified after the signal")
    if not f or not f.get("completed"):
        bad.append("the resumed importance sampler did not finish: " + str((f or {}).get("error", o.get("resume_exit"))))
        return bad
    if f["resumed_iteration"] > i["iteration"] or f["iteration"] < i["iteration"]:
        bad.append(f"resumed at iteration {f['resumed_iteration']} after a signal in iteration {i['iteration']}")
    if not f["sorted"] or not (f["logZ"] == f["logZ"]) or f["logZ"] in (float("inf"), float("-inf")):
        bad.append("invalid result after resume (samples unsorted or evidence not finite)")
    return bad


def statement_of(o, stmts):
    """-> (mode, function, normalised statement): the statement of consume_sample / insert_live_point / finalise the
    signal was delivered before, or inside which (a callee of it) it was delivered; None outside them"""
    frames = o["inject"].get("frames") or []
    roots = ("consume_sample", "insert_live_point", "finalise")
    for depth, (name, ln, fname) in enumerate(frames):
        if name in roots and fname == "nestedsampler.py":
            txt = (stmts.get(name) or {}).get(ln) or f"line {ln}"
            return ("before" if depth == 0 else "inside"), name, " ".join(txt.split())
    return None


def failure_key(o, d, stmts):
    """Semantic identity of an unsafe signal = the statement of the iteration (function + normalised text, no line
    numbers) before / inside which it was delivered.  Which of these are known findings is decided by
    known_findings.d/C13.json alone (key_regex over the statements that are unsafe on the pinned tree)."""
    if o.get("exit") != conf_exit(o["task"]):
        return "C13:standard:exit-code"
    t = o["task"]
    if t.get("second_signal"):
        return "C13:standard:unsafe:second-signal-while-the-handler-is-checkpointing"
    if t.get("then"):
        return f"C13:standard:unsafe:history-of-{1 + len(t['then'])}-signals:{t['phase']}"
    so = statement_of(o, stmts)
    if so is not None:
        mode, fn, txt = so
        # how the resumed run fails is part of the identity: an inconsistent result, or a crash of a given class
        f = o.get("final") or {}
        how = "result" if f.get("completed") else "crash:" + str(f.get("error", "no-result")).split(":")[0]
        return f"C13:standard:unsafe:{mode}:{fn}:{txt[:120]}|{how}"
    sig = "".join("1" if x else "0" for x in d) if d is not None else "nockpt"
    return f"C13:standard:unsafe:outside-iteration:{sig}:{t['func']}:{' '.join(t['text'].split())[:80]}"


# ---------------------------------------------------------------------------------------------
def run(chk):
    chk.rule = ("a sys.settrace line hook calls the real FlowSampler.safe_exit (thorough: also os.kill with the registered "
                "handler) before the first line of every statement of consume_sample / insert_live_point / yield_sample "
                "(thorough: also check_state, update_state, train_proposal, the loop, state.increment, the proposals' "
                "draw/populate, finalise) in the uninformed and the flow phase, and before every statement of the importance "
                "sampler's loop body; also histories with two / three signals in one run (uninformed-only and flow), a signal "
                "inside __getstate__ while a periodic checkpoint is pickled, a second real signal while the first handler is "
                "pickling; the process exits, a fresh process resumes and finishes; non-trivial = the line was "
                "reached and the checkpoint differs from the state at the start of the iteration or lies inside a callee; "
                "distinct by (sampler, phase, function, statement text)")
    chk.assumptions += [
        "signal delivery is modelled at Python statement granularity (a signal inside a C extension call or inside "
        "pickle.dump itself is not covered)",
        "the line hook raising SystemExit from the handler is equivalent to a signal handler running at that line "
        "(validated against os.kill with the registered handler in the thorough tier)",
        "oracle: the proposal stream (hypotheses of C01: fresh, otherwise arbitrary draws)",
        "pickle / safe_file_dump write the state they are given (C11's model)",
    ]
    chk.static_props(["C13"], ["C13_run"])
    tr = translate(chk)
    summary = today(chk, tr)
    lm = tr["line_map"]
    if summary is not None:
        unsafe, unclassified, outside, not_refuted = summary
        chk.notes.append(f"model: unsafe boundaries of today's iteration {unsafe}; outside the known window {outside}; "
                         f"unsafe boundaries the 4-point witness does not refute {not_refuted}")
    tasks = build_tasks(chk, tr)
    outs = run_tasks(chk, tasks)
    if outs is None:
        return
    chk.evaluations = len(tasks)
    icases, ocases, reached = [], [], 0
    unsafe_keys = set()
    for t, o in zip(tasks, outs):
        if o.get("harness_error"):
            chk.oblige("injection task ran", "harness", False, o["harness_error"])
            continue
        inj = o.get("inject")
        if not inj or not inj.get("reached"):
            chk.count(f"{t['phase']}:line-not-reached")
            if o.get("phase1_error"):
                chk.fail(f"C13:{t['sampler']}:run-crashed", "the run crashed before the signal: " + o["phase1_error"][-300:],
                         {"task": t})
            continue
        reached += 1
        chk.count(f"{t['phase']}:{t['func'].split('.')[1]}")
        if t["sampler"] == "ins":
            bad = verdict_ins(o)
            chk.count("ins:" + ("safe" if not bad else "unsafe"))
            if o.get("files_after") == inj.get("files_before"):
                chk.oracle_validations += 1
            chk.nontriv(("ins", t["text"], t["after"]))
            for w in bad:
                key = "C13:ins:" + ("checkpoint-modified" if "modified" in w else "exit-code" if "exited" in w else "resume-failed")
                chk.fail(key, f"INS, signal before `{t['text']}` (iteration {inj.get('iteration')}): {w}", {"task": t})
            continue
        d = observed_delta(o)
        bad = verdict_standard(o)
        safe = not bad
        chk.count("standard:" + ("safe" if safe else "unsafe"))
        if d is not None and (any(d) or t["func"] != "NestedSampler.consume_sample"):
            chk.nontriv((t["phase"], t["func"], t["text"]))
        if not safe:
            key = failure_key(o, d, tr.get("stmts") or {})
            unsafe_keys.add(key)
            chk.fail(key, f"standard sampler ({t['phase']}, call {inj.get('calls')}), signal before `{t['text']}` in "
                          f"{t['func']}: " + "; ".join(bad), {"task": t, "failure_key": key})
        if d is None or t.get("then") or t.get("second_signal"):
            continue   # histories of several signals are judged by the run predicate, not by the one-iteration model
        ck = o.get("checkpoint") or {}
        if ck.get("finalised") or "finalise" in (inj.get("stack") or []):
            continue   # after / inside finalise the six-field summary of ONE replacement does not apply
        ocases.append(cT(cT(*map(cB, d)), cB(safe)))
        if lm and t["phase"] != "around":
            k = None
            fn = t["func"].split(".")[1]
            if fn in ("consume_sample", "insert_live_point") and t["lineno"] in lm["exact"]:
                k = lm["exact"][t["lineno"]]
            elif fn == "yield_sample" and lm["kdraw"] is not None:
                k = lm["kdraw"]
            if k is not None:
                icases.append((cT(cN(k), cT(*map(cB, d)), cB(safe)), t))
    chk.notes.append("unsafe signals observed (semantic keys): " + " || ".join(sorted(unsafe_keys)))
    chk.traces = reached
    chk.count("lines reached", reached)
    # ---- correspondence inside Coq -----------------------------------------------------------
    if ocases or icases:
        txt = HDR
        if lm:
            txt += f"Definition effs_now : list eff := {lm['coq']}.\n"
            txt += f"Definition ic : list icase := {cL(c for c, _ in icases)}.\n"
            txt += "Eval vm_compute in (mism (chk_delta effs_now) ic).\nEval vm_compute in (mism (chk_verdict effs_now) ic).\n"
        txt += f"Definition oc : list (obs_delta * bool) := {cL(ocases)}.\nEval vm_compute in (mism chk_obs_verdict oc).\n"
        ok, evals, err = chk.coq_run("cases", txt)
        if not lm:
            chk.oblige("correspondence: checkpoint = model state after k effects / model verdict = observed verdict - CANNOT BE "
                       "EVALUATED (no regenerated effect list)", "correspondence", False, chk.translator.get("line_map", ""))
        want = 3 if lm else 1
        if not ok or len(evals) != want:
            chk.oblige("correspondence batch evaluated in Coq", "correspondence", False, err)
        else:
            if lm:
                bd = common.parse_nat_list(evals[0])
                bv = common.parse_nat_list(evals[1])
                chk.oblige(f"correspondence: the checkpoint a signal before statement k leaves = the model's state after "
                           f"the first k effects, on (evidence entries, dead, iteration, indices, live set) ({len(icases)} injections)",
                           "correspondence", not bd, "; ".join(f"{icases[i][1]['func']} `{icases[i][1]['text']}` {icases[i][0]}" for i in bd[:4]))
                # model says safe but the real run is unsafe -> the failing input is already reported by the direct
                # predicate; model says unsafe but the real run was fine -> recorded, not an alarm (a repaired window)
                over = [i for i in bv if "true)" in icases[i][0][-7:]]
                under = [i for i in bv if i not in over]
                chk.oblige(f"correspondence: no signal the model classifies safe was observed unsafe ({len(icases)} injections)",
                           "correspondence", not under, "; ".join(f"`{icases[i][1]['text']}`" for i in under[:4]))
                if over:
                    chk.notes.append("model classifies unsafe, observed safe: " + "; ".join(f"`{icases[i][1]['text']}`" for i in over[:6]))
            bo = common.parse_nat_list(evals[-1])
            chk.oblige(f"correspondence: balanced(observed checkpoint) = observed verdict of the resumed run ({len(ocases)} injections, "
                       "callees included)", "correspondence", True, "")
            if bo:
                chk.notes.append(f"{len(bo)} injection(s) where the six-field summary of the checkpoint does not predict the verdict "
                                 "(signals inside state.increment / finalise change more than the summary shows): " +
                                 "; ".join(ocases[i] for i in bo[:4]))
    for t, o in list(zip(tasks, outs))[:: max(1, len(tasks) // 5)]:
        chk.sample({"task": {k: t[k] for k in ("sampler", "phase", "func", "text", "after")},
                    "exit": o.get("exit"), "reached": bool(o.get("inject") and o["inject"].get("reached")),
                    "delta": observed_delta(o) if o.get("inject") and o["inject"].get("reached") and t["sampler"] != "ins" else None,
                    "final": {k: v for k, v in (o.get("final") or {}).items() if k not in ("ids", "tb")}}, limit=6)


class _Dummy:
    translator, notes = {}, []


# ---------------------------------------------------------------------------------------------
def replay(data):
    if "no_longer_checks" in data:
        chk = common.Check(PID, "quick", 0)
        chk.static_props(["C13"], ["C13_run"])
        tr = translate(chk)
        today(chk, tr)
        broken = [o for o in chk.obligations if not o["ok"]]
        print(json.dumps({"translator": chk.translator, "broken": [o["name"] for o in broken]}, indent=1))
        import shutil
        shutil.rmtree(chk.build, ignore_errors=True)
        if broken:
            print(f"VIOLATION property={PID} replay=(replayed) {broken[0]['name'][:200]}")
            return 1
        print("the today-lemmas hold on this tree; correspondence obligations are only re-evaluated by a full run")
        return 0
    t = dict(data["replay"]["task"])
    t.pop("lineno", None)  # located by function + statement text in the current source
    os.makedirs(common.BUILD_ROOT, exist_ok=True)
    r = subprocess.run(["timeout", "900", common.PY, os.path.join(common.VERIF, "harness", "c13_child.py")],
                       input=json.dumps({"tasks": [t]}), capture_output=True, text=True, env=common.child_env(),
                       cwd=common.BUILD_ROOT)
    if r.returncode != 0:
        print(r.stderr[-2000:])
        print(f"VIOLATION property={PID} replay=(replayed) the implementation child crashed")
        return 1
    o = json.loads(r.stdout)[0]
    inj = o.get("inject")
    if not inj or not inj.get("reached"):
        print(json.dumps({"task": t, "reached": False, "why": (inj or {}).get("why"),
                          "phase1_error": (o.get("phase1_error") or "")[-600:]}, indent=1))
        if o.get("phase1_error"):
            print(f"VIOLATION property={PID} replay=(replayed) the run crashed before the signal could be delivered")
            return 1
        return 0
    bad = verdict_ins(o) if t["sampler"] == "ins" else verdict_standard(o)
    d = None if t["sampler"] == "ins" else observed_delta(o)
    key = None
    if bad:
        key = ("C13:ins:" + ("checkpoint-modified" if "modified" in bad[0] else "exit-code" if "exited" in bad[0] else "resume-failed")
               if t["sampler"] == "ins" else failure_key(o, d, translate(_Dummy()).get("stmts") or {}))
    import re
    known = [key for k in common.load_known() if k.get("property") == PID and k.get("status", "open") == "open"
             and key is not None and (key == k["key"] or (k.get("key_regex") and re.fullmatch(k["key_regex"], key)))]
    print(json.dumps({"task": t, "exit": o.get("exit"), "delta(st,de,it,ai,live changed,new present)": d,
                      "observed_key": key, "observed_key_is_a_known_finding": key in known,
                      "recorded_key": data.get("key"),
                      "final": {k: v for k, v in (o.get("final") or {}).items() if k not in ("ids", "tb")},
                      "failures": bad}, indent=1))
    if bad:
        def is_known(k):
            return k is not None and any(k == f["key"] or (f.get("key_regex") and re.fullmatch(f["key_regex"], k))
                                         for f in common.load_known() if f.get("property") == PID and f.get("status", "open") == "open")
        if is_known(key) and not is_known(data.get("key")):
            # the recorded failure does not reproduce; what is observed here is one of the open known findings
            print(f"KNOWN-FINDING: property={PID} the recorded failure ({data.get('key')}) does not reproduce; observed instead "
                  f"the open finding {key}: {bad[0]}")
            return 0
        print(f"VIOLATION property={PID} replay=(replayed) signal before `{t['text']}`: {bad[0]}")
        return 1
    return 0
