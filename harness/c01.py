"""C01: the live set evolves only by likelihood-constrained replacement."""
import json
import math
import os
import struct
import subprocess
import sys
from concurrent.futures import ThreadPoolExecutor

import common
from common import cB, cL, cN, cOpt, cT, cZ, float_key

sys.path.insert(0, common.VERIF + "/translator")

PID = "C01"
INF = float("inf")


# ---------------------------------------------------------------------------------------------
# tie A
# ---------------------------------------------------------------------------------------------
def translate(chk):
    import c01_effects
    from pyast import Declined

    status, sk = {}, None
    try:
        sk = c01_effects.skeleton()
        status["consume_sample+insert_live_point+yield_sample"] = "translated: " + sk["coq"]
    except Declined as e:
        status["consume_sample+insert_live_point+yield_sample"] = f"declined: {e}"
    for name, f in (("populate_live_points", c01_effects.populate_shape), ("finalise", c01_effects.finalise_shape)):
        try:
            status[name] = "shape recognised: " + f()
        except Declined as e:
            status[name] = f"declined: {e}"
    chk.translator = status
    return sk


def today_text(sk):
    txt = common.COQ_HEADER + "From NessaiV Require Import Lib.Effects Model.C01_LiveSet Proofs.C01_LiveSet_proofs.\n"
    txt += f"Definition sk_now : skeleton := {sk['coq']}.\n"
    txt += "Lemma today : one_replace_per_iteration sk_now = true.\nProof. vm_compute. reflexivity. Qed.\n"
    txt += ("Lemma today_property : forall n s ds, InvD n s ds ->\n"
            "  forall m, run_effs (sk_params sk_now) (sk_effs sk_now) (inject s ds) = Some m ->\n"
            "  exists s' r, step s ds = Some (s', r) /\\ tracked (ms m) = tracked s' /\\ rs m = r /\\ InvD n s' r.\n"
            "Proof. intros n s ds H m Hm. exact (checker_sound sk_now today n s ds H m Hm). Qed.\n")
    return txt


def today(chk, sk):
    if sk is None:
        chk.notes.append("tie A declined: correspondence decides alone")
        return
    ok, _, err = chk.coq_run("today_skeleton", today_text(sk))
    chk.oblige("today: one_replace_per_iteration sk_now = true (regenerated consume_sample / insert_live_point / "
               "yield_sample: strict operators, left searchsorted, every step of one replacement exactly once) "
               "+ instantiated checker_sound", "today", ok,
               (err or "") + "\nskeleton: " + sk["coq"])


# ---------------------------------------------------------------------------------------------
# generators
# ---------------------------------------------------------------------------------------------
def level_value(lv):
    """small alphabet of floats with logL = 0.0 exactly at level 4"""
    return lv * 0.5 - 2.0


def wide_float(rng):
    r = rng.random()
    if r < 0.04:
        return INF
    if r < 0.08:
        return -INF
    if r < 0.12:
        return rng.choice([0.0, -0.0])
    while True:
        (x,) = struct.unpack("<d", struct.pack("<Q", rng.getrandbits(64)))
        if x == x:
            return x


def gen_case(rng, n, mode, iters, malformed=False, short=False):
    """mode 'alpha': levels drifting upwards (ties everywhere); 'wide': arbitrary float64 bit patterns"""
    need = n + iters
    length = (need * (3 if mode == "alpha" else 4)) + rng.randrange(0, 6)
    if short:
        length = max(n, rng.randrange(n, n + max(2, iters)))
    width = rng.choice([2, 3, 4])
    stream = []
    sorted_wide = sorted((wide_float(rng) for _ in range(length)), key=lambda v: (v != v, v)) if mode == "wide" else None
    for i in range(length):
        if mode == "alpha":
            base = (i * 2) // max(3, n)  # slow upward drift so that acceptable draws keep coming
            logL = level_value(base + rng.randrange(-1, width))
            ek = level_value(base + rng.randrange(0, width + 1))
        else:
            j = min(length - 1, max(0, i + rng.randrange(-3 - n, 4 + n)))
            logL = sorted_wide[j]
            ek = wide_float(rng)
            if ek in (INF, -INF):
                ek = 1.5
        r = rng.random()
        logP = "fin"
        if r < 0.10:
            logP = "-inf"
        elif malformed and r < 0.16:
            logP = rng.choice(["inf", "nan"])
        if malformed and rng.random() < 0.08:
            logL = float("nan")
        d = {"id": i, "logL": logL, "logP": logP, "ek": ek, "pop": rng.random() < 0.85,
             "inb": not (malformed and rng.random() < 0.05)}
        stream.append(d)
    resume_at = sorted(rng.sample(range(iters), min(iters, rng.choice([0, 0, 1, 2])))) if iters else []
    return {"kind": "scripted", "n": n, "iters": iters, "stream": stream, "finalise": rng.random() < 0.7,
            "resume_at": resume_at, "mode": mode, "malformed": malformed}


def gen_cases(chk):
    rng = chk.rng
    cases = list(CORPUS)
    quick = chk.tier == "quick"
    ns = [1, 2, 3, 4, 5, 6, 8, 12]
    reps = 9 if quick else 60
    for n in ns:
        for _ in range(reps):
            iters = rng.randrange(0, 3 * n + 4)
            cases.append(gen_case(rng, n, "alpha", iters))
        for _ in range(max(2, reps // 3)):
            cases.append(gen_case(rng, n, "wide", rng.randrange(0, 2 * n + 3)))
        for _ in range(max(2, reps // 3)):
            cases.append(gen_case(rng, n, rng.choice(["alpha", "wide"]), rng.randrange(0, 2 * n + 3), malformed=True))
        for _ in range(2 if quick else 6):
            cases.append(gen_case(rng, n, "alpha", rng.randrange(1, 2 * n + 3), short=True))
    return cases


def D(i, logL, logP="fin", ek=1.0, pop=True):
    return {"id": i, "logL": logL, "logP": logP, "ek": ek, "pop": pop, "inb": True}


# hand-written boundary cases, run first: ties among live points; a draw equal to logLmin
# (rejected); a draw equal to another live key (inserted before it); the pool running empty after
# a rejected draw (yield_sample hands back the old point); logL == 0.0 re-evaluated; n = 1
CORPUS = [
    {"kind": "scripted", "n": 3, "iters": 4, "finalise": True, "resume_at": [2], "mode": "corpus", "malformed": False,
     "stream": [D(0, 1.0), D(1, 1.0), D(2, 0.5), D(3, 0.5), D(4, 1.0), D(5, 0.4, pop=False), D(6, 1.0, pop=False),
                D(7, 2.0), D(8, 0.0, ek=1.0), D(9, 0.0, ek=3.0), D(10, 1.0), D(11, 1.5)]},
    {"kind": "scripted", "n": 1, "iters": 3, "finalise": True, "resume_at": [], "mode": "corpus", "malformed": False,
     "stream": [D(0, -1.0), D(1, -1.0), D(2, -0.5), D(3, -0.5, "-inf"), D(4, 0.0, ek=-0.5), D(5, 0.0, ek=0.0),
                D(6, 0.25), D(7, 7.0)]},
    {"kind": "scripted", "n": 4, "iters": 5, "finalise": True, "resume_at": [0, 4], "mode": "corpus", "malformed": False,
     "stream": [D(0, 2.0), D(1, 2.0), D(2, 2.0), D(3, 2.0), D(4, 2.0), D(5, 2.5), D(6, 2.5), D(7, 2.0, pop=False),
                D(8, 2.5), D(9, 3.0), D(10, 2.5), D(11, 2.75), D(12, 9.0)]},
]


# ---------------------------------------------------------------------------------------------
# running the real code
# ---------------------------------------------------------------------------------------------
def run_impl(chk, cases, timeout=600, shards=8):
    """children in parallel; returns list aligned with cases (None on harness failure)"""
    if not cases:
        return []
    shards = max(1, min(shards, len(cases)))
    parts = [cases[i::shards] for i in range(shards)]

    def one(part):
        return chk.child("c01_child.py", timeout=timeout, inp=json.dumps(part))

    with ThreadPoolExecutor(shards) as ex:
        res = list(ex.map(one, parts))
    outs = [None] * len(cases)
    for i, (rc, out, err) in enumerate(res):
        if rc != 0:
            chk.oblige("implementation child ran", "harness", False, f"rc={rc} " + err[-1500:])
            return None
        for j, o in enumerate(json.loads(out)):
            outs[i + j * shards] = o
    return outs


# ---------------------------------------------------------------------------------------------
# the direct predicate (the property stated on the implementation alone)
# ---------------------------------------------------------------------------------------------
def is_sorted(v):
    return all(not (a != a) and not (b != b) and a <= b for a, b in zip(v, v[1:]))


def direct_predicate(c, o):
    """-> list of (key, what).  Live records are [id, logL, logP, it, y]."""
    bad = []
    n = c["n"]
    valid_prior = not c.get("malformed")
    if o.get("error") and o["error"] != "exhausted":
        bad.append((f"C01:raised:{'init' if o['error_at'] == 'init' else 'finalise' if o['error_at'] == 'finalise' else 'consume_sample'}",
                    f"{o['error']} at {o['error_at']}"))
    ini = o.get("init")
    if ini:
        lv = ini["live"]
        ll = [p[1] for p in lv]
        if len(lv) != n:
            bad.append(("C01:init-size", f"{len(lv)} live points after populate_live_points, nlive = {n}"))
        if not is_sorted(ll):
            bad.append(("C01:init-unsorted", f"initial live points not in ascending logL order: {ll}"))
        if any(not math.isfinite(p[1]) or not math.isfinite(p[2]) for p in lv):
            bad.append(("C01:init-nonfinite", "initial live point with non-finite logL or logP"))
        if len({p[0] for p in lv}) != len(lv):
            bad.append(("C01:init-duplicate", "initial live points are not distinct draws"))
        if any(p[3] != 0 for p in lv):
            bad.append(("C01:init-it", "initial live points must carry it = 0"))
    prev_dead = 0
    for k, s in enumerate(o.get("steps") or []):
        before, after = s["before"], s["live"]
        it = s["iteration"]
        where = f"iteration {it}"
        if len(after) != n:
            bad.append(("C01:size", f"{where}: {len(after)} live points, nlive = {n}"))
            continue
        if not is_sorted([p[1] for p in after]):
            bad.append(("C01:unsorted", f"{where}: live points not sorted: {[p[1] for p in after]}"))
        if len(s["dead_ids"]) != prev_dead + 1 or len(s["idxs"]) != prev_dead + 1:
            bad.append(("C01:counts", f"{where}: {len(s['dead_ids'])} recorded dead points, {len(s['idxs'])} indices "
                        f"after {prev_dead + 1} replacements"))
            prev_dead = len(s["dead_ids"])
            continue
        prev_dead += 1
        if it != prev_dead or s["n_logLs"] != it + 1:
            bad.append(("C01:counts", f"{where}: iteration {it}, {prev_dead} dead, {s['n_logLs']} evidence entries"))
        worst = before[0]
        if s["dead_ids"][-1] != worst[0] or not (s["dead_logL"][-1] == worst[1]):
            bad.append(("C01:removed-not-min", f"{where}: recorded {s['dead_ids'][-1]} (logL {s['dead_logL'][-1]}), "
                        f"the minimum was {worst[0]} (logL {worst[1]})"))
        idx = s["idxs"][-1]
        if not (0 <= idx < n):
            bad.append(("C01:index-range", f"{where}: insertion index {idx} outside 0..{n - 1}"))
            continue
        new = after[idx]
        others = after[:idx] + after[idx + 1:]
        if others != before[1:]:
            bad.append(("C01:others-changed", f"{where}: live points other than the replaced one changed: "
                        f"before[1:] = {[p[0] for p in before[1:]]}, after without index {idx} = {[p[0] for p in others]}"))
        if new[0] in {p[0] for p in before} or new[0] in set(s["dead_ids"]):
            bad.append(("C01:index-not-position", f"{where}: position {idx} does not hold a new point (id {new[0]})"))
        if not (new[1] > worst[1]):
            bad.append(("C01:not-strictly-greater", f"{where}: replacement logL {new[1]} not > removed {worst[1]}"))
        rank = sum(1 for p in before[1:] if p[1] < new[1])
        if idx != rank:
            bad.append(("C01:index-not-rank", f"{where}: index {idx} but {rank} other live points lie strictly below"))
        if new[3] != it:
            bad.append(("C01:it-field", f"{where}: replacement carries it = {new[3]}"))
        if new[2] == -INF or (valid_prior and not math.isfinite(new[2])):
            bad.append(("C01:prior-not-finite", f"{where}: replacement has logP = {new[2]}"))
        if valid_prior and not (0.0 <= new[4] <= 1.0):
            bad.append(("C01:out-of-bounds", f"{where}: replacement outside the prior bounds"))
        if not is_sorted(s["dead_logL"]):
            bad.append(("C01:dead-not-monotone", f"{where}: discarded likelihoods decrease: {s['dead_logL']}"))
        if len(set(s["dead_ids"])) != len(s["dead_ids"]):
            bad.append(("C01:dead-duplicate", f"{where}: a discarded point is recorded twice: {s['dead_ids']}"))
        if s["logLs"][1:] != s["dead_logL"] and is_sorted(s["dead_logL"]):
            bad.append(("C01:counts", f"{where}: evidence-state likelihoods differ from the recorded dead points"))
        for y in s["yields"]:
            p = y["p"]
            if p is None:
                continue
            if y["populated"] and not y["old"] and not (p[1] > y["logLmin"] and p[2] != -INF):
                bad.append(("C01:yield-filter", f"{where}: yield_sample handed back logL {p[1]} logP {p[2]} "
                            f"with logLmin {y['logLmin']} while the pool was populated"))
            if not y["old"] and not (p[1] > y["logLmin"]) and p[0] == new[0]:
                bad.append(("C01:yield-filter", f"{where}: accepted point does not pass the strict filter"))
    fin = o.get("final")
    if fin:
        lb = fin["live_before"]
        if fin["live"] is not None:
            bad.append(("C01:finalise", "live points still present after finalise"))
        tail = fin["dead_ids"][-len(lb):] if lb else []
        if tail != [p[0] for p in lb] or len(fin["dead_ids"]) != fin["iteration"] + n:
            bad.append(("C01:finalise", f"nested samples after finalise are not dead ++ live: {fin['dead_ids']}"))
        if not is_sorted(fin["dead_logL"]):
            bad.append(("C01:finalise", f"final nested samples not non-decreasing: {fin['dead_logL']}"))
        if fin["nls"][-n:] != list(range(n, 0, -1)) or fin["n_logLs"] != fin["iteration"] + n + 1:
            bad.append(("C01:finalise", f"evidence state after finalise: nlive list {fin['nls']}, {fin['n_logLs']} entries"))
        if len(set(fin["dead_ids"])) != len(fin["dead_ids"]):
            bad.append(("C01:dead-duplicate", "a point is recorded twice after finalise"))
    return bad


def direct_real(c, o):
    bad = []
    if o.get("error"):
        return [("C01:raised:real-run", o["error"] + " " + o.get("tb", "")[-300:])]
    n = c["nlive"]
    for b in o.get("bad_checkpoints", []):
        bad.append(("C01:checkpoint-torn", f"real run ({c['proposal']}): the checkpoint written at iteration {b['iteration']} does not satisfy "
                    f"the live-set invariant: {b['problems']}"))
    if c["kind"] == "resumed" and len(o.get("resumed_at", [])) != len(c["resume_after"]):
        bad.append(("C01:resume-did-not-happen", f"resumed at {o.get('resumed_at')} for the requested stops {c['resume_after']}"))
    for e in o["events"]:
        if e["kind"] == "init":
            ll = [p[1] for p in e["live"]]
            if len(ll) != n or not is_sorted(ll):
                bad.append(("C01:init-unsorted", f"real run: initial live set size {len(ll)} sorted {is_sorted(ll)}"))
            continue
        for name, key in (("sorted", "C01:unsorted"), ("others_kept", "C01:others-changed"),
                          ("worst_was_min", "C01:removed-not-min"), ("it_ok", "C01:it-field"),
                          ("new_finP", "C01:prior-not-finite"), ("new_inb", "C01:out-of-bounds"),
                          ("live_inb", "C01:out-of-bounds"), ("new_logL_ok", "C01:stored-logL-not-models")):
            if not e.get(name, True):
                bad.append((key, f"real run ({c['proposal']}): {name} false at stream position {e['pos']}"))
        if e["size"] != n:
            bad.append(("C01:size", f"real run: live set size {e['size']}"))
        if e.get("nlive_attr", n) != n:
            bad.append(("C01:nlive-changed", f"real run: the sampler's nlive is {e['nlive_attr']} at iteration {e['pos']} for a run started with "
                        f"nlive={n} ({e['size']} live points)"))
        if not (e["new_logL"] > e["worst_logL"]):
            bad.append(("C01:not-strictly-greater", f"real run: {e['new_logL']} not > {e['worst_logL']}"))
        if e["rank"] != e["idx"]:
            bad.append(("C01:index-not-rank", f"real run: index {e['idx']} rank {e['rank']}"))
    f = o["final"]
    if not is_sorted(f["dead_logL"]):
        bad.append(("C01:dead-not-monotone", "real run: nested samples not non-decreasing"))
    if len(set(f["dead"])) != len(f["dead"]):
        bad.append(("C01:dead-duplicate", "real run: a point recorded twice"))
    if len(f["idxs"]) != f["iteration"] or len(f["dead"]) != f["iteration"] + (n if f["finalised"] else 0):
        bad.append(("C01:counts", f"real run: {len(f['dead'])} nested samples, {len(f['idxs'])} indices, iteration {f['iteration']}"))
    return bad


# ---------------------------------------------------------------------------------------------
# Coq literals
# ---------------------------------------------------------------------------------------------
def fkey(x):
    return 0 if x != x else float_key(x)


def c_draw(d):
    nan = d["logL"] != d["logL"]
    okp = d["logP"] != "-inf"
    finp = d["logP"] == "fin"
    return (f"Dr {cZ(d['id'])} {cZ(fkey(d['logL']))} {cB(okp)} {cB(finp)} {cB(nan)} {cB(d.get('inb', True))} "
            f"{cZ(fkey(d['ek']))} {cB(d['pop'])}")


def c_lp(p):
    return cT(cZ(int(p[0])), cZ(float_key(p[1])), cN(p[3]))


def c_scase(c, o):
    """None when the observation cannot be expressed (NaN in the live set, foreign error)"""
    try:
        if o.get("error") and o["error"] != "exhausted":
            return None
        ini = o.get("init")
        oi = None
        if ini:
            oi = cT(cL(map(c_lp, ini["live"])), cN(ini["evals"]), cN(ini["pos"]))
        steps = []
        for s in o.get("steps") or []:
            idx = s["idxs"][-1]
            steps.append(cT(cZ(int(s["dead_ids"][-1])), cZ(int(s["live"][idx][0])), cN(idx),
                            cL(map(c_lp, s["live"])), cN(s["rejected"]), cN(s["evals"]),
                            cL(cZ(int(v)) for v in s["dead_ids"])))
        fin = o.get("final")
        of = None
        if fin:
            of = cT(cL(cZ(int(v)) for v in fin["dead_ids"]), cL(cZ(float_key(v)) for v in fin["logLs"]),
                    cL(map(cN, fin["nls"])))
        exhausted = o.get("error") == "exhausted" and o["error_at"] != "init"
        return cT(cN(c["n"]), cL(map(c_draw, c["stream"])), cOpt(oi), cL(steps), cB(exhausted), cOpt(of))
    except (ValueError, IndexError, TypeError, AssertionError, KeyError):
        return None


def c_rcase(c, o):
    st = o["stream"]
    draws = [(f"Dr {cZ(d['id'])} {cZ(fkey(d['logL']))} {cB(d['okP'])} {cB(d['finP'])} {cB(d['logL'] != d['logL'])} "
              f"{cB(d['inb'])} {cZ(fkey(d['ek']) if d['ek'] is not None else 0)} {cB(d['pop'])}") for d in st]
    ini = [e for e in o["events"] if e["kind"] == "init"][0]
    lp3 = lambda p: cT(cZ(p[0]), cZ(float_key(p[1])), cN(p[2]))  # noqa
    evs = []
    for e in o["events"]:
        if e["kind"] != "step":
            continue
        evs.append(cT(cN(e["pos"]), cZ(e["removed"]), cN(e["idx"]), cZ(e["new"]),
                      cOpt(cL(map(lp3, e["live"])) if "live" in e else None)))
    f = o["final"]
    return cT(cN(c["nlive"]), cL(draws), cL(map(lp3, ini["live"])), cN(ini["pos"]), cL(evs), cB(f["finalised"]),
              cL(cZ(v) for v in f["dead"]), cL(map(cN, f["idxs"])), cL(cZ(float_key(v)) for v in f["logLs"]),
              cL(map(cN, f["nls"])))


HDR = common.COQ_HEADER + "From NessaiV Require Import Lib.Effects Model.C01_LiveSet Run.C01_run.\n"


def coq_shards(chk, name, defname, typ, fn, lits, max_bytes=350_000, extra=None):
    """Evaluate `mism fn lits` in shards (parallel coqc); returns (ok, bad indices, err)."""
    shards, cur, size, start = [], [], 0, 0
    for i, l in enumerate(lits):
        if cur and size + len(l) > max_bytes:
            shards.append((start, cur))
            cur, size, start = [], 0, i
        cur.append(l)
        size += len(l)
    if cur:
        shards.append((start, cur))

    def one(arg):
        k, (st, part) = arg
        txt = HDR + f"Definition {defname} : list {typ} := {cL(part)}.\nEval vm_compute in (mism {fn} {defname}).\n"
        if extra:
            txt += f"Eval vm_compute in (mism {extra} {defname}).\n"
        ok, evals, err = chk.coq_run(f"{name}_{k}", txt, timeout=900)
        return st, ok, evals, err

    bad, bad2, allok, errs = [], [], True, ""
    with ThreadPoolExecutor(8) as ex:
        for st, ok, evals, err in ex.map(one, enumerate(shards)):
            want = 2 if extra else 1
            if not ok or len(evals) != want:
                allok = False
                errs += err[-800:]
                continue
            bad += [st + i for i in common.parse_nat_list(evals[0])]
            if extra:
                bad2 += [st + i for i in common.parse_nat_list(evals[1])]
    return allok, bad, bad2, errs


# ---------------------------------------------------------------------------------------------
def features(chk, c, o):
    """measured input distribution + non-triviality"""
    nt = False
    chk.count(f"n={c['n']}")
    chk.count("mode:" + c.get("mode", "?") + (":malformed" if c.get("malformed") else ""))
    if o.get("error") == "exhausted":
        chk.count("stream-exhausted")
    if c.get("resume_at"):
        chk.count("with-pickle-resume")
    for s in o.get("steps") or []:
        chk.count("iterations")
        b = s["before"]
        if len({p[1] for p in b}) < len(b):
            chk.count("step:ties-among-live")
            nt = True
        idx = s["idxs"][-1] if s["idxs"] else 0
        if 0 <= idx < len(s["live"]) and any(p[1] == s["live"][idx][1] for j, p in enumerate(s["live"]) if j != idx):
            chk.count("step:new-equals-a-live-key")
            nt = True
        if any(y["old"] for y in s["yields"]):
            chk.count("step:pool-empty-old-point-returned")
            nt = True
        if sum(y["counter"] for y in s["yields"]) > 1:
            chk.count("step:rejected-draws-before-acceptance")
            nt = True
    st = c["stream"]
    if any(d["logL"] == 0.0 for d in st):
        chk.count("case:has-logL==0.0-draw")
    if any(d["logL"] != d["logL"] for d in st):
        chk.count("case:has-NaN-draw")
    if any(d["logP"] == "-inf" for d in st):
        chk.count("case:has-logP=-inf-draw")
    if nt:
        chk.nontriv((c["n"], c["iters"], [(d["logL"] if d["logL"] == d["logL"] else "nan", d["logP"], d["pop"]) for d in st]))


def real_cases(chk):
    if chk.tier == "quick":
        return [
            {"kind": "real", "proposal": "analytic", "nlive": 40, "seed": 11 + chk.seed, "stopping": 2.0, "full_every": 20},
            {"kind": "real", "proposal": "flow", "nlive": 40, "seed": 12 + chk.seed, "stopping": 2.0, "max_epochs": 10,
             "maximum_uninformed": 40, "full_every": 20},
            # reparameterisation given for the LAST parameter only: the proposal's internal parameter order differs
            # from model.names, on a model whose parameters have disjoint ranges
            {"kind": "real", "proposal": "flow", "nlive": 40, "seed": 13 + chk.seed, "stopping": 2.0, "max_epochs": 10,
             "maximum_uninformed": 40, "full_every": 20, "variant": "asym", "reparameterisations": {"x1": "default"},
             "max_iteration": 160},
            # a prior that is finite outside the bounds and posterior mass at a corner of the box
            {"kind": "real", "proposal": "flow", "nlive": 40, "seed": 14 + chk.seed, "stopping": 2.0, "max_epochs": 10,
             "maximum_uninformed": 40, "full_every": 20, "variant": "flat-corner", "max_iteration": 200},
            # the default uninformed proposal on a prior that is NaN outside its support, drawn from a wider box
            {"kind": "real", "proposal": "rejection", "nlive": 40, "seed": 15 + chk.seed, "stopping": 2.0, "full_every": 20,
             "variant": "nan-wide", "max_iteration": 150},
            # checkpoint -> death -> FlowSampler(resume=True), twice, across the switch to the flow proposal
            {"kind": "resumed", "proposal": "flow", "nlive": 40, "seed": 16 + chk.seed, "stopping": 2.0, "max_epochs": 10,
             "maximum_uninformed": 40, "resume_after": [30, 90], "max_iteration": 160, "checkpoint_interval": 1},
        ]
    out = []
    for i, (prop, nl) in enumerate([("analytic", 10), ("analytic", 100), ("rejection", 50), ("flow", 50), ("flow", 100),
                                    ("flow", 200), ("analytic", 500), ("rejection", 20)]):
        out.append({"kind": "real", "proposal": prop, "nlive": nl, "seed": 100 + i + chk.seed,
                    "stopping": 0.5 if nl <= 100 else 1.0, "max_epochs": 20, "maximum_uninformed": nl,
                    # the number of rejected draws per iteration grows like 1/X: cap the large runs
                    "max_iteration": None if nl <= 100 else 3 * nl,
                    "full_every": 50 if nl <= 100 else 150, "dims": 2 if i % 2 == 0 else 3})
    out.append({"kind": "real", "proposal": "flow", "nlive": 60, "seed": 200 + chk.seed, "stopping": 1.0, "max_epochs": 20,
                "maximum_uninformed": 60, "full_every": 50, "variant": "asym", "dims": 3,
                "reparameterisations": {"x2": "default", "x0": "default"}, "max_iteration": 400})
    out.append({"kind": "real", "proposal": "flow", "nlive": 60, "seed": 201 + chk.seed, "stopping": 1.0, "max_epochs": 20,
                "maximum_uninformed": 60, "full_every": 50, "variant": "flat-corner", "max_iteration": 400})
    for j, nl in enumerate((30, 80)):
        out.append({"kind": "real", "proposal": "rejection", "nlive": nl, "seed": 210 + j + chk.seed, "stopping": 1.0,
                    "full_every": 50, "variant": "nan-wide", "max_iteration": 300, "dims": 2 + j})
    out.append({"kind": "resumed", "proposal": "rejection", "nlive": 30, "seed": 220 + chk.seed, "stopping": 1.0,
                "resume_after": [10, 11, 60], "checkpoint_interval": 1})
    out.append({"kind": "resumed", "proposal": "flow", "nlive": 60, "seed": 221 + chk.seed, "stopping": 1.0, "max_epochs": 20,
                "maximum_uninformed": 60, "resume_after": [50, 130, 250], "max_iteration": 400, "variant": "asym", "dims": 3,
                "reparameterisations": {"x2": "default", "x0": "default"}})
    out.append({"kind": "resumed", "proposal": "flow", "nlive": 50, "seed": 222 + chk.seed, "stopping": 1.0, "max_epochs": 20,
                "maximum_uninformed": 50, "resume_after": [75, 76], "checkpoint_interval": 1, "max_iteration": 300,
                "variant": "flat-corner"})
    return out


def run(chk):
    chk.rule = ("scripted proposal streams replayed through the real NestedSampler.populate_live_points / consume_sample / "
                "finalise for nlive in {1,2,3,4,5,6,8,12}: logL from a drifting 3-5 level alphabet containing 0.0 exactly "
                "(ties everywhere) or from arbitrary float64 bit patterns incl. +-inf, logP in {finite,-inf} (malformed "
                "stream: also +inf, NaN logP, NaN logL, out-of-bounds), proposal.populated scripted (pool runs empty), "
                "pickle/resume at random iterations, streams that run out; plus traced real runs (analytic / rejection "
                "/ flow proposals) replayed in Coq; non-trivial = some iteration has ties among the live keys, a new "
                "key equal to a live key, rejected draws before the acceptance, or the old point handed back; "
                "distinct by (nlive, iterations, stream of (logL, logP, populated))")
    chk.assumptions += [
        "oracle: the proposal stream is an arbitrary list of points (theorems hold for every stream); that pool points "
        "have finite prior and lie inside the bounds is C09's theorem and enters here as a hypothesis on the stream",
        "oracle: point identities in a stream are pairwise distinct (fresh draws) - hypothesis NoDup of InvD",
        "numpy models: np.searchsorted on a sorted array = number of strictly smaller elements; overlapping slice "
        "assignment copies; np.sort(order='logL') = sort by (logL, first field) - validated by the correspondence each run",
        "float64 order enters through common.float_key (strictly monotone, -0.0 = +0.0); NaN is a flag",
    ]
    chk.static_props(["C01"], ["C01_run"])
    sk = translate(chk)
    today(chk, sk)

    cases = gen_cases(chk)
    outs = run_impl(chk, cases)
    rcases = real_cases(chk)
    routs = run_impl(chk, rcases, timeout=1500, shards=len(rcases)) if outs is not None else None
    if outs is None or routs is None:
        return
    chk.evaluations = len(cases) + len(rcases)
    # ---- direct predicate on every case ------------------------------------------------------
    for c, o in zip(cases, outs):
        features(chk, c, o)
        for key, what in direct_predicate(c, o):
            chk.fail(key, what, {"case": c, "failure_key": key})
    for c, o in zip(rcases, routs):
        chk.count(f"real-run:{c['proposal']}:nlive={c['nlive']}")
        if not o.get("error"):
            chk.count("real-run iterations", o["final"]["iteration"])
            chk.count("real-run proposal draws", len(o["stream"]))
            chk.nontriv(("real", c["proposal"], c["nlive"], c["seed"]))
            if c["kind"] == "resumed":
                chk.count("real-run resumes", len(o.get("resumed_at", [])))
                chk.count("real-run checkpoints inspected", o.get("checkpoints", 0))
        for key, what in direct_real(c, o):
            chk.fail(key, what, {"case": c, "failure_key": key})
    # ---- correspondence inside Coq -----------------------------------------------------------
    lits, idx = [], []
    for i, (c, o) in enumerate(zip(cases, outs)):
        l = c_scase(c, o)
        if l is None:
            chk.count("not-expressible-in-the-model (raised / NaN in live set)")
            continue
        lits.append(l)
        idx.append(i)
    ok, bad, badinv, err = coq_shards(chk, "cases", "cs", "scase", "chk_scripted", lits, extra="chk_inv")
    if not ok:
        chk.oblige("correspondence batch evaluated in Coq", "correspondence", False, err)
    else:
        detail = ""
        for b in bad[:3]:
            c = cases[idx[b]]
            detail += f"case {idx[b]} (n={c['n']}, iters={c['iters']}, mode={c['mode']}): model and implementation differ; "
        chk.oblige(f"correspondence: real NestedSampler (populate_live_points, consume_sample per iteration: removed id, "
                   f"accepted id, returned index, live (id, key, it) after, rejected, evaluations, dead ids; finalise) = "
                   f"model init/step/finalise ({len(lits)} scripted cases)", "correspondence", not bad, detail)
        chk.oblige(f"model invariant inv_b holds along the model run of every scripted case ({len(lits)} cases)",
                   "correspondence", not badinv, f"cases {badinv[:5]}")
        chk.traces += len(lits)
        # a disagreement with no failing direct predicate: keep the smallest disagreeing case as a corpus candidate
        if bad and not chk.failures:
            b = min(bad, key=lambda j: len(lits[j]))
            chk.notes.append("smallest disagreeing case: " + json.dumps(cases[idx[b]])[:3000])
    rl = [(c, o) for c, o in zip(rcases, routs) if not o.get("error") and not o.get("no_model")]
    if rl:
        lits_r = []
        for c, o in list(rl):
            try:
                lits_r.append(c_rcase(c, o))
            except (ValueError, IndexError, TypeError, AssertionError, KeyError):
                rl.remove((c, o))
                chk.count("real run not expressible in the model")
        ok, bad, _, err = coq_shards(chk, "real", "rc", "rcase", "chk_real", lits_r, max_bytes=600_000)
        if not ok:
            chk.oblige("real-run traces evaluated in Coq", "correspondence", False, err)
        else:
            chk.oblige(f"trace refinement: {len(rl)} real runs (every proposal draw, every consume_sample: removed, index, new, "
                       "stream position, sampled live sets, final dead/indices/logLs/nlive) replayed by the model, "
                       "inv_b at every iteration", "correspondence", not bad,
                       "; ".join(f"{rl[b][0]['proposal']} nlive={rl[b][0]['nlive']} seed={rl[b][0]['seed']}" for b in bad))
            chk.traces += len(rl)
            chk.oracle_validations += sum(len(o["stream"]) for _, o in rl)
    for c, o in list(zip(cases, outs))[:: max(1, len(cases) // 4)]:
        st = (o.get("steps") or [None])[-1]
        chk.sample({"n": c["n"], "iters": c["iters"], "mode": c["mode"],
                    "stream_head": [(d["logL"], d["logP"], d["pop"]) for d in c["stream"][:8]],
                    "last_step": None if st is None else {"idxs": st["idxs"], "dead_logL": st["dead_logL"],
                                                          "live_logL": [p[1] for p in st["live"]]}}, limit=5)


# ---------------------------------------------------------------------------------------------
def replay(data):
    if "no_longer_checks" in data:
        # an obligation broke without a failing input: re-run the translator and the today lemma
        chk = common.Check(PID, "quick", 0)
        chk.static_props(["C01"], ["C01_run"])
        sk = translate(chk)
        today(chk, sk)
        broken = [o for o in chk.obligations if not o["ok"]]
        print(json.dumps({"translator": chk.translator, "broken": [o["name"] for o in broken]}, indent=1))
        import shutil
        shutil.rmtree(chk.build, ignore_errors=True)
        if broken:
            print(f"VIOLATION property={PID} replay=(replayed) {broken[0]['name'][:200]}")
            return 1
        return 0
    c = data["replay"]["case"]
    want = data["replay"].get("failure_key")
    r = subprocess.run(["timeout", "1500", common.PY, os.path.join(common.VERIF, "harness", "c01_child.py")],
                       input=json.dumps([c]), capture_output=True, text=True, env=common.child_env(),
                       cwd=common.BUILD_ROOT if os.path.isdir(common.BUILD_ROOT) else None)
    if r.returncode != 0:
        print(r.stderr[-2000:])
        print(f"VIOLATION property={PID} replay=(replayed) the implementation child crashed")
        return 1
    o = json.loads(r.stdout)[0]
    bad = direct_predicate(c, o) if c["kind"] == "scripted" else direct_real(c, o)
    print(json.dumps({"expected_failure": want, "failures": bad[:10]}, indent=1))
    if bad:
        print(f"VIOLATION property={PID} replay=(replayed) {bad[0][1]}")
        return 1
    return 0
