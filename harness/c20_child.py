"""C20 child: runs the real nessai code.  JSON on stdin, JSON on stdout.

modes (argv[1]):
  validators   real check_configuration / configure_stopping_criterion / get_flow_proposal_class /
               check_proposal_kwargs / update_training_config on generated inputs
  sigs         inspect.signature of the callees the call-table translator resolved
  runs         covering-array server: imports nessai once, then forks one worker per job (at most
               `parallel` at a time); every worker has a wall-clock cap (faulthandler dumps the stack
               to a file shortly before it, the server kills the worker at the cap), a proposal-draw cap
               and a likelihood-evaluation cap enforced by wrappers; the population loops are traced
               with sys.monitoring (no source hooks)
"""
import ast
import faulthandler
import inspect
import json
import math
import os
import shutil
import signal
import sys
import textwrap
import time
import traceback
import types


def err(e):
    return type(e).__name__


# ======================================================================================================
# validators
# ======================================================================================================
def run_validators(job):
    import logging
    logging.disable(logging.CRITICAL)
    import warnings
    warnings.simplefilter("ignore")
    from nessai.samplers.importancesampler import ImportanceNestedSampler as INS
    out = {}
    # check_configuration
    res = []
    for c in job.get("cc", []):
        o = types.SimpleNamespace(min_samples=c["min_s"], min_remove=c["min_r"], max_samples=c["max_s"], nlive=c["nlive"])
        try:
            res.append({"ok": bool(INS.check_configuration(o))})
        except ValueError as e:
            res.append({"error": "ValueError", "msg": str(e)})
        except Exception as e:
            res.append({"error": err(e), "msg": str(e)})
    out["cc"] = res
    # configure_stopping_criterion
    res = []
    for c in job.get("sc", []):
        o = types.SimpleNamespace(stopping_criterion_aliases=INS.stopping_criterion_aliases)
        try:
            INS.configure_stopping_criterion(o, c["criterion"], c["tolerance"], c["check"])
            res.append({"criteria": list(o.stopping_criterion), "stop_any": bool(o._stop_any),
                        "n_tol": len(o.tolerance)})
        except ValueError as e:
            res.append({"error": "ValueError", "msg": str(e)})
        except Exception as e:
            res.append({"error": err(e), "msg": str(e)})
    out["sc"] = res
    out["aliases"] = {k: list(v) for k, v in INS.stopping_criterion_aliases.items()}
    # get_flow_proposal_class
    from nessai.proposal.utils import check_proposal_kwargs, get_flow_proposal_class
    from nessai.proposal import FlowProposal
    from nessai.utils.entry_points import get_entry_points
    out["external"] = sorted(get_entry_points("nessai.proposals").keys())

    class Sub(FlowProposal):
        pass

    res = []
    for c in job.get("pc", []):
        arg = {"none": None, "subclass": Sub, "other": dict}.get(c["kind"], c.get("value"))
        try:
            r = get_flow_proposal_class(arg)
            res.append({"cls": r.__name__})
        except ValueError:
            res.append({"error": "ValueError"})
        except TypeError:
            res.append({"error": "TypeError"})
        except Exception as e:
            res.append({"error": err(e)})
    out["pc"] = res
    # check_proposal_kwargs
    import nessai.proposal as P
    import nessai.gw.proposal as GP
    from inspect import getmro, signature
    known = {P.AugmentedFlowProposal, GP.AugmentedGWFlowProposal, P.FlowProposal, GP.GWFlowProposal}
    res = []
    for c in job.get("cpk", []):
        cls = get_flow_proposal_class(c["cls"])
        class_keys, others = set(), set(known)
        for k in getmro(cls):
            class_keys.update(signature(k).parameters.keys())
            others.discard(k)
        allowed = set()
        for k in others:
            allowed.update(signature(k).parameters.keys())
        r = {"class_keys": sorted(class_keys), "allowed": sorted(allowed)}
        try:
            kept = check_proposal_kwargs(cls, {k: 1 for k in c["keys"]}, strict=c["strict"])
            r["kept"] = sorted(kept)
        except RuntimeError as e:
            r["error"] = "RuntimeError"
            r["msg"] = str(e)
        except Exception as e:
            r["error"] = err(e)
        res.append(r)
    out["cpk"] = res
    # update_training_config
    from nessai.flowmodel.utils import update_training_config
    res = []
    for c in job.get("tc", []):
        cfg = {}
        if c["type"] is not None:
            cfg["noise_type"] = c["type"]
        if c["scale_kind"] == 1:
            cfg["noise_scale"] = 0.25
        elif c["scale_kind"] == 2:
            cfg["noise_scale"] = c.get("scale_value", "big")
        try:
            r = update_training_config(cfg)
            res.append({"noise_type_set": r["noise_type"] is not None})
        except RuntimeError:
            res.append({"error": "RuntimeError"})
        except TypeError:
            res.append({"error": "TypeError"})
        except Exception as e:
            res.append({"error": err(e)})
    out["tc"] = res
    # FlowModel.check_batch_size / prep_data: batch sizes that reach the DataLoaders
    import numpy as np
    from nessai.flowmodel.base import FlowModel
    res = []
    for c in job.get("cbs", []):
        try:
            res.append({"b": int(FlowModel.check_batch_size(np.zeros(c["n"]), c["bs"]))})
        except Exception as e:
            res.append({"error": err(e)})
    out["cbs"] = res
    res = []
    for c in job.get("prep", []):
        o = types.SimpleNamespace(initialised=True, check_batch_size=FlowModel.check_batch_size, device="cpu", _batch_size=None)
        x = np.random.randn(c["n"], 2)
        w = np.ones(c["n"]) if c["weights"] else None
        try:
            tr, va, b = FlowModel.prep_data(o, x, c["val_size"], c["batch_size"], weights=w, use_dataloader=c["use_dataloader"])
            r = {"b": int(b), "dataloader": hasattr(tr, "batch_size")}
            if r["dataloader"]:
                r["train_bs"] = tr.batch_size
                r["val_bs"] = va.batch_size
                r["n_train"] = len(tr.dataset)
                r["n_val"] = len(va.dataset)
            else:
                r["n_train"] = int(tr.shape[0])
                r["n_val"] = int(va.shape[0])
            res.append(r)
        except Exception as e:
            res.append({"error": err(e), "msg": str(e)[:160], "where": nessai_frames(e.__traceback__)[-1:] })
    out["prep"] = res
    # the documented option list (what bilby / pycbc use to enumerate nessai's settings)
    try:
        from nessai.utils.settings import get_all_kwargs
        out["documented"] = {"std": sorted(get_all_kwargs(importance_nested_sampler=False)),
                             "ins": sorted(get_all_kwargs(importance_nested_sampler=True))}
    except Exception as e:
        out["documented"] = {"error": err(e)}
    return out


# ======================================================================================================
# signatures
# ======================================================================================================
def run_sigs(job):
    import importlib
    import logging
    logging.disable(logging.CRITICAL)
    import warnings
    warnings.simplefilter("ignore")
    out = []
    for s in job["sigs"]:
        r = {"key": s["key"]}
        try:
            mod = importlib.import_module(s["module"])
            obj = mod
            for part in s["qual"].split("."):
                obj = inspect.getattr_static(obj, part) if inspect.isclass(obj) else getattr(obj, part)
            drop = s["drop_first"]
            if isinstance(obj, staticmethod):
                obj = obj.__func__
            elif isinstance(obj, classmethod):
                obj = obj.__func__
            sg = inspect.signature(obj)
            ps = list(sg.parameters.values())
            if drop and ps:
                ps = ps[1:]
            K = inspect.Parameter
            r["pos"] = [p.name for p in ps if p.kind in (K.POSITIONAL_ONLY, K.POSITIONAL_OR_KEYWORD)]
            r["nposonly"] = sum(1 for p in ps if p.kind == K.POSITIONAL_ONLY)
            r["kwonly"] = [p.name for p in ps if p.kind == K.KEYWORD_ONLY]
            r["required"] = [p.name for p in ps if p.default is K.empty and p.kind in
                             (K.POSITIONAL_ONLY, K.POSITIONAL_OR_KEYWORD, K.KEYWORD_ONLY)]
            r["vararg"] = any(p.kind == K.VAR_POSITIONAL for p in ps)
            r["varkw"] = any(p.kind == K.VAR_KEYWORD for p in ps)
        except Exception as e:
            r["error"] = f"{err(e)}: {e}"
        out.append(r)
    return {"sigs": out}


# ======================================================================================================
# covering-array runs
# ======================================================================================================
class Cap(BaseException):
    """raised by the counting wrappers; BaseException so that no `except Exception` inside nessai eats it"""


class LoopTracer:
    """sys.monitoring LINE tracer for one function containing one `while` loop over n_accepted."""

    def __init__(self, tool, func, kind, state):
        self.kind = kind
        self.state = state
        self.code = func.__code__
        src = textwrap.dedent(inspect.getsource(func))
        tree = ast.parse(src)
        off = self.code.co_firstlineno - 1
        # the loop `while <var> < <bound> [and <draw> > 0]` whose bound is the requested number of points;
        # the names of the local variables are read from the source, not assumed
        bound = "N" if kind == "populate" else "n"
        loops = []
        for n in ast.walk(tree):
            if isinstance(n, ast.While):
                cmps = [c for c in ast.walk(n.test) if isinstance(c, ast.Compare) and len(c.ops) == 1]
                for c in cmps:
                    if isinstance(c.ops[0], ast.Lt) and isinstance(c.left, ast.Name) and \
                            isinstance(c.comparators[0], ast.Name) and c.comparators[0].id == bound:
                        loops.append((n, c.left.id, cmps))
        if len(loops) != 1:
            raise RuntimeError(f"{kind}: expected one loop `while <var> < {bound}`, found {len(loops)}")
        w, self.var, cmps = loops[0]
        self.draw_var = None
        for c in cmps:
            if isinstance(c.ops[0], ast.Gt) and isinstance(c.left, ast.Name) and ast.unparse(c.comparators[0]) == "0":
                self.draw_var = c.left.id
        self.prop_var = None
        for st in w.body:
            if isinstance(st, ast.AugAssign) and isinstance(st.op, ast.Add) and isinstance(st.target, ast.Name) \
                    and st.target.id != self.var:
                self.prop_var = st.target.id
                break
        if kind == "populate" and self.prop_var is None:
            raise RuntimeError("populate: no draw counter found in the loop")
        if kind == "ins_draw" and self.draw_var is None:
            raise RuntimeError("draw: no batch-size variable found in the loop test")
        self.head = w.lineno + off
        self.tags = {}
        for n in ast.walk(w):
            if isinstance(n, ast.Continue):
                self.tags[n.lineno + off] = "continue"
            elif isinstance(n, ast.Break):
                self.tags[n.lineno + off] = "break"
            elif isinstance(n, ast.Assign) and any(isinstance(t, ast.Name) and t.id == self.var for t in n.targets):
                self.tags[n.lineno + off] = "assign"
        self.active = {}        # frame id -> trace
        self.tool = tool

    def on_line(self, code, line):
        if line != self.head and line not in self.tags:
            return
        fr = sys._getframe(2)
        if fr.f_code is not self.code:
            return
        tr = self.active.get(id(fr))
        loc = fr.f_locals
        if line == self.head:
            snap = (int(loc.get(self.var, 0)), int(loc.get(self.prop_var, 0)) if self.prop_var else 0)
            if tr is None:
                slf = loc.get("self")
                tr = {"kind": self.kind, "heads": [snap], "tags": [[]], "exit": None, "draws0": self.state["draws"]}
                if self.kind == "populate":
                    tr.update(N=int(loc["N"]), max_samples=int(loc["max_samples"]), drawsize=int(slf.drawsize),
                              accumulate=bool(slf.accumulate_weights), cls=type(slf).__name__)
                else:
                    tr.update(n=int(loc["n"]), n_draw=int(loc[self.draw_var]))
                self.active[id(fr)] = tr
            else:
                tr["heads"].append(snap)
                tr["tags"].append([])
                # n_accepted is a progress measure only where it is incremented per pass; with
                # accumulate_weights it stays 0 until the expected count reaches N and the max_samples
                # guard bounds the loop instead (C20_populate_accumulate_bounded)
                if len(tr["heads"]) > 1 and tr["heads"][-1][0] == tr["heads"][-2][0] and not tr.get("accumulate"):
                    self.state["stalled_now"] = self.state.get("stalled_now", 0) + 1
                else:
                    self.state["stalled_now"] = 0
        elif tr is not None:
            tr["tags"][-1].append(self.tags[line])
            if self.tags[line] == "break":
                tr["exit"] = (int(loc.get(self.var, 0)), int(loc.get(self.prop_var, 0)) if self.prop_var else 0)

    def finish(self, fr, how):
        tr = self.active.pop(id(fr), None)
        if tr is None:
            return
        tr["how"] = how
        tr["draws_delta"] = self.state["draws"] - tr.pop("draws0")
        self.state["traces"].append(tr)


def install_tracers(state):
    from nessai.proposal.flowproposal import FlowProposal
    from nessai.proposal.importance import ImportanceFlowProposal
    mon = sys.monitoring
    tool = 4
    try:
        mon.use_tool_id(tool, "c20")
    except ValueError:
        pass
    tracers, declined = [], {}
    for func, kind in ((FlowProposal.populate, "populate"), (ImportanceFlowProposal.draw, "ins_draw")):
        try:
            tracers.append(LoopTracer(tool, func, kind, state))
        except Exception as e:          # a loop shape the tracer has no rule for: the runs still decide
            declined[kind] = f"{type(e).__name__}: {e}"
    by_code = {t.code: t for t in tracers}

    def on_line(code, line):
        t = by_code.get(code)
        if t is not None:
            t.on_line(code, line)

    def on_return(code, off, val):
        t = by_code.get(code)
        if t is not None:
            t.finish(sys._getframe(1), "return")

    def on_unwind(code, off, exc):
        t = by_code.get(code)
        if t is not None:
            t.finish(sys._getframe(1), "unwind:" + type(exc).__name__)

    mon.register_callback(tool, mon.events.LINE, on_line)
    mon.register_callback(tool, mon.events.PY_RETURN, on_return)
    for t in tracers:
        mon.set_local_events(tool, t.code, mon.events.LINE | mon.events.PY_RETURN)
    # PY_UNWIND can only be set globally
    mon.register_callback(tool, mon.events.PY_UNWIND, on_unwind)
    mon.set_events(tool, mon.events.PY_UNWIND)
    out = {t.kind + "_head_line": t.head for t in tracers}
    out.update({k + "_declined": v for k, v in declined.items()})
    return out


def make_model(kind):
    import numpy as np
    from nessai.model import Model

    dims = 3 if kind == "gauss3" else 2
    corner = kind == "corner2"
    lo, hi = (0.0, 1.0) if corner else (-5.0, 5.0)
    if kind.startswith("box:"):
        # box:lo1,hi1,lo2,hi2 - uniform prior on the box, Gaussian likelihood at its centre, sigma = width / 10
        return make_box_model([float(v) for v in kind[4:].split(",")])

    class G(Model):
        """gauss2 / gauss3: unit Gaussian in [-5, 5]^d.  corner2: uniform prior on the unit square, likelihood
        exp(-(x + y) / 0.05) peaked in a corner, so a fair share of what a flow proposes lies outside the bounds
        (whole batches are discarded when drawsize is small)."""

        def __init__(self):
            self.names = ["x", "y", "z"][:dims]
            self.bounds = {n: [lo, hi] for n in self.names}
            self.points = 0
            self.cap = None
            self.lo, self.hi = lo, hi

        def log_prior(self, x):
            return np.log(self.in_bounds(x), dtype=float) - dims * np.log(hi - lo)

        def log_likelihood(self, x):
            self.points += int(np.size(x))
            if self.cap is not None and self.points > self.cap:
                raise Cap(f"likelihood-evaluation cap {self.cap} exceeded")
            s = 0.0
            if corner:
                for n in self.names:
                    s = s + x[n]
                return -s / 0.05
            for n in self.names:
                s = s + x[n] ** 2
            return -0.5 * s

        def to_unit_hypercube(self, x):
            y = x.copy()
            for n in self.names:
                y[n] = (x[n] - lo) / (hi - lo)
            return y

        def from_unit_hypercube(self, x):
            y = x.copy()
            for n in self.names:
                y[n] = (hi - lo) * x[n] + lo
            return y

    return G()


def make_box_model(b):
    import numpy as np
    from nessai.model import Model

    class B(Model):
        def __init__(self):
            self.names = ["x", "y"]
            self.bounds = {"x": [b[0], b[1]], "y": [b[2], b[3]]}
            self.points = 0
            self.cap = None
            self.lo = {"x": b[0], "y": b[2]}
            self.hi = {"x": b[1], "y": b[3]}

        def log_prior(self, x):
            return np.log(self.in_bounds(x), dtype=float) - np.log((b[1] - b[0]) * (b[3] - b[2]))

        def log_likelihood(self, x):
            self.points += int(np.size(x))
            if self.cap is not None and self.points > self.cap:
                raise Cap(f"likelihood-evaluation cap {self.cap} exceeded")
            s = 0.0
            for n in self.names:
                c, w = 0.5 * (self.lo[n] + self.hi[n]), (self.hi[n] - self.lo[n]) / 10.0
                s = s + ((x[n] - c) / w) ** 2
            return -0.5 * s

        def to_unit_hypercube(self, x):
            y = x.copy()
            for n in self.names:
                y[n] = (x[n] - self.lo[n]) / (self.hi[n] - self.lo[n])
            return y

        def from_unit_hypercube(self, x):
            y = x.copy()
            for n in self.names:
                y[n] = (self.hi[n] - self.lo[n]) * x[n] + self.lo[n]
            return y

    return B()


def nessai_frames(tb):
    out = []
    for fs in traceback.extract_tb(tb):
        if "/nessai/" in fs.filename:
            out.append(f"{fs.filename.split('/nessai/')[-1]}:{fs.name}")
    return out[-8:]


def run_one(job, outdir):
    """one bounded run in this process; returns the result dictionary"""
    t0 = time.time()
    import numpy as np
    import torch
    torch.set_num_threads(1)
    import logging
    logging.disable(logging.CRITICAL)
    import warnings
    warnings.simplefilter("ignore")
    from nessai.flowsampler import FlowSampler
    from nessai.samplers.nestedsampler import NestedSampler
    from nessai.samplers.importancesampler import ImportanceNestedSampler
    from nessai.proposal.flowproposal import FlowProposal
    from nessai.flowmodel.importance import ImportanceFlowModel
    from nessai.utils.logging import setup_logger
    setup_logger(output=None, log_level="CRITICAL")

    state = {"phase": "construct", "draws": 0, "traces": [], "draw_calls": 0}
    res = {"id": job["id"], "status": "?", "phase": None}
    lines = install_tracers(state)
    res["loop_lines"] = lines
    draw_cap = job.get("draw_cap", 2_000_000)
    stall_cap = job.get("stall_cap", 400)

    def count_draws(n):
        state["draws"] += int(n)
        state["draw_calls"] += 1
        if state["draws"] > draw_cap:
            raise Cap(f"proposal-draw cap {draw_cap} exceeded")
        # no-progress cap, measured in draws so that a small drawsize is not penalised: stall_cap passes of
        # at least 50 draws each
        if state.get("stalled_now", 0) > stall_cap and state.get("stalled_now", 0) * max(1, int(n)) > 50 * stall_cap:
            raise Cap(f"population loop made no progress for {state['stalled_now']} consecutive passes "
                      f"({state['stalled_now'] * int(n)} draws)")

    real_dlp = FlowProposal.draw_latent_prior

    def draw_latent_prior(self, n):
        count_draws(n)
        return real_dlp(self, n)

    FlowProposal.draw_latent_prior = draw_latent_prior
    real_si = ImportanceFlowModel.sample_ith

    def sample_ith(self, i, N=1):
        count_draws(N)
        return real_si(self, i, N=N)

    ImportanceFlowModel.sample_ith = sample_ith

    def phase_wrap(cls, name, phase):
        real = getattr(cls, name)

        def w(self, *a, **k):
            order = ["construct", "run-config", "sampling", "post-sampling", "done"]
            if state["phase"] in order and order.index(phase) > order.index(state["phase"]):
                state["phase"] = phase
            return real(self, *a, **k)

        w.__name__ = name
        setattr(cls, name, w)

    for cls in (NestedSampler, ImportanceNestedSampler):
        phase_wrap(cls, "populate_live_points", "sampling")
        phase_wrap(cls, "finalise", "post-sampling")

    model = make_model(job.get("model", "gauss2"))
    model.cap = job.get("like_cap", 500_000)
    kw = dict(job["kwargs"])
    kw.setdefault("output", os.path.join(outdir, "run_" + str(job["id"])))
    fs = None
    try:
        fs = FlowSampler(model, **kw)
        state["phase"] = "run-config"
        fs.run(**job.get("run_kwargs", {}))
        state["phase"] = "done"
        # documented methods of the finished sampler that a user calls after run()
        for name, args in job.get("post_calls", []):
            state["phase"] = "post-run:" + name
            getattr(fs.ns, name)(*args)
        state["phase"] = "done"
        res["status"] = "completed"
    except Cap as e:
        res["status"] = "cap"
        res["exc_msg"] = str(e)
        res["where"] = nessai_frames(e.__traceback__)
    except BaseException as e:          # SystemExit from nessai included
        res["status"] = "raised"
        res["exc_type"] = err(e)
        res["exc_msg"] = str(e)[:300]
        res["where"] = nessai_frames(e.__traceback__)
    res["phase"] = state["phase"]
    res["n_like"] = int(model.points)
    res["draws"] = int(state["draws"])
    res["draw_calls"] = int(state["draw_calls"])
    # loop traces -> batches
    tr_out, stats = [], {"populate_calls": 0, "ins_draw_calls": 0, "max_passes": 0, "stalled_passes": 0, "passes": 0,
                         "interrupted": 0}
    for tr in state["traces"]:
        heads, tags = tr["heads"], tr["tags"]
        k = len(heads) - 1 if tr["exit"] is None else len(heads)
        stats["populate_calls" if tr["kind"] == "populate" else "ins_draw_calls"] += 1
        stats["max_passes"] = max(stats["max_passes"], k)
        stats["passes"] += k
        final = tr["exit"] if tr["exit"] is not None else heads[-1]
        seq = heads[1:] + ([tr["exit"]] if tr["exit"] is not None else [])
        batches = []
        for i in range(k):
            a0, a1 = heads[i][0], seq[i][0]
            tg = tags[i]
            if tr["kind"] == "populate" and tr["accumulate"]:
                b = {"empty": "continue" in tg, "try": "assign" in tg, "acc": a1 if "assign" in tg else 0}
            else:
                b = {"empty": "continue" in tg, "try": False, "acc": a1 - a0}
            if a1 == a0:
                stats["stalled_passes"] += 1
            if b["empty"]:
                stats["empty_passes"] = stats.get("empty_passes", 0) + 1
            batches.append(b)
        complete = tr["how"] == "return"
        if not complete:
            stats["interrupted"] += 1
            if len(stats.setdefault("interrupted_traces", [])) < 3:
                stats["interrupted_traces"].append({
                    "kind": tr["kind"], "accumulate": bool(tr.get("accumulate")), "passes": k,
                    "empty_passes": sum(1 for b in batches if b["empty"]), "n_proposed": final[1],
                    "max_samples": tr.get("max_samples"), "how": tr["how"]})
        if len(tr_out) < job.get("max_traces", 12) and k <= 300:
            t = {kk: tr[kk] for kk in tr if kk not in ("heads", "tags", "exit")}
            # ImportanceFlowProposal.draw keeps no n_proposed: the draws counted by the sample_ith wrapper
            # during the call are the independent observation
            n_prop = final[1] if tr["kind"] == "populate" else tr["draws_delta"]
            t.update(batches=batches, k=k, n_accepted=final[0], n_proposed=n_prop, complete=complete)
            tr_out.append(t)
    res["traces"] = tr_out
    res["loop_stats"] = stats
    if res["status"] == "completed":
        try:
            ns = fs.ns
            post = fs.posterior_samples
            r = {"logZ": float(fs.logZ), "logZ_error": float(fs.logZ_error), "n_post": int(post.size),
                 "iteration": int(ns.iteration), "nlive": int(ns.nlive),
                 "capped": bool(ns.iteration >= ns.max_iteration)}
            if job["sampler"] == "std":
                r["n_nested"] = int(len(fs.nested_samples))
                r["finalised"] = bool(ns.finalised)
            else:
                r["n_nested"] = int(fs.nested_samples.size)
                r["n_training"] = int(ns.training_samples.samples.size)
                r["finalised"] = bool(ns.finalised)
                if getattr(fs, "_final_samples", None) is not None:
                    r["n_final"] = int(fs._final_samples.size)
                    r["final_logZ"] = float(ns.final_log_evidence)
            names = model.names
            r["post_finite"] = bool(all(np.isfinite(post[n]).all() for n in names) and np.isfinite(post["logL"]).all())
            lo_ = model.lo if isinstance(model.lo, dict) else {n: model.lo for n in names}
            hi_ = model.hi if isinstance(model.hi, dict) else {n: model.hi for n in names}
            r["post_in_bounds"] = bool(all(((post[n] >= lo_[n]) & (post[n] <= hi_[n])).all() for n in names))
            prop = getattr(ns, "_flow_proposal", None)
            if prop is not None:
                r["prime_prior"] = bool(getattr(prop, "use_x_prime_prior", False))
            res["result"] = r
        except BaseException as e:
            res["status"] = "raised"
            res["phase"] = "result-access"
            res["exc_type"] = err(e)
            res["exc_msg"] = str(e)[:300]
            res["where"] = nessai_frames(e.__traceback__)
    # attributes that exist at run time (validates the translator's `assigned` sets)
    attrs = {}
    try:
        if fs is not None:
            objs = [fs.ns]
            for a in ("proposal", "_flow_proposal", "_uninformed_proposal"):
                o = getattr(fs.ns, a, None)
                if o is not None:
                    objs.append(o)
                    if getattr(o, "flow", None) is not None:
                        objs.append(o.flow)
            for o in objs:
                attrs.setdefault(type(o).__name__, sorted(set(vars(o))))
    except BaseException:
        pass
    res["attrs"] = attrs
    res["wall"] = round(time.time() - t0, 2)
    try:
        shutil.rmtree(kw["output"], ignore_errors=True)
    except Exception:
        pass
    return res


def worker(job, outdir):
    """forked: run the job, write <id>.json, exit"""
    path = os.path.join(outdir, f"{job['id']}.json")
    tracefile = open(os.path.join(outdir, f"{job['id']}.trace"), "w")
    # the server sends SIGUSR1 just before it kills a worker that used up its budget: the stack at that moment
    faulthandler.register(signal.SIGUSR1, file=tracefile, all_threads=True)
    try:
        import numpy as np
        import torch
        np.random.seed(job.get("seed", 0))
        torch.manual_seed(job.get("seed", 0))
        res = run_one(job, outdir)
    except BaseException as e:
        res = {"id": job["id"], "status": "harness-error", "exc_type": err(e), "exc_msg": traceback.format_exc()[-1500:]}
    with open(path + ".tmp", "w") as fh:
        json.dump(res, fh, default=str)
    os.replace(path + ".tmp", path)
    sys.stdout.flush()
    os._exit(0)


def cpu_seconds(pid):
    """user + system CPU time of one process (load-independent measure of how long a run has been working)"""
    try:
        with open(f"/proc/{pid}/stat") as fh:
            f = fh.read().rsplit(")", 1)[1].split()
        return (int(f[11]) + int(f[12])) / os.sysconf("SC_CLK_TCK")
    except Exception:
        return 0.0


def run_server(job):
    outdir = job["outdir"]
    os.makedirs(outdir, exist_ok=True)
    parallel = job.get("parallel", 12)
    # import once; no computation before the forks
    import numpy  # noqa
    import torch
    torch.set_num_threads(1)
    import nessai.flowsampler  # noqa
    import nessai.gw.proposal  # noqa
    import nessai.experimental.proposal.clustering  # noqa
    pending = list(job["jobs"])
    running = {}       # pid -> (job, start)
    results = {}
    while pending or running:
        while pending and len(running) < parallel:
            j = pending.pop(0)
            pid = os.fork()
            if pid == 0:
                try:
                    os.setsid()
                except Exception:
                    pass
                worker(j, outdir)
                os._exit(0)
            running[pid] = (j, time.time())
        time.sleep(0.05)
        for pid in list(running):
            j, st = running[pid]
            done, _ = os.waitpid(pid, os.WNOHANG)
            # the budget `wall` is counted in CPU seconds of the worker, so that a loaded machine does not turn a slow
            # run into a `timeout`; a worker that burns no CPU (deadlock) is stopped after 4 x the budget of wall clock
            wall = j.get("wall", 120)
            if done == 0 and (cpu_seconds(pid) > wall or time.time() - st > 4 * wall):
                try:
                    os.kill(pid, signal.SIGUSR1)
                    time.sleep(0.4)
                except Exception:
                    pass
                try:
                    os.killpg(pid, signal.SIGKILL)
                except Exception:
                    try:
                        os.kill(pid, signal.SIGKILL)
                    except Exception:
                        pass
                os.waitpid(pid, 0)
                done = pid
                timed_out = True
            else:
                timed_out = False
            if done:
                del running[pid]
                path = os.path.join(outdir, f"{j['id']}.json")
                if os.path.exists(path):
                    results[j["id"]] = json.load(open(path))
                else:
                    tr = ""
                    try:
                        tr = open(os.path.join(outdir, f"{j['id']}.trace")).read()
                    except Exception:
                        pass
                    frames = [ln.strip() for ln in tr.splitlines() if "/nessai/" in ln][:10]
                    results[j["id"]] = {"id": j["id"], "status": "timeout" if timed_out else "died",
                                        "where": frames, "stack": tr[-3000:], "wall": round(time.time() - st, 1)}
    return {"results": [results[j["id"]] for j in job["jobs"]]}


def main():
    mode = sys.argv[1]
    job = json.load(sys.stdin)
    if mode == "validators":
        out = run_validators(job)
    elif mode == "sigs":
        out = run_sigs(job)
    elif mode == "runs":
        out = run_server(job)
    else:
        raise SystemExit("unknown mode")
    json.dump(out, sys.stdout, default=str)


if __name__ == "__main__":
    main()
