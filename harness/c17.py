"""C17: INS level thresholds honour min_samples, min_remove and max_samples."""
import json
import math
import os
import subprocess
import sys

import common
from common import cB, cL, cN, cOpt, cT, cZ, float_key

sys.path.insert(0, common.VERIF + "/translator")
PID = "C17"
INF = float("inf")


def gen_thr(rng, tier):
    cases = []
    n_rand = 900 if tier == "quick" else 12000
    for _ in range(n_rand):
        size = rng.choice([1, 2, 3, 4, 5, 8, 12, 20, 40]) if rng.random() < 0.8 else rng.randint(1, 60)
        if rng.random() < 0.5:
            alph = sorted(rng.sample([-3.0, -1.0, 0.0, 0.5, 2.0, 7.0, 11.5], rng.randint(1, 4)))
            logL = sorted(rng.choice(alph) for _ in range(size))
        else:
            off = rng.choice([0.0, 0.0, -2000.0, 3000.0, -1.0e5])    # ordinary log-likelihood magnitudes
            logL = sorted(off + rng.uniform(-50, 10) for _ in range(size))
        wk = rng.choice(["equal", "dominant", "random", "neginf_some", "neginf_all", "huge"])
        if wk == "equal":
            logW = [0.0] * size
        elif wk == "dominant":
            logW = [-50.0] * size
            logW[rng.randrange(size)] = 0.0
        elif wk == "random":
            logW = [rng.uniform(-10, 2) for _ in range(size)]
        elif wk == "neginf_some":
            logW = [(-INF if rng.random() < 0.4 else rng.uniform(-3, 0)) for _ in range(size)]
        elif wk == "neginf_all":
            logW = [-INF] * size
        else:
            logW = [rng.uniform(-700, 700) for _ in range(size)]
        method = rng.choice(["entropy", "quantile"])
        q = rng.choice([0.0, 0.01, 0.1, 0.3, 0.5, 0.8, 0.9, 0.99, 1.0])
        kwargs = {"q": q, "include_likelihood": rng.random() < 0.3}
        if method == "entropy":
            kwargs["use_log_weights"] = rng.random() < 0.5
        nlive = rng.choice([size, max(1, size - 2), size + 3, rng.randint(1, 60)])
        min_s = rng.randint(1, max(1, nlive))
        min_r = rng.randint(1, max(1, nlive)) if rng.random() < 0.8 else 1
        dc = rng.random() < 0.5
        max_s = None if rng.random() < 0.4 else rng.choice([nlive + 1, nlive + min_s, nlive + size, 2 * nlive, nlive])
        cases.append({"logL": logL, "logW": logW, "method": method, "kwargs": kwargs, "min_s": min_s, "min_r": min_r,
                      "max_s": max_s, "dc": dc, "nlive": nlive, "wkind": wk})
    return cases


def gen_ntrain(rng, tier):
    out = []
    for _ in range(200 if tier == "quick" else 3000):
        size = rng.randint(1, 40)
        logL = sorted(rng.choice([-2.0, 0.0, 0.0, 1.0, 3.5, 9.0]) for _ in range(size))
        thr = rng.choice(logL + [logL[-1] + 1.0, logL[0] - 1.0])
        out.append({"logL": logL, "thr": thr, "min_s": rng.randint(1, size)})
    return out


def gen_wq(rng, tier):
    out = []
    for _ in range(150 if tier == "quick" else 2000):
        n = rng.randint(1, 40)
        vals = sorted(rng.uniform(-20, 20) if rng.random() < 0.7 else rng.choice([-1.0, 0.0, 2.0]) for _ in range(n))
        kind = rng.choice(["equal", "random", "dominant", "some_neginf"])
        if kind == "equal":
            lw = [0.0] * n
        elif kind == "random":
            lw = [rng.uniform(-8, 0) for _ in range(n)]
        elif kind == "dominant":
            lw = [-40.0] * n
            lw[rng.randrange(n)] = 0.0
        else:
            lw = [(-INF if rng.random() < 0.3 else rng.uniform(-3, 0)) for _ in range(n)]
            if all(v == -INF for v in lw):
                lw[0] = 0.0
        out.append({"values": vals, "logw": lw, "qs": [0.0, 0.05, 0.2, 0.5, 0.5, 0.8, 0.95, 1.0], "kind": kind,
                    # the weights are normalised inside the function: a common offset must not matter (C17_quantile_shift)
                    "shift": rng.choice([0.0, 50.0, -600.0, -745.0, -1000.0, 800.0, -2000.0, 5000.0]),
                    "perm": rng.sample(range(n), n) if rng.random() < 0.5 else None})
    return out


def classify_and_check(c, r):
    """Direct predicate on the implementation alone. Returns list of (key, what)."""
    if r.get("rejected") or "method_error" in r:
        return []
    fails = []
    logL, size = c["logL"], len(c["logL"])
    min_s, min_r, max_s, nlive, dc = c["min_s"], c["min_r"], c["max_s"], c["nlive"], c["dc"]
    n = r["n"]
    n1 = 1 if n == 0 else n
    if "error" in r:
        if r["error"] == "IndexError" and min_r >= size:
            return [("C17:min_remove>=size", f"IndexError: min_remove={min_r} >= live-set size {size} (method chose n={n})")]
        if r["error"] == "IndexError" and max_s and dc and max_s <= nlive:
            return [("C17:max_samples<=nlive", f"IndexError: max_samples={max_s} <= nlive={nlive} accepted by check_configuration")]
        return [("C17:raised", f"determine_log_likelihood_threshold raised {r['error']}")]
    thr = r["thr"]
    if r.get("thr_is_int0") or thr not in logL:
        return [("C17:not-a-sample", f"threshold {thr} is not the likelihood of a live sample")]
    removed = sum(1 for v in logL if v < thr)
    kept = size - removed
    first = logL.index(thr)
    last = size - 1 - logL[::-1].index(thr)
    tie = last > first
    cap_on = bool(dc and max_s)
    if size - n1 < min_s:
        want = min(size, min_s)
        # index-level: some index with this likelihood keeps exactly `want`
        ok_index = any(size - k == want for k in range(first, last + 1))
        if not ok_index:
            if cap_on and (max_s - nlive) < min_s and any(size - k == max_s - nlive for k in range(first, last + 1)):
                fails.append(("C17:cap-below-min_samples",
                              f"max_samples={max_s} - nlive={nlive} < min_samples={min_s}: only {kept} samples kept"))
            else:
                fails.append(("C17:min_samples", f"method leaves {size - n1} < min_samples={min_s} but {kept} kept, not {want}"))
    else:
        if removed < min_r:
            if tie or (first == 0):
                fails.append(("C17:ties-at-cut", f"tie at the cut: only {removed} samples strictly below the threshold, min_remove={min_r}"))
            else:
                fails.append(("C17:min_remove", f"{removed} removed < min_remove={min_r}"))
    if cap_on and kept + nlive > max_s:
        if tie:
            fails.append(("C17:ties-at-cut", f"tie at the cut: next level {kept}+{nlive} exceeds max_samples={max_s}"))
        else:
            fails.append(("C17:max_samples", f"next level {kept}+{nlive} exceeds max_samples={max_s}"))
    return fails


def lit_thr(c, r):
    keys = cL(cZ(float_key(v)) for v in c["logL"])
    if "error" in r:
        obs = "None"
    elif r.get("thr_is_int0"):
        obs = "(Some None)"
    else:
        obs = f"(Some (Some {cZ(float_key(r['thr']))}))"
    return cT(keys, cZ(r["n"]), cZ(c["min_s"]), cZ(c["min_r"]), cZ(c["max_s"] or 0), cZ(c["nlive"]), cB(c["dc"]), obs)


def translate(chk):
    import c17_clamp
    from pyast import Declined
    gen = None
    try:
        gen = c17_clamp.clamp()
        chk.translator["determine_log_likelihood_threshold"] = "translated"
    except Declined as e:
        chk.translator["determine_log_likelihood_threshold"] = f"declined: {e}"
    try:
        chk.translator["masks"] = c17_clamp.masks()
    except Declined as e:
        chk.translator["masks"] = f"declined: {e}"
    return gen


TODAY = [
    ("today_range", "P_range"), ("today_nonzero", "P_nonzero"), ("today_min_samples", "P_min_samples"),
    ("today_min_remove", "P_min_remove"), ("today_cap", "P_cap"),
]


def today(chk, gen):
    hdr = ("From Coq Require Import ZArith Bool Lia ZifyBool.\n"
           "From NessaiV Require Import Model.C17_Threshold Proofs.C17_Threshold_proofs.\nLocal Open Scope Z_scope.\n" + gen)
    for name, pred in TODAY:
        txt = hdr + f"Lemma {name} : {pred} gen_clamp.\nProof. unfold {pred}. prop_tac gen_clamp. Qed.\n"
        ok, _, err = chk.coq_run(name, txt, timeout=300)
        chk.oblige(f"today: {pred} holds of the clamp regenerated from determine_log_likelihood_threshold (split ifs + lia)",
                   "today", ok, err)
    txt = hdr + ("Lemma today_bridge : forall n size min_s min_r max_s nlive dc,\n"
                 "  gen_clamp n size min_s min_r max_s nlive dc = clamp n size min_s min_r max_s nlive dc.\n"
                 "Proof. intros; cbv beta delta [gen_clamp clamp] in *; cbv zeta in *; split_ifs; try reflexivity; "
                 "try (f_equal; lia); try lia. Qed.\n")
    ok, _, err = chk.coq_run("today_bridge", txt, timeout=300)
    chk.notes.append(f"regenerated clamp = hand model clamp (bridging lemma): {'proved' if ok else 'NOT proved: ' + err[-300:]}")


def run(chk):
    rng = chk.rng
    chk.rule = ("live sets of size 1..60 (tied and continuous likelihoods), weight vectors equal / one dominant / random / "
                "some -inf / all -inf / huge range, both threshold methods over a q grid, min_samples, min_remove in 1..nlive, "
                "max_samples unset or around nlive, constant draws on/off; configurations rejected by the real "
                "check_configuration are skipped; non-trivial = the clamp changed the method's choice or the cap triggered; "
                "distinct by full case")
    chk.assumptions += [
        "oracle: scipy.special.betainc is monotone from B(0)=0 to B(1)=1 (C17_quantile_convex is proved for every such B)",
        "float comparisons enter the model through the strictly monotone key map common.float_key",
        "the mask handed to np.argmax inside the two threshold methods is observed by wrapping np.argmax in the child",
    ]
    chk.static_props(["C17"], ["C17_run"])
    gen = translate(chk)
    if gen:
        today(chk, gen)
    real = None
    if True:
        real = {"output": os.path.join(chk.build, "ins_run"), "nlive": 60 if chk.tier == "quick" else 150,
                "min_s": 20 if chk.tier == "quick" else 60, "min_r": 3, "max_it": 4 if chk.tier == "quick" else 8,
                "seed": 1000 + chk.seed, "dc": True, "max_s": None, "strict": False}
    job = {"thr": gen_thr(rng, chk.tier), "ntrain": gen_ntrain(rng, chk.tier), "wq": gen_wq(rng, chk.tier), "real": real}
    rc, out, err = chk.child("c17_child.py", timeout=1500, inp=json.dumps(job))
    if rc != 0:
        chk.oblige("implementation child ran", "harness", False, err[-1500:])
        return
    res = json.loads(out)
    chk.evaluations = len(job["thr"]) + len(job["ntrain"]) + len(job["wq"])
    # ---- direct predicate ----------------------------------------------------------
    thr_lits, mask_lits = [], []
    for c, r in zip(job["thr"], res["thr"]):
        if r.get("rejected"):
            chk.count("rejected_by_check_configuration")
            continue
        if "method_error" in r:
            chk.count("method_raised:" + r["method_error"])
            chk.count(f"method_raised:{c['method']}:{c['wkind']}")
            # a method may give up only when there is nothing to rank: every weight is zero
            if any(w > -INF for w in c["logW"]):
                chk.fail("C17:method-raised", f"the {c['method']} threshold method raised {r['method_error']} on a live set with "
                         f"non-zero weights ({c['wkind']})", {"case": c, "observed": r})
            continue
        chk.count("method:" + c["method"])
        chk.count("weights:" + c["wkind"])
        if r.get("input_unchanged") is False:
            chk.fail("C17:input-mutated", "choosing the threshold modified the caller's live samples", {"case": c, "observed": r})
        for key, what in classify_and_check(c, r):
            chk.fail(key, what, {"case": c, "observed": r})
        if "error" not in r and not r.get("thr_is_int0"):
            idxs = [i for i, v in enumerate(c["logL"]) if v == r["thr"]]
            if idxs and r["n"] not in idxs:
                chk.nontriv(c)
        thr_lits.append(lit_thr(c, r))
        for m, a in r.get("masks", []):
            mask_lits.append(cT(cL(map(cB, m)), cN(a)))
    nt_lits = []
    for c, r in zip(job["ntrain"], res["ntrain"]):
        if "error" in r:
            chk.fail("C17:n_train-raised", f"add_new_proposal raised {r['error']}", {"case": c, "observed": r})
            continue
        if r["n"] < c["min_s"]:
            chk.fail("C17:n_train", f"proposal trained on {r['n']} < min_samples={c['min_s']} samples", {"case": c, "observed": r})
        nt_lits.append(cT(cL(cZ(float_key(v)) for v in c["logL"]), cZ(float_key(c["thr"])), cZ(c["min_s"]), cZ(r["n"])))
    for c, r in zip(job["wq"], res["wq"]):
        if "error" in r:
            chk.count("weighted_quantile_raised:" + r["error"])
            # at least one weight is finite in every generated case: there is a quantile to return
            chk.fail("C17:quantile-raised", f"weighted_quantile raised {r['error']} for weights with a finite entry "
                     f"(common offset {c.get('shift', 0.0)})", {"case": c, "observed": r})
            continue
        scale = max(1.0, max(abs(v) for v in c["values"]))
        if "q0" in r and any(not abs(a - b) <= 1e-7 * scale for a, b in zip(r["q"], r["q0"])):
            chk.fail("C17:quantile-shift", f"weighted quantile changes when {c['shift']} is added to every log-weight: {r['q0']} -> {r['q']}",
                     {"case": c, "observed": r})
        if "qp" in r and any(not abs(a - b) <= 1e-7 * scale for a, b in zip(r["q"], r["qp"])):
            chk.fail("C17:quantile-order", f"weighted quantile depends on the order in which (value, weight) pairs are given: {r['q']} vs {r['qp']}",
                     {"case": c, "observed": r})
        if "qu" in r and any(not abs(a - b) <= 1e-7 * scale for a, b in zip(r["q"], r["qu"])):
            chk.fail("C17:quantile-equal-weights", f"equal log-weights {c['logw'][0] + c.get('shift', 0.0)} give {r['q']}, the unweighted quantile is {r['qu']}",
                     {"case": c, "observed": r})
        chk.oracle_validations += 1
        pos = [v for v, w in zip(c["values"], c["logw"]) if w > -INF]
        lo, hi = min(pos), max(pos)
        tol = 1e-9 * max(1.0, abs(lo), abs(hi))
        q = r["q"]
        if any((v < lo - tol or v > hi + tol or not math.isfinite(v)) for v in q):
            chk.fail("C17:quantile-range", f"weighted quantile {q} outside data range [{lo}, {hi}]", {"case": c, "observed": r})
        if any(b < a - tol for a, b in zip(q, q[1:])):
            chk.fail("C17:quantile-monotone", f"weighted quantile not monotone in q: {q}", {"case": c, "observed": r})
    rr = res.get("real")
    if rr is not None:
        if "error" in rr:
            chk.oblige("real importance-sampler run completed", "harness", False, rr.get("trace", rr["error"]))
        else:
            chk.traces += 1
            chk.count("real_run_iterations", rr["iterations"])
            chk.sample({"real_run": rr})
            if any(n < real["min_s"] for n in rr["train_sizes"]):
                chk.fail("C17:real-n_train", f"a proposal was trained on fewer than min_samples={real['min_s']}: {rr['train_sizes']}",
                         {"real": real, "observed": rr})
            if not all(rr["live_has_thr"]):
                chk.fail("C17:real-not-a-sample", "a threshold of the real run is not the likelihood of a live sample",
                         {"real": real, "observed": rr})
    # ---- correspondence inside Coq ---------------------------------------------------
    hdr = (common.COQ_HEADER + "From Coq Require Import Lia ZifyBool.\n"
           "From NessaiV Require Import Model.C17_Threshold Run.C17_run.\nLocal Open Scope Z_scope.\n")
    fn = "clamp"
    if gen:
        hdr += gen
        fn = "gen_clamp"
    types = {"thr": "list (list Z * Z * Z * Z * Z * Z * bool * option (option Z))", "masks": "list (list bool * nat)",
             "ntrain": "list (list Z * Z * Z * Z)"}
    for name, chkfn, lits, what in (
        ("thr", f"(chk_clamp {fn})", thr_lits, f"threshold returned by the real determine_log_likelihood_threshold = model {fn} + index"),
        ("masks", "chk_argmax", mask_lits, "np.argmax of the masks built by the two threshold methods = model argmax_mask"),
        ("ntrain", "chk_ntrain", nt_lits, "size of the training set chosen by the real add_new_proposal = model n_train"),
    ):
        bad_all = []
        ok_all = True
        errs = ""
        for k in range(0, len(lits), 600):
            txt = hdr + f"Definition cs : {types[name]} := {cL(lits[k:k + 600])}.\nEval vm_compute in (mism {chkfn} cs).\n"
            ok, evals, err = chk.coq_run(f"{name}_{k}", txt, timeout=600)
            if not ok or len(evals) != 1:
                ok_all, errs = False, err
                break
            bad_all += [k + i for i in common.parse_nat_list(evals[0])]
        chk.oblige(f"correspondence: {what} ({len(lits)} cases)", "correspondence", ok_all and not bad_all,
                   errs or "mismatching: " + "; ".join(lits[i] for i in bad_all[:3]))
        chk.traces += len(lits)
    for i in range(0, len(job["thr"]), max(1, len(job["thr"]) // 4)):
        chk.sample({"case": job["thr"][i], "observed": {k: v for k, v in res["thr"][i].items() if k != "masks"}})


def replay(data):
    rp = data["replay"]
    if "case" not in rp:
        print("replay of a real run is not supported; re-run ./check C17")
        return 0
    c = rp["case"]
    kind = "thr" if "method" in c else ("ntrain" if "thr" in c else "wq")
    r = subprocess.run([common.PY, os.path.join(common.VERIF, "harness", "c17_child.py")],
                       input=json.dumps({kind: [c]}), capture_output=True, text=True, env=common.child_env())
    res = json.loads(r.stdout)[kind][0]
    fails = classify_and_check(c, res) if kind == "thr" else []
    print(json.dumps({"case": c, "observed": {k: v for k, v in res.items() if k != "masks"}, "failures": fails}, indent=1))
    if fails:
        print(f"VIOLATION property={PID} replay=(replayed) {fails[0][1]}")
        return 1
    return 0
