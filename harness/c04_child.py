"""Runs histories on the real OrderedSamples; prints per-call snapshots as JSON. Also validates numpy primitives."""
import json
import sys

import numpy as np

from nessai.samplers.importancesampler import OrderedSamples
from nessai.utils.structures import get_inverse_indices

DT = np.dtype([("x", "f8"), ("y", "f8"), ("logP", "f8"), ("logL", "f8"), ("it", "i4"),
               ("logW", "f8"), ("logQ", "f8"), ("logU", "f8")])


def batch(pairs):
    a = np.zeros(len(pairs), dtype=DT)
    for j, (k, i) in enumerate(pairs):
        a["x"][j] = i
        a["logL"][j] = k
    lq = np.array([[float(i)] for _, i in pairs], dtype=float).reshape(len(pairs), 1)
    return a, lq


def snap(s, ret):
    lp = None
    if s.live_points_indices is not None:
        # the public view, read after EVERY call (the sampler reads it between a removal and the next insertion)
        v = s.live_points
        lp = None if v is None else [int(x) for x in v["x"]]
    return {
        "lp_ids": lp,
        "keys": [float(v) for v in s.samples["logL"]],
        "ids": [int(v) for v in s.samples["x"]],
        "lq": [int(v) for v in s.log_q[:, 0]],
        "live": None if s.live_points_indices is None else [int(v) for v in s.live_points_indices],
        "dead": [int(v) for v in s.nested_samples_indices],
        "ret": int(ret),
    }


def run_history(c):
    s = OrderedSamples(strict_threshold=c["strict"], replace_all=c["repl"])
    out = []
    for o in c["ops"]:
        try:
            ret = 0
            if o[0] == "init":
                s.add_initial_samples(*batch(o[1]))
            elif o[0] == "add":
                s.add_samples(*batch(o[1]))
            elif o[0] == "thr":
                s.update_log_likelihood_threshold(o[1])
            elif o[0] == "remove":
                ret = s.remove_samples()
            elif o[0] == "finalise":
                s.finalise()
            if s.samples is None:
                out.append({"keys": [], "ids": [], "lq": [], "live": None,
                            "dead": [int(v) for v in s.nested_samples_indices], "ret": int(ret)})
            else:
                out.append(snap(s, ret))
        except Exception as e:
            out.append({"error": type(e).__name__})
            break
    return out


def prim(c):
    try:
        if c["kind"] == "ss":
            return int(np.searchsorted(np.array(c["l"], dtype=float), c["v"]))
        if c["kind"] == "insert":
            return [int(v) for v in np.insert(np.array(c["l"], dtype=int), np.array(c["idx"], dtype=int),
                                              np.array(c["vals"], dtype=int))]
        if c["kind"] == "inv":
            return [int(v) for v in get_inverse_indices(c["n"], np.array(c["idx"], dtype=int))]
    except Exception as e:
        return {"error": type(e).__name__}


def main():
    import logging
    logging.disable(logging.CRITICAL)
    job = json.load(sys.stdin)
    res = {"hist": [run_history(c) for c in job.get("hist", [])], "prim": [prim(c) for c in job.get("prim", [])]}
    json.dump(res, sys.stdout)


if __name__ == "__main__":
    main()
